META = {
    "level": "exploration",
    "technique": "symbolic TLA+ model of key serialisation (KeyIO.tla: file life cycle Prepare -> W_OpenCreate -> W_Serialize -> L_Load with permission bits, umask and passphrase tokens; comparison of key objects by kind) model-checked by TLC; every abstract case TLC emits is executed with real RSA/ECDSA/Ed25519 keys, real files under different umasks and real passphrases; TLC (KeyIO_Trace.tla) judges every observation with the design spec's own invariants",
    "text": "TLC enumerates key type x target state (absent, dangling link, existing 0600/0644/0666, file object, bundled file) x umask x write passphrase x load passphrase x loader route, and all pairs of key objects (type x material x kind: generated, loaded, public bytes, certificate-bearing with two different certificates for the same key); each case is run on the real code (generated RSA 1024-4096 and ECDSA keys, bundled key files, seeded passphrases incl. empty/unicode/long/near-miss wrong ones); mode bits, load result, equality/hash/fingerprint are recorded and decided by the trace spec. Spec-guided exploration: abstract space exhaustive, concrete keys and passphrases sampled",
    "note": "trusted: TLC, os.stat/os.umask of the running platform, `cryptography` for loading bundled roots as reference keys; the 0600 clause is asserted only for files the call creates (DESIGN Appendix F) and as 'no group/other permission bits'; the exact exception class of a failed load and the exact create mode are conformance clauses; Ed25519 has no writer in paramiko, so its round trip is bundled file -> load only",
}
import io
import os
import random
import stat

from harness.core import cfg_text, Machinery
from harness.drivers import keys as K

P_INVS = ["PrivateWhenCreated", "RoundTrip", "PassNeeded", "NoOtherKey", "EqOnlyPublic", "HashOnlyPublic",
          "PublicStable"]
C_INVS = ["ExactCreateMode", "ExistingModeKept", "LoadInModel", "DistinctDiffer"]
SENS = [("create_0644", "PrivateWhenCreated"), ("pass_ignored_on_write", "PassNeeded"),
        ("load_ignores_password", "PassNeeded"), ("eq_private", "EqOnlyPublic"), ("hash_private", "HashOnlyPublic"),
        ("public_drops_type", "EqOnlyPublic"), ("eq_cert", "EqOnlyPublic")]
BITS = [("ur", stat.S_IRUSR), ("uw", stat.S_IWUSR), ("ux", stat.S_IXUSR), ("gr", stat.S_IRGRP), ("gw", stat.S_IWGRP),
        ("gx", stat.S_IXGRP), ("or", stat.S_IROTH), ("ow", stat.S_IWOTH), ("ox", stat.S_IXOTH)]


def mode_tokens(m):
    return [n for n, b in BITS if m & b]


class Runner:
    def __init__(self, c):
        self.c = c
        self.rnd = random.Random(c.seed)
        self.pool = K.KeyPool(c.work / "pool", rsa_bits=(1024, 2048) if c.quick else (1024, 2048, 3072, 4096))
        self.dir = c.work / "files"
        self.dir.mkdir(parents=True, exist_ok=True)
        self.n = 0
        self.batch, self.info = [], []
        self.executed = set()
        # RSA-1024 keys by the length of their DER body: a multiple of the cipher block size gets a FULL block of
        # PKCS#7 padding when sealed (about one key in three); generated keys hit either class only by chance
        self.by_alignment = {}
        for _ in range(200):
            r = self.pool._gen_rsa(1024)
            n = K.der_length(r.priv)
            cls_ = "aligned" if n % 16 == 0 else "unaligned" if n % 8 else None
            if cls_ and cls_ not in self.by_alignment:
                r.origin += " [DER body %d octets, %s]" % (n, cls_)
                self.by_alignment[cls_] = r
            if len(self.by_alignment) == 2:
                break
        else:
            raise Machinery("no block-aligned / unaligned RSA-1024 key found in 200 tries")
        self.pool.universes["rsa"].append((self.by_alignment["aligned"], self.by_alignment["unaligned"]))

    def get(self, root, prov, variant):
        """pool.obtain, except that paramiko failing to load back a key file it has just written with the right
        passphrase is an observation (a failed round trip), not a machinery failure"""
        try:
            return self.pool.obtain(root, prov, variant)
        except K.PoolLoadFailure as e:
            tok = "unicode" if e.passphrase else "none"
            rec = dict(kind="file", ktype=root.type, target="file_obj", umask="022", wpass=tok, lpass=tok,
                       route="file_obj", wres="ok", exists=False, created=False, mode=[],
                       lres=type(e.exc).__name__, lkey="-")
            self.batch.append(rec)
            self.info.append({"case": rec, "key": root.origin, "bits": 0, "write_passphrase": e.passphrase,
                              "load_passphrase": e.passphrase, "path": None,
                              "note": "key pool: written by paramiko, loaded via %s: %s" % (e.way, e.exc)})
            self.c.case(key="pool|%s|%s" % (root.origin, e.way))
            root.cache[(prov, e.way)] = self.pool.obtain(root, "generated", 0)[0]     # carry on with the original
            return self.pool.obtain(root, "generated", 0)

    # ---- passphrases
    def passphrase(self, token):
        rnd = self.rnd
        if token == "none":
            return None
        if token == "empty":
            return ""
        if token == "ascii":
            return "".join(chr(rnd.randrange(0x21, 0x7f)) for _ in range(rnd.randint(1, 16)))
        if token == "unicode":
            return rnd.choice(["пароль", "密码", "pässwörd", "🔑key", "ñ"]) + "-" + str(rnd.randrange(1000))
        if token == "long":
            return "".join(chr(rnd.randrange(0x21, 0x7f)) for _ in range(rnd.choice([64, 200, 1000])))
        raise Machinery("passphrase token " + token)

    def wrong(self, right):
        rnd = self.rnd
        base = right or "secret"
        for _ in range(20):
            c = rnd.choice(["append", "case", "drop", "other", "space", "prefix"])
            new = {"append": base + "x", "case": base.swapcase(), "drop": base[:-1], "other": "not-the-passphrase",
                   "space": base + " ", "prefix": " " + base}[c]
            if new and new != right:
                return new
        return "not-the-passphrase"

    # ---- file machine
    def file_case(self, case, force_root=None, legacy=None):
        """legacy = cipher name: the sealed file is a traditional encrypted PEM written by the harness
        (abstractly a `bundled` source: paramiko only loads it)"""
        ktype, target, umask, wpass, lpass, route = case
        rnd, pool = self.rnd, self.pool
        cls = K.key_class(ktype)
        import paramiko
        self.n += 1
        d = self.dir / ("f%d" % self.n)
        d.mkdir()
        path = str(d / "id_key")
        sio = None
        wsecret = None
        if target == "bundled" and legacy:
            root = force_root
            wsecret = self.passphrase(rnd.choice(["ascii", "unicode", "long"]))
            with open(path, "w") as f:
                f.write(K.legacy_pem(root.priv, legacy, wsecret, os.urandom(8 if legacy.startswith("DES") else 16)))
            wres, origin = "ok", root.origin + "/harness-sealed " + legacy
            ref = pool.obtain(root, "generated", 0)[0]
            created, before = False, True
        elif target == "bundled":
            enc = wpass
            roots = [r for r in pool.bundled[ktype] if (r.password is not None) == (enc == "ascii")]
            root = rnd.choice(roots)
            path, wsecret, wres, origin = root.path, root.password, "ok", root.origin
            if root.priv is not None:
                ref = pool.obtain(root, "generated", 0)[0]
            else:       # Ed25519: the reference is the public key as `cryptography` reads it from the same file
                import base64
                ref = cls(data=base64.b64decode(root.pub_id.split()[1]))
            created, before = False, True
        else:
            unis = pool.universes[ktype]
            root = force_root or unis[rnd.randrange(len(unis))][0]
            ref, origin = self.get(root, rnd.choice(["generated", "file_pem", "file_openssh"]), rnd.randrange(12))
            wsecret = self.passphrase(wpass)
            real = path
            if target == "dangling_link":
                real = str(d / "real_target")
                os.symlink(real, path)
            elif target.startswith("exists_"):
                with open(path, "w") as f:
                    f.write("old content\n" * 50)
                os.chmod(path, int(target[-4:], 8))
            before = os.path.exists(real)
            old = os.umask(int(umask, 8))
            try:
                if target == "file_obj":
                    sio = io.StringIO()
                    ref.write_private_key(sio, password=wsecret)
                else:
                    ref.write_private_key_file(path, password=wsecret)
                wres = "ok"
            except Exception as e:
                wres = type(e).__name__
            finally:
                os.umask(old)
        if target == "file_obj":
            exists, created, mode = False, False, []
        else:
            exists = os.path.exists(path)
            created = exists and not before
            mode = mode_tokens(os.stat(path).st_mode) if exists else []
        # load
        if lpass == "none":
            lsecret = None
        elif lpass == wpass:
            lsecret = wsecret
        elif lpass == "wrong":
            lsecret = self.wrong(wsecret)
        else:
            lsecret = self.passphrase(lpass)
            if lsecret == wsecret and lsecret:
                lsecret += "~"
        try:
            if sio is not None:
                sio.seek(0)
                loaded = cls.from_private_key(sio, lsecret)
            elif route == "filename":
                loaded = cls(filename=path, password=lsecret) if rnd.random() < 0.5 else \
                    cls.from_private_key_file(path, lsecret)
            elif route == "file_obj":
                with open(path) as f:
                    loaded = cls.from_private_key(f, password=lsecret) if rnd.random() < 0.5 else \
                        cls(file_obj=io.StringIO(f.read()), password=lsecret)
            else:
                loaded = paramiko.PKey.from_path(path, passphrase=lsecret.encode() if lsecret is not None else None)
            lres = "ok"
        except Exception as e:
            loaded, lres = None, type(e).__name__
        lkey = "-"
        if loaded is not None:
            try:
                same = loaded == ref and ref == loaded and loaded.asbytes() == ref.asbytes() and \
                    hash(loaded) == hash(ref) and type(loaded) is cls
                lkey = ("equal_private" if loaded.can_sign() else "equal_public") if same else "different"
                if lkey == "equal_private":       # signing-capable: it does sign, and the original key agrees
                    sig = loaded.sign_ssh_data(b"c36", "rsa-sha2-256" if ktype == "rsa" else None)
                    sig.rewind()
                    pub = cls(data=ref.asbytes())
                    if pub.verify_ssh_sig(b"c36", sig) is not True:
                        lkey = "equal_public"
            except Exception as e:
                lkey = "error:" + type(e).__name__
        rec = dict(kind="file", ktype=ktype, target=target, umask=umask, wpass=wpass, lpass=lpass, route=route,
                   wres=wres, exists=exists, created=created, mode=mode, lres=lres, lkey=lkey)
        self.batch.append(rec)
        info = {"case": rec, "key": origin, "bits": ref.get_bits(), "write_passphrase": wsecret,
                "load_passphrase": lsecret, "path": path if target == "bundled" else None}
        self.info.append(info)
        self.executed.add(("file",) + case)
        self.c.case(key="file|" + "|".join(case) + "|%s|%r|%r|%s" % (origin, wsecret, lsecret, legacy),
                    sample=info if (wpass, lpass) in (("unicode", "wrong"), ("ascii", "ascii")) and Creates(target)
                    and len(self.c.samples) < 3 else None)

    # ---- compare machine
    def obj(self, o, ui, force_k1=None):
        """a real key object for KeyObj(type, mat, kind); ui picks the universe (force_k1: this root is k1)"""
        pool, rnd = self.pool, self.rnd
        t = o["type"]
        if force_k1 is not None and force_k1.type == t:
            k1, k2 = force_k1, pool.universes[t][0][1]
        elif t in ("rsa", "ecdsa256", "ed25519"):      # k1 must be the root that has a bundled certificate
            k1 = pool.bundled[t][0]
            others = [r for r in pool.bundled[t] if r.pub_id != k1.pub_id]
            k2 = others[ui % len(others)] if others else pool.universes[t][0][1]
        else:
            k1, k2 = pool.universes[t][ui % len(pool.universes[t])]
        root = k1 if o["mat"] == "k1" else k2
        kind = o["kind"]
        fileprov = "file_openssh" if t == "ed25519" else rnd.choice(["file_pem", "file_openssh"])
        if kind == "generated":
            return pool.obtain(root, "generated", 0)
        if kind == "loaded":
            return self.get(root, fileprov, rnd.randrange(12))
        if kind == "public":
            ways = pool.ways(root, "public_bytes")
            i = rnd.choice([i for i, w in enumerate(ways) if w != "cert_blob"])
            try:
                return pool.obtain(root, "public_bytes", i)
            except Machinery as e:       # the public encoding of an existing key does not parse: an observation
                return None, "%s/public_bytes/%s: %s" % (root.origin, ways[i], e)
        if kind in ("loaded_cert", "public_cert", "loaded_cert_b", "public_cert_b"):
            which = "B" if kind.endswith("_b") else "A"
            ck = (kind, fileprov if kind.startswith("loaded") else "-")
            if ck not in root.cache:
                import paramiko
                cls = K.key_class(t)
                ckc = ("cert", which)
                if ckc not in root.cache:      # (source handed to load_certificate, wire blob, description)
                    if which == "A" and root.cert:
                        root.cache[ckc] = (root.cert, paramiko.pkey.PublicBlob.from_file(root.cert).key_blob,
                                           "bundled certificate")
                    else:
                        line, blob = K.synth_cert(pool.base(root), 1 if which == "A" else 2, "cert-" + which)
                        root.cache[ckc] = (line, blob, "synthesised certificate " + which)
                src, blob, what = root.cache[ckc]
                try:
                    cls(data=blob)
                except Exception as e:       # certificate around this key's public encoding does not parse
                    return None, "%s/%s: %s: %s" % (root.origin, what, type(e).__name__, e)
                if kind.startswith("loaded"):
                    if root.path:
                        k = cls(filename=root.path, password=root.password)
                    else:
                        try:
                            k = pool._build(root, fileprov, "filename")
                        except K.PoolLoadFailure as e:
                            return None, "%s: %s" % (root.origin, e)
                    k.load_certificate(src)
                    how = "%s/%s+load_certificate(%s)" % (root.origin, fileprov, what)
                else:
                    k = cls(data=blob)
                    how = "%s/parsed from %s blob" % (root.origin, what)
                if k.public_blob is None or k.public_blob.key_blob != blob:
                    raise Machinery("certificate not attached (%s)" % how)
                root.cache[ck] = (k, how)
            return root.cache[ck]
        raise Machinery("kind " + kind)

    def cmp_case(self, a, b, force_k1=None):
        ui = self.rnd.randrange(6)
        (A, ahow), (B, bhow) = self.obj(a, ui, force_k1), self.obj(b, ui, force_k1)
        err = "-"
        eq = eq_rev = heq = fpeq = beq = rt = False
        ne = True
        try:
            if A is None or B is None:
                raise ValueError("public encoding does not parse back")
            # "a key's public encoding parses back into an equal key with the same fingerprint", for both operands
            rt = True
            for X in (A, B):
                Y = type(X)(data=X.asbytes())
                rt = rt and (Y == X) is True and Y.fingerprint == X.fingerprint and Y.asbytes() == X.asbytes() \
                    and hash(Y) == hash(X)
            eq, eq_rev, ne = (A == B) is True, (B == A) is True, (A != B) is True
            heq = hash(A) == hash(B)
            fpeq = A.fingerprint == B.fingerprint and A.get_fingerprint() == B.get_fingerprint()
            beq = A.asbytes() == B.asbytes() and bytes(A) == bytes(B) and A.get_base64() == B.get_base64()
        except Exception as e:
            err = type(e).__name__
        rec = dict(kind="cmp", a=a, b=b, eq=eq, eq_rev=eq_rev, ne=ne, heq=heq, fpeq=fpeq, beq=beq, rt=rt, err=err)
        self.batch.append(rec)
        info = {"case": rec, "a": ahow, "b": bhow, "a_public": A.asbytes().hex() if A is not None else None}
        self.info.append(info)
        key = ("cmp", a["type"], a["mat"], a["kind"], b["type"], b["mat"], b["kind"])
        self.executed.add(key)
        self.c.case(key="|".join(key) + "|" + ahow + "|" + bhow,
                    sample=info if a["kind"] == "loaded_cert" and b["kind"] in ("public", "public_cert_b") and a["mat"] == b["mat"]
                    and a["type"] == b["type"] and len(self.c.samples) < 5 else None)


def Creates(target):
    return target in ("absent", "dangling_link")


def describe_factory(run_):
    def describe(tid, clause, row):
        info = run_.info[tid - 1]
        r = info["case"]
        if r["kind"] == "file":
            sig = {"P_new_file_not_private": r["target"],
                   "P_write_failed": "%s:%s:%s" % (r["ktype"], r["wpass"], r["wres"]),
                   "P_roundtrip_failed": "%s:%s:%s" % (K.family(r["ktype"]), r["route"], r["lres"]),
                   "P_loaded_without_passphrase": "%s:%s:load=%s" % (K.family(r["ktype"]), r["route"],
                                                                     "none" if r["lpass"] == "none" else "wrong"),
                   "P_loaded_other_key": "%s:%s:%s" % (r["ktype"], r["route"], r["lkey"]),
                   "C_load_answer_outside_model": "%s:%s:%s:%s" % (r["route"], "sealed" if r["wpass"] not in ("none", "empty") else r["wpass"], r["lpass"], r["lres"]),
                   }.get(clause, "%s:%s" % (r["ktype"], r["target"]))
            what = ("%s key (%s, %d bits) written to target=%s under umask %s with passphrase %r [%s], file mode %s, "
                    "created=%s; loaded via %s with passphrase %r -> %s, loaded key: %s; clause %s fails" % (
                        r["ktype"], info["key"], info["bits"], r["target"], r["umask"], info["write_passphrase"],
                        r["wres"], "".join(r["mode"]) or "-", r["created"], r["route"], info["load_passphrase"],
                        r["lres"], r["lkey"], clause))
        else:
            a, b = r["a"], r["b"]
            rel = "same" if (a["type"], a["mat"]) == (b["type"], b["mat"]) else "different"
            sig = "%s:%s" % (K.family(a["type"]) if rel == "same" else "%s~%s" % tuple(sorted((K.family(a["type"]), K.family(b["type"])))), rel)
            what = ("key objects %s (%s) and %s (%s) hold %s public material: ==:%s reversed:%s !=:%s hash equal:%s "
                    "fingerprint equal:%s bytes equal:%s error:%s; clause %s fails" % (
                        a, info["a"], b, info["b"], rel, r["eq"], r["eq_rev"], r["ne"], r["heq"], r["fpeq"], r["beq"],
                        r["err"], clause))
        return clause + ":" + sig, what, info
    return describe


def run(c):
    replay = getattr(c, "replay_file", None)
    if replay:
        # bin/check C36 --replay <file>: the recorded abstract case again (fresh concrete keys), 5 times
        import json
        rec = json.load(open(replay))["replay"]["case"]
        files = [(rec["ktype"], rec["target"], rec["umask"], rec["wpass"], rec["lpass"], rec["route"])] \
            if rec["kind"] == "file" else []
        cmps = [["CMP", rec["a"], rec["b"], None]] if rec["kind"] == "cmp" else []
        reps_f = reps_c = 5
    else:
        # ---- M: the property on the model, mutations as sensitivity runs
        r = c.mc_holds("KeyIO", cfg_text(constants={"Defects": set()}, invariants=P_INVS + C_INVS + ["Emit"]),
                       name="as-stated (Defects = {})", workers=1)
        files = sorted({tuple(x[1:7]) for x in r.printed("FILE")})
        cmps = r.printed("CMP")
        if not files or not cmps or not any(x[3] for x in cmps) or all(x[3] for x in cmps):
            raise Machinery("vacuous model: %d file cases, %d comparisons" % (len(files), len(cmps)))
        # quick: one toggle, rotating with the seed; thorough: all seven
        for d, inv in ([SENS[c.seed % len(SENS)]] if c.quick else SENS):
            c.mc("KeyIO", cfg_text(constants={"Defects": {d}}, invariants=P_INVS), expect=inv, name="sensitivity " + d)
        reps_f, reps_c = (1, 1) if c.quick else (6, 12)

    # ---- RP: every abstract case on the real code
    run_ = Runner(c)
    for _ in range(reps_f):
        for case in files:
            run_.file_case(case)
    for _ in range(reps_c):
        for _, a, b, _eq in cmps:
            run_.cmp_case(a, b)
    # RSA-1024 keys whose sealed DER body does / does not need a full padding block: every passphrase relation and
    # loader route, written by paramiko (AES-256-CBC; to a path and to a file object) and sealed by the harness
    # with the two older PEM ciphers paramiko reads (AES-128-CBC, DES-EDE3-CBC)
    if not replay:
        for root in run_.by_alignment.values():
            for case in files:
                ktype, target, umask, wpass, lpass, route = case
                if ktype != "rsa" or wpass in ("none", "empty") or umask != "022":
                    continue
                if target in ("absent", "file_obj"):
                    run_.file_case(case, force_root=root)
                elif target == "bundled":
                    for cipher in ("AES-128-CBC", "DES-EDE3-CBC"):
                        run_.file_case(case, force_root=root, legacy=cipher)
    # ECDSA keys with short coordinates (fixed scalars): every same-key pair of kinds, every run
    if not replay:
        kinds = sorted({a["kind"] for _, a, _b, _e in cmps if a["type"] == "ecdsa256" and a["mat"] == "k1"})
        for t, roots in sorted(run_.pool.short_roots.items()):
            for root in roots:
                for ka in kinds:
                    for kb in kinds:
                        run_.cmp_case({"type": t, "mat": "k1", "kind": ka}, {"type": t, "mat": "k1", "kind": kb},
                                      force_k1=root)
    want = {("file",) + f for f in files} | {("cmp", a["type"], a["mat"], a["kind"], b["type"], b["mat"], b["kind"])
                                            for _, a, b, _ in cmps}
    if want - run_.executed:
        raise Machinery("%d abstract cases not executed" % len(want - run_.executed))

    # ---- the trace spec decides every observation
    describe = describe_factory(run_)
    chunk = 30000
    for off in range(0, len(run_.batch), chunk):
        part = run_.batch[off:off + chunk]
        # (one JSON batch holds both record kinds; give both the same fields so TLC sees one record shape)
        res, _ = c.trace("KeyIO_Trace", part, cfg_text(spec="TSpec", constants={"Defects": set()}, invariants=["Report"]),
                         timeout=1200)
        if len(res["DONE"]) != len(part):
            raise Machinery("trace validation consumed %d of %d records" % (len(res["DONE"]), len(part)))
        for row in res["VERDICT"]:
            if any(str(x).startswith("X_") for x in row[-1]):
                raise Machinery("driver produced a record that is not a case of the spec: %s %s" % (row[-1], part[row[1] - 1]))
        c.verdicts([[row[0], row[1] + off] + row[2:] for row in res["VERDICT"]], describe)
        c.traces += len(part)
    c.rule = ("abstract cases = TLC-enumerated terminal states of KeyIO.tla: %d file life cycles (key type x target "
              "state x umask x write passphrase x load passphrase x loader route, incl. bundled key files) and %d "
              "ordered pairs of key objects (type x material x kind); each executed %d / %d times with seeded concrete "
              "keys (RSA %s bits, ECDSA P-256/384/521, bundled Ed25519), passphrases and API variants; distinct = "
              "distinct (abstract case, concrete key origin, passphrases)" % (
                  len(files), len(cmps), reps_f, reps_c, "1024/2048" if c.quick else "1024/2048/3072/4096"))
    c.extra["abstract_cases"] = len(files) + len(cmps)
    c.extra["abstract_exhaustive"] = True
    c.extra["load_results"] = {k: sum(1 for b in run_.batch if b.get("lres") == k)
                               for k in sorted({b["lres"] for b in run_.batch if "lres" in b})}
    c.assumptions = ["symbolic cryptography: a sealed private key opens only with the passphrase it was sealed with",
                     "POSIX permission bits; the process may create files under /verif/.work",
                     "0600 clause asserted for files the call creates only (pre-existing targets keep their mode)"]
