META = {
    "level": "model_checking",
    "technique": "TLA+ model of Transport.run()'s dispatch (Transport.tla: tables, auth gate, fallback branch) model-checked by TLC over every type 0..255 x role x state; every unhandled type number sent by a scripted authenticated peer to a real Transport in both roles; observations (reply, sequence number, liveness, traffic afterwards) validated by TLC against the spec (Transport_Trace.tla)",
    "text": "TLC checks on the dispatch model that every type without a handler is answered with UNIMPLEMENTED(seq) and the session stays up, and UNIMPLEMENTED is never answered (toggle NameLookupTotal=FALSE reproduces the unnamed-type crash); the real transport is then sent every one of the 256 type numbers (empty and random payloads, both roles, authenticated session with an open channel) and TLC judges each reaction",
    "note": "trusted: TLC, netsched in-memory link + tap packetizer, the marker message that tells the driver the victim finished handling a probe; a type the live handler tables now handle is skipped (conformance note), never flagged",
}
import random
from harness.core import cfg_text, Machinery
from harness.drivers import transport as tr
from paramiko.common import MSG_NAMES

ALL = "<-AllTypes"


def consts(role, total, types=ALL):
    return {"Role": role, "Named": set(MSG_NAMES), "NameLookupTotal": total, "SeqMod": 3,
            "Types": types, "ChanIds": "@{0, 1}"}


def run(c):
    for role in ("client", "server"):
        c.mc_holds("Transport", cfg_text(constants=consts(role, True), invariants=["C12", "C15"], spec="OneStepSpec"),
                   name="dispatch %s, every state x each of the 256 types" % role)
        c.mc_holds("Transport", cfg_text(constants=consts(role, True, "<-MidTypes"), invariants=["C12", "C15"]),
                   name="dispatch %s, message sequences over 11 representative types" % role)
    c.mc("Transport", cfg_text(constants=consts("server", False, "<-FewTypes"), invariants=["C12"]),
         expect="C12", name="sensitivity: MSG_NAMES[ptype] raises for unnamed types")
    c.mc("Transport", cfg_text(constants=consts("client", True, "<-FewTypes"), invariants=["C12"], spec="SpecQuietInKex"),
         expect="C12", name="sensitivity: fallback branch silent during the end's own key exchange")

    rnd = random.Random(c.seed)
    batch = {"client": [], "server": []}
    for role in ("client", "server"):
        order = list(range(256))
        rnd.shuffle(order)
        payloads = [b""] + [bytes(rnd.getrandbits(8) for _ in range(rnd.choice([1, 4, 17, 300])))
                            for _ in range(1 if c.quick else 4)]
        p = None
        events = []
        for payload in payloads:
            for t in order:
                if p is None or not p.alive():
                    if p is not None:
                        batch[role].append({"events": events})
                        events = []
                        p.close()
                    p = tr.Probe(role, "authed")
                if p.live_handled(t) and t != 3:
                    continue      # has a handler in this role/state: not in C12's domain
                ev = p.send(t, payload)
                if ev["seq"] < 0:
                    raise Machinery("probe type %d never reached the victim" % t)
                events.append(ev)
                c.case(key=(role, t, len(payload) > 0),
                       sample=ev if t in (3, 200) and not payload else None)
        batch[role].append({"events": events})
        p.close()
        # sequence numbers at the top of the 32-bit range (the reply must carry them as a plain uint32) and across the wrap
        p = tr.Probe(role, "authed")
        for base in (0x7FFFFFFE, 0xFEFFFFFE, 0xFFFFFFFC):
            p.set_seqno(base)
            for t in rnd.sample([t for t in range(256) if not p.live_handled(t)], 5):
                if not p.alive():
                    p.close()
                    p = tr.Probe(role, "authed")
                    p.set_seqno(base)
                ev = p.send(t, b"")
                events_hi = batch[role][-1]["events"]
                events_hi.append(ev)
                c.case(key=(role, "seq>=%x" % base, t), sample=ev if base == 0xFEFFFFFE and t % 2 == 0 else None)
        p.close()
        # the same while the victim's own re-exchange is under way (its KEXINIT is out, the peer's has not arrived)
        unh = [t for t in range(256) if t not in (1, 2, 4)]
        rnd.shuffle(unh)
        groups = [unh[i:i + 12] for i in range(0, len(unh), 12)]
        for g in (groups[:2] if c.quick else groups):
            p = tr.Probe(role, "authed")
            g = [t for t in g if not p.live_handled(t)] + [3]
            evs = p.rekey_window(g)
            if not evs or not evs[0]["in_kex"]:
                raise Machinery("driver: victim was not inside its own key exchange during the window probe")
            batch[role].append({"events": evs})
            for ev in evs:
                c.case(key=(role, ev["t"], "rekey-window"), sample=ev if ev["t"] == g[0] else None)
            p.close()
    for role in ("client", "server"):
        res, _ = c.trace("Transport_Trace", batch[role],
                         cfg_text(spec="TSpec", constants=consts(role, True), invariants=["Report"]))
        if len(res["DONE"]) != len(batch[role]):
            raise Machinery("trace validation consumed %d of %d traces" % (len(res["DONE"]), len(batch[role])))
        c.traces += len(batch[role])

        def describe(tid, clause, row, role=role):
            ev = batch[role][tid - 1]["events"][row[2] - 1]
            named = "named" if ev["t"] in MSG_NAMES else "unnamed"
            key = "%s:%s:%s%s" % (clause, role, "type3" if ev["t"] == 3 else named, ":rekey-window" if ev.get("in_kex") else "")
            return key, "%s: %s victim, type %d (%s, payload %d bytes): reply %r, active %r, traffic continues %r" % (
                clause, role, ev["t"], named, ev["plen"], ev["reply"], ev["active"], ev["continues"]), ev
        c.verdicts(res["VERDICT"], describe)
    c.rule = "every type number 0..255 that has no handler in the victim's live tables (plus UNIMPLEMENTED itself), empty and random payloads, client and server victim, authenticated session with an open channel, idle and inside the victim's own re-exchange window; distinct = (role, type, payload class / window)"
    c.extra["exhaustive"] = True
    c.assumptions = ["'the session keeps working' = the transport is active and a byte sent on the open channel arrives afterwards"]
