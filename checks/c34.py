META = {
    "level": "model_checking",
    "technique": "TLA+ path-walk state machine (Canonicalize.tla) model-checked by TLC; every bounded path emitted by TLC replayed on SFTPServerInterface.canonicalize; random long paths validated against the spec by TLC",
    "text": "TLC enumerates every component sequence up to the bound, checks the walk never leaves the root and has no dot components, and emits each (path, canonical form); each emitted path is rendered (relative and absolute) and run through the real canonicalize(); random longer paths with dotted names are recorded and checked by the trace spec",
    "note": "trusted: TLC, the renderer that joins components with '/', os.path of the running CPython; the model's alphabet is 2 names + '', '.', '..'",
}
import random
from harness.core import cfg_text, Machinery


def render(comps, absolute):
    return ("/" if absolute else "") + "/".join(comps)


def observe(si, text):
    out = si.canonicalize(text)
    return {"abs": out.startswith("/"), "out": [x for x in out.split("/") if x != ""], "raw": out}


def run(c):
    from paramiko.sftp_si import SFTPServerInterface
    si = SFTPServerInterface.__new__(SFTPServerInterface)
    maxlen = 5 if c.quick else 7
    consts = {"Names": {"a", "b"}, "MaxLen": maxlen}
    # M + generation: exhaustive walk, invariants, one CASE per reachable state
    r = c.mc_holds("Canonicalize", cfg_text(constants=consts, invariants=["InsideRoot", "FoldAgrees", "Emit"]),
                   name="walk", workers=1)
    cases = r.printed("CASE")
    if len(cases) != r.distinct:
        raise Machinery("expected one CASE per state: %d vs %d" % (len(cases), r.distinct))
    # RP: spec -> code
    for _, path, stack in cases:
        for absolute in (False, True):
            text = render(path, absolute)
            o = observe(si, text)
            c.case(key=text, sample={"arg": text, "result": o["raw"], "spec": stack} if len(path) == maxlen else None)
            if not o["abs"]:
                c.violation("P_not_absolute", "canonicalize(%r) = %r is not absolute" % (text, o["raw"]), {"arg": text})
            if any(x in (".", "..") for x in o["out"]):
                c.violation("P_dot_component", "canonicalize(%r) = %r keeps a dot component" % (text, o["raw"]), {"arg": text})
            if o["out"] != stack:
                c.conformance("differs_from_fold", "canonicalize(%r) = %r, spec walk ends at /%s" % (text, o["raw"], "/".join(stack)), {"arg": text})
    c.traces += len(cases)
    # TV: code -> spec, longer random paths with odd names
    rnd = random.Random(c.seed)
    names = ["a", "b", "...", "..a", "a..", ".a", "a.b", "~", " ", "c d"]
    batch = []
    for _ in range(400 if c.quick else 5000):
        n = rnd.randint(0, 24)
        comps = [rnd.choice(["", ".", "..", "..", rnd.choice(names)]) for _ in range(n)]
        text = render(comps, rnd.random() < 0.5)
        o = observe(si, text)
        batch.append({"comps": comps, "abs": o["abs"], "out": o["out"], "arg": text})
        c.case(key=text)
    res, _ = c.trace("Canonicalize_Trace", batch,
                     cfg_text(spec="TSpec", constants=consts, invariants=["Report"]))
    if len(res["DONE"]) != len(batch):
        raise Machinery("trace validation consumed %d of %d records" % (len(res["DONE"]), len(batch)))
    c.traces += len(batch)
    c.verdicts(res["VERDICT"], lambda tid, clause, row: (
        clause, "canonicalize(%r): clause %s fails (result %r)" % (batch[tid - 1]["arg"], clause, batch[tid - 1]["out"]), batch[tid - 1]))
    c.rule = "every component sequence over {'', '.', '..', a, b} up to length %d (TLC-enumerated, relative and absolute rendering) + seeded random paths up to 24 components; distinct = distinct argument strings" % maxlen
    c.extra["exhaustive"] = True
    c.assumptions = ["POSIX os.path semantics (sys.platform != win32)"]
