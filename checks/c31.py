META = {
    "level": "model_checking",
    "technique": "TLA+ model of SFTPServer.set_file_attr statement by statement (SetAttr.tla) checked by TLC against the os.chmod/chown/utime/truncate meaning; every (file, attribute set) of the bounded model replayed on the real helper; random attribute changes through SFTPClient (by path), SFTPFile (by handle) and the helper directly on a real client/server pair, each before/after observation judged by TLC",
    "text": "TLC explores the helper's five statements for every small file and every presence combination of permission/owner/time/size fields and checks the result has the local-filesystem meaning (truncate keeps leading bytes, extension pads with zeros, untouched fields stay); each model case is rendered to a real file and run through set_file_attr; seeded random files and attribute changes go through a real SFTPClient/SFTPServer pair by path and by handle; os.stat and file bytes before/after every change are validated by the trace spec",
    "note": "trusted: TLC, os.stat/os.read of the running kernel as the observer, the in-process server interface (a copy of the test-suite stub that delegates to the standard helper); times are whole seconds (all SFTP v3 carries); permission words exclude setuid/setgid when an owner or size change is in the same trace (the kernel clears them for os.chown too)",
}
import json
import os
import random
import re
import time

from harness.core import cfg_text, Machinery
from harness.drivers import files as drv

TRACE_CONSTS = {"Bytes": {0}, "MaxLen": 0, "Perms": {0}, "Ids": {0}, "TimeHi": {0}, "ZeroOnOpen": False,
                "Links": {"none"}, "NoFollowOwnTime": False}
LINK_OWNER, LINK_MTIME = 7, 5 * 65536 + 5      # what a link itself is given (lchown / utime without following)


def limbs(t):
    t = int(t)
    return [t >> 16, t & 0xFFFF]


def unlimbs(p):
    return p[0] * 65536 + p[1]


def observe(path):
    """the served name as os.stat / read see it (links followed) and, when it is a link, the link's own lstat"""
    link = "none"
    lrec = {"luid": 0, "lgid": 0, "lmtime": [0, 0]}
    if os.path.islink(path):
        ls = os.lstat(path)
        lrec = {"luid": ls.st_uid, "lgid": ls.st_gid, "lmtime": limbs(ls.st_mtime_ns // 10 ** 9)}
        link = "link" if os.path.exists(path) else "dangling"
    if link == "dangling":
        return dict({"content": [], "perm": 0, "uid": 0, "gid": 0, "atime": [0, 0], "mtime": [0, 0], "link": link, "failed": False}, **lrec)
    st = os.stat(path)
    fd = os.open(path, os.O_RDONLY | os.O_NOATIME)      # the observer must not move atime itself
    try:
        data = b""
        while True:
            blk = os.read(fd, 1 << 20)
            if not blk:
                break
            data += blk
    finally:
        os.close(fd)
    if os.stat(path).st_atime_ns != st.st_atime_ns:
        raise Machinery("reading the served file moved its atime (O_NOATIME not honoured)")
    return dict({"content": list(data), "perm": st.st_mode & 0o7777, "uid": st.st_uid, "gid": st.st_gid,
                 "atime": limbs(st.st_atime_ns // 10 ** 9), "mtime": limbs(st.st_mtime_ns // 10 ** 9), "link": link, "failed": False}, **lrec)


def make_file(path, content, perm, uid, gid, atime, mtime, link="none"):
    """link = "link": `path` is a symbolic link to the file (path + ".t"); "dangling": a link to nothing"""
    for q in (path, path + ".t"):
        if os.path.lexists(q):
            os.remove(q)
    real = path if link == "none" else path + ".t"
    if link != "dangling":
        with open(real, "wb") as f:
            f.write(bytes(content))
        os.chown(real, uid, gid)
        os.chmod(real, perm)
        os.utime(real, (atime, mtime))
    if link != "none":
        os.symlink(os.path.basename(real), path)
        os.lchown(path, LINK_OWNER, LINK_OWNER)
        os.utime(path, (LINK_MTIME, LINK_MTIME), follow_symlinks=False)


def empty_attr():
    return {"has_perm": False, "perm": 0, "has_own": False, "uid": 0, "gid": 0, "has_time": False,
            "atime": [0, 0], "mtime": [0, 0], "time_now": False, "now_lo": [0, 0], "now_hi": [0, 0],
            "has_size": False, "size": 0}


def to_sftp_attr(a):
    from paramiko import SFTPAttributes
    at = SFTPAttributes()
    if a["has_perm"]:
        at.st_mode = a["perm"]
    if a["has_own"]:
        at.st_uid, at.st_gid = a["uid"], a["gid"]
    if a["has_time"]:
        at.st_atime, at.st_mtime = unlimbs(a["atime"]), unlimbs(a["mtime"])
    if a["has_size"]:
        at.st_size = a["size"]
    at._flags = ((at.FLAG_PERMISSIONS if a["has_perm"] else 0) | (at.FLAG_UIDGID if a["has_own"] else 0)
                 | (at.FLAG_AMTIME if a["has_time"] else 0) | (at.FLAG_SIZE if a["has_size"] else 0))
    return at


def apply_op(route, target, a, path):
    """run one attribute change on the real code; target = SFTPClient (path route), SFTPFile (handle route)"""
    from paramiko import SFTPServer
    if route == "direct":
        return SFTPServer.set_file_attr(path, to_sftp_attr(a))
    if route == "env":          # the reference itself: the os.* call the attribute names, behind the server's back
        if a["has_perm"]:
            os.chmod(path, a["perm"])
        if a["has_own"]:
            os.chown(path, a["uid"], a["gid"])
        if a["has_time"]:
            os.utime(path, (unlimbs(a["atime"]), unlimbs(a["mtime"])))
        if a["has_size"]:
            os.truncate(path, a["size"])
        return None
    args = (os.path.basename(path),) if route == "path" else ()
    n = sum(a[k] for k in ("has_perm", "has_own", "has_time", "has_size"))
    if n != 1:
        raise Machinery("the %s route changes one field per call" % route)
    if a["has_perm"]:
        return target.chmod(*args, a["perm"])
    if a["has_own"]:
        return target.chown(*args, a["uid"], a["gid"])
    if a["has_time"]:
        return target.utime(*args, None if a["time_now"] else (unlimbs(a["atime"]), unlimbs(a["mtime"])))
    return target.truncate(*args, a["size"])


def random_attr(rnd, route, cur_len, special_bits):
    a = empty_attr()
    kinds = ["perm", "own", "time", "now", "size", "size", "size"]
    if route == "direct":
        pick = set(rnd.sample(["perm", "own", "time", "size"], rnd.randint(1, 4)))
    else:
        pick = {rnd.choice(kinds)}
    if "perm" in pick:
        a["has_perm"] = True
        a["perm"] = rnd.choice([0, 0o400, 0o600, 0o644, 0o755, 0o777, 0o1777, rnd.randrange(0o2000)])
        if special_bits:
            a["perm"] |= rnd.choice([0, 0o4000, 0o2000, 0o6000])
    if "own" in pick:
        a["has_own"] = True
        a["uid"], a["gid"] = rnd.choice([0, 1, 1000, 65534, rnd.randrange(1 << 20)]), rnd.choice([0, 5, 1000, rnd.randrange(1 << 20)])
    if "time" in pick:
        a["has_time"] = True
        a["atime"] = limbs(rnd.choice([0, 1, 86400, 2 ** 31 - 1, 2 ** 31, 2 ** 32 - 1, rnd.randrange(2 ** 32)]))
        a["mtime"] = limbs(rnd.choice([0, 1, 10 ** 9, 2 ** 31 - 1, 2 ** 31, 2 ** 32 - 1, rnd.randrange(2 ** 32)]))
    if "now" in pick:
        a["has_time"] = a["time_now"] = True
    if "size" in pick:
        a["has_size"] = True
        a["size"] = rnd.choice([0, max(0, cur_len - 1), cur_len, cur_len + 1, rnd.randint(0, cur_len), rnd.randint(0, cur_len),
                                cur_len + rnd.randint(1, 40), rnd.randint(0, 2 * cur_len + 8)])
    return a


def run_step(route, target, a, path):
    before = observe(path)
    if a["time_now"]:
        a["now_lo"] = limbs(time.time())
    if route == "direct":                      # a plain function call on local files: nothing to wait for
        try:
            kind, val = "ok", apply_op(route, target, a, path)
        except Exception as e:
            kind, val = "exc", e
    else:
        kind, val = drv.call_with_watchdog(lambda: apply_op(route, target, a, path), 30.0)
    if kind == "hang":
        raise Machinery("attribute change did not return within 30 s (route %s)" % route)
    if a["time_now"]:
        a["now_hi"] = limbs(time.time())
    if kind == "exc" and isinstance(val, Machinery):
        raise val
    after = observe(path)
    after["failed"] = kind == "exc"
    return {"before": before, "attr": a, "after": after, "raised": kind == "exc", "kind": "attr", "route": route,
            "exc": repr(val) if kind == "exc" else ""}


def write_step(path, fh, rnd):
    """a mutation between attribute changes: overwrite the first byte (through the open handle when there is a
    writable one, else directly); moves mtime to the clock"""
    before = observe(path)
    if fh is not None:
        fh.seek(0)
        fh.write(b"\x03")
        fh.flush()
    else:
        fd = os.open(path, os.O_WRONLY)
        try:
            os.write(fd, b"\x03")
        finally:
            os.close(fd)
    return {"before": before, "attr": empty_attr(), "after": observe(path), "raised": False, "kind": "write", "route": "env", "exc": ""}


def session_steps(hist):
    """SetAttr_Session's <<route, kind, v1, v2>> tuples -> (route, attr | None)"""
    out = []
    for route, kind, v1, v2 in hist:
        a = empty_attr()
        if kind == 1:
            a["has_perm"], a["perm"] = True, v1
        elif kind == 2:
            a["has_own"], a["uid"], a["gid"] = True, v1, v2
        elif kind == 3:
            a["has_time"], a["atime"], a["mtime"] = True, [v1, 7], [v2, 7]
        elif kind == 4:
            a["has_size"], a["size"] = True, v1
        out.append(("handle" if route == 0 else "env", a if kind != 5 else None))
    return out


_sess = re.compile(r'<<\s*"SESSION"\s*,([\s\d,<>\-]*)>>')


def run(c):
    if os.geteuid() != 0:
        raise Machinery("C31's driver sets arbitrary owners and needs root in this sandbox")
    root = c.work / "served"
    root.mkdir(parents=True, exist_ok=True)
    quick = c.quick
    consts = {"Bytes": {1, 2}, "MaxLen": 2 if quick else 3, "Perms": {0o600, 0o755}, "Ids": {0, 4321},
              "TimeHi": {1, 40000}, "Links": {"none", "link", "dangling"}, "NoFollowOwnTime": False}
    # ---- M: the helper as written in 4.0.0 (truncating open) breaks "keeps leading bytes" on the model ...
    c.mc("SetAttr", cfg_text(constants=dict(consts, ZeroOnOpen=True, Links={"none"}), invariants=["KeepsLeadingBytes"]),
         expect="KeepsLeadingBytes", name="truncating-open")
    # seeded defect: chown / utime that do not follow a symbolic link break the meaning when the served name is one
    c.mc("SetAttr", cfg_text(constants=dict(consts, ZeroOnOpen=False, NoFollowOwnTime=True), invariants=["LocalMeaning"]),
         expect="LocalMeaning", name="seeded-nofollow-chown-utime")
    # ... with a non-truncating open it has the local meaning for every file and attribute set of the bound
    r = c.mc_holds("SetAttr", cfg_text(constants=dict(consts, ZeroOnOpen=False),
                                       invariants=["LocalMeaning", "KeepsLeadingBytes", "PadsWithZeros", "SizeSet", "Ordered", "StepsCompose", "Emit"]),
                   name="local-meaning", workers=1)
    cases = r.printed("CASE")
    if len(cases) < 1000:
        raise Machinery("SetAttr emitted only %d cases" % len(cases))

    # ---- RP: every model case on the real helper, judged by the trace spec
    batch = []
    for i, (_, f0, a, f1) in enumerate(cases):
        p = str(root / ("rp%d" % (i % 64)))
        make_file(p, f0["content"], f0["perm"], f0["uid"], f0["gid"], unlimbs(f0["atime"]), unlimbs(f0["mtime"]), f0["link"])
        step = run_step("direct", None, dict(a), p)
        step["model_after"] = f1
        batch.append({"route": "direct", "steps": [step]})
        c.case(key=("rp", f0["link"], tuple(f0["content"]), f0["perm"], a["has_perm"], a["perm"], a["has_own"], a["uid"], a["gid"],
                    a["has_time"], tuple(a["atime"]), tuple(a["mtime"]), a["has_size"], a["size"]),
               sample={"file": f0, "attr": a, "after": step["after"]} if i == len(cases) // 2 else None)
        # drift between the model's final file and the code's (not a clause by itself: the clauses are judged below)
        got = step["after"]
        if f0["link"] != "dangling" and (got["content"] != f1["content"] or got["perm"] != f1["perm"] or (got["uid"], got["gid"]) != (f1["uid"], f1["gid"])):
            c.conformance("differs_from_model:" + "+".join(k for k in ("perm", "own", "time", "size") if a["has_" + k]),
                          "set_file_attr result differs from SetAttr's final state for attr %r on %r: %r" % (a, f0, got))
    n_rp = len(batch)

    # ---- M: sequences on one open handle with other mutations in between (SetAttr_Session): every handle step means
    # the one os.* call it names; a per-handle attribute block that accumulates fields (seeded defect) must be rejected
    sconsts = dict(consts, MaxLen=2, ZeroOnOpen=False, MaxSteps=3, Links={"none"})
    c.mc("SetAttr_Session", cfg_text(spec="SSpec", constants=dict(sconsts, SharedBlock=True), invariants=["SessionMeaning"]),
         expect="SessionMeaning", name="seeded-shared-attribute-block")
    r = c.mc_holds("SetAttr_Session", cfg_text(spec="SSpec", constants=dict(sconsts, SharedBlock=False),
                                               invariants=["SessionMeaning", "EmitSession"]), name="sessions", workers=1)
    sessions = [json.loads(m.group(1).replace("<<", "[").replace(">>", "]")) for m in _sess.finditer(r.out)]
    if len(sessions) != r.out.count('"SESSION"') or len(sessions) < 1000:
        raise Machinery("parsed %d of %d emitted sessions" % (len(sessions), r.out.count('"SESSION"')))
    rnd = random.Random(c.seed)
    pair = drv.SftpPair(root)
    try:
        # ---- RP: the model's sessions on a real open handle (a seeded sample in the quick tier)
        chosen = sessions if not quick else rnd.sample(sessions, 600)
        for i, hist in enumerate(chosen):
            name = "se%d" % (i % 32)
            p = str(root / name)
            make_file(p, [1, 2], 0o600, 0, 0, 9 * 65536 + 9, 9 * 65536 + 8)
            fh = pair.client.open(name, "r+", 0)
            steps = []
            for route, a in session_steps(hist):
                steps.append(write_step(p, fh, rnd) if a is None else run_step(route, fh if route == "handle" else None, a, p))
            fh.close()
            batch.append({"route": "handle", "steps": steps})
            c.case(key=("session", tuple(tuple(x) for x in hist)),
                   sample={"session": hist, "after": steps[-1]["after"]} if i == 7 else None, n=len(steps))
        n_sessions = len(chosen)

        # ---- TV: random files, three routes, with other mutations of the same file between the changes
        ntr = 150 if quick else 2500
        for t in range(ntr):
            route = ("direct", "path", "handle")[t % 3]
            name = "tv%d" % (t % 32)
            p = str(root / name)
            n = rnd.choice([0, 1, 2, 7, rnd.randint(0, 40), rnd.randint(0, 300), rnd.randint(0, 600)])
            data = bytes(rnd.choice([rnd.randrange(1, 256), rnd.randrange(1, 256), 10]) for _ in range(n))
            special = rnd.random() < 0.15       # setuid/setgid words only in traces without owner/size changes
            # the served name is the file itself, a symbolic link to it, or (not by handle: it cannot be opened) a dangling link
            link = rnd.choice(["none", "none", "none", "link", "link", "dangling" if route != "handle" else "link"])
            make_file(p, data, rnd.choice([0o644, 0o600, 0o755]), rnd.choice([0, 1000]), rnd.choice([0, 1000]),
                      rnd.randrange(2 ** 31), rnd.randrange(2 ** 31), link)
            target, fh, hmode = None, None, ""
            if route == "path":
                target = pair.client
            elif route == "handle":
                hmode = rnd.choice(["r", "r+", "r+"])
                fh = target = pair.client.open(name, hmode, rnd.choice([-1, 0, 1, 512]))
            steps = []
            for _ in range(rnd.randint(1, 6)):
                if steps and link != "dangling" and rnd.random() < 0.5:        # something else touches the file in between
                    if rnd.random() < 0.4:
                        steps.append(write_step(p, fh if hmode == "r+" and rnd.random() < 0.6 else None, rnd))
                    else:
                        while True:
                            b = random_attr(rnd, "path", os.path.getsize(p), False)
                            if not b["time_now"] and not (special and (b["has_own"] or b["has_size"])):
                                break
                        steps.append(run_step("env", None, b, p))
                cur = os.path.getsize(p) if link != "dangling" else 0
                while True:
                    a = random_attr(rnd, route, cur, special)
                    # a size change through a handle corresponds to os.truncate(fd): the handle must be open for writing
                    if not (special and (a["has_own"] or a["has_size"])) and not (route == "handle" and hmode == "r" and a["has_size"]):
                        break
                steps.append(run_step(route, target, a, p))
                c.case(key=("tv", route, link, a["has_perm"], a["has_own"], a["has_time"], a["time_now"], a["has_size"],
                            (a["size"] > cur) - (a["size"] < cur) if a["has_size"] else 9, min(cur, 3)))
            if fh is not None:
                fh.close()
            batch.append({"route": route, "steps": steps})
    finally:
        pair.close()

    res, _ = c.trace("SetAttr_Trace", batch, cfg_text(spec="TSpec", constants=TRACE_CONSTS, invariants=["Report"]))
    if len(res["DONE"]) != len(batch):
        raise Machinery("trace validation consumed %d of %d traces" % (len(res["DONE"]), len(batch)))
    c.traces += len(batch)

    def describe(tid, clause, row):
        _, _, line, _, sclass, _ = row
        s = batch[tid - 1]["steps"][line - 1]
        a = s["attr"]
        route = s.get("route", batch[tid - 1]["route"])
        if route == "env" and clause.startswith("P_"):
            raise Machinery("SetAttr's meaning rejects a plain os.* call (the reference itself): %s on %r -> %r" % (clause, s["before"], s["after"]))
        fields = "+".join(k for k in ("perm", "own", "time", "size") if a["has_" + k])
        b, f = s["before"], s["after"]
        want = {k: a[k] for k in ("perm", "uid", "gid", "atime", "mtime", "size") if a["has_" + {"uid": "own", "gid": "own", "atime": "time", "mtime": "time"}.get(k, k)]}
        served = {"none": "", "link": " (served name is a symbolic link to the file; link itself: owner %d:%d mtime %d -> %d:%d mtime %d)"
                  % (b["luid"], b["lgid"], unlimbs(b["lmtime"]), f["luid"], f["lgid"], unlimbs(f["lmtime"])),
                  "dangling": " (served name is a dangling symbolic link; link itself: owner %d:%d mtime %d -> %d:%d mtime %d; os.* raises here)"
                  % (b["luid"], b["lgid"], unlimbs(b["lmtime"]), f["luid"], f["lgid"], unlimbs(f["lmtime"]))}[b["link"]]
        what = ("attribute change %r%s via %s route: clause %s fails - before: %d bytes %r.. mode %o owner %d:%d times %d/%d; "
                "after: %d bytes %r.. mode %o owner %d:%d times %d/%d%s"
                % (want, (" (%s)" % sclass) if a["has_size"] else "", route, clause,
                   len(b["content"]), b["content"][:8], b["perm"], b["uid"], b["gid"], unlimbs(b["atime"]), unlimbs(b["mtime"]),
                   len(f["content"]), f["content"][:8], f["perm"], f["uid"], f["gid"], unlimbs(f["atime"]), unlimbs(f["mtime"]),
                   (" raised " + s["exc"]) if s["raised"] else "")) + served
        earlier = [{"route": x.get("route"), "kind": x["kind"], "attr": {k: v for k, v in x["attr"].items() if k.startswith("has_") and v}}
                   for x in batch[tid - 1]["steps"][:line - 1]]
        rep = {"route": route, "attr": a, "before": dict(s["before"], content=s["before"]["content"][:64]),
               "after": dict(s["after"], content=s["after"]["content"][:64]), "exc": s["exc"], "earlier_steps_on_this_file": earlier}
        if earlier:
            what += " (step %d of a sequence on one %s)" % (line, "open handle" if batch[tid - 1]["route"] == "handle" else "file")
        return clause, what, rep
    c.verdicts(res["VERDICT"], describe)
    c.rule = ("RP: every (initial file, attribute set) of the bounded model (%d cases: contents over 2 byte values up to %d bytes, "
              "all 16 field-presence combinations, sizes 0..len+1) on SFTPServer.set_file_attr; TV: seeded random files (0-600 bytes) "
              "with 1-6 attribute changes each via helper / SFTPClient by path / SFTPFile by one open handle, with writes and direct os.chmod/"
              "chown/utime/truncate calls on the served file in between; %d of the %d three-step sessions of SetAttr_Session (handle "
              "changes of different kinds interleaved with other mutations) replayed on a real open handle; distinct = (route, fields "
              "present, size class, small-length class) / session" % (n_rp, consts["MaxLen"], n_sessions, len(sessions)))
    c.extra["exhaustive"] = True
    c.assumptions = ["POSIX filesystem, process runs as root (arbitrary chown)", "timestamps are whole seconds below 2^32",
                     "no setuid/setgid permission bits in traces that also change owner or size"]
