META = {
    "level": "model_checking",
    "technique": "symbolic TLA+ model of RFC 4253 7.2 key derivation and of the letter selection in _activate_outbound/_activate_inbound for a client and a server over two key exchanges (KeyDerivation.tla), model-checked by TLC with seeded defects; the real _compute_key run with a recording hash and its hash-call structure checked by TLC; real handshakes for every cipher x MAC pair with logging Transport/Packetizer subclasses, the requested letters, sizes, installed values and their equality across the two peers checked by TLC; values compared with an independent RFC implementation",
    "text": "TLC checks on the model that the keys installed by both roles are exactly the RFC derivation (letters A/C/E client-to-server, B/D/F server-to-client, session id of the first exchange, extension over K1..Ki), that out(client) = in(server) and vice versa, that no key is shared between directions, purposes or exchanges, and that swapping the letters in both roles, extending with the last digest only, overwriting the session id at re-key, keeping the first exchange's hash function for later exchanges, or keeping the cipher engine (hence the first key) across exchanges is noticed; _compute_key is called for every letter, every kex hash (sha1/256/384/512) and lengths 1..512 with a recording hash: TLC checks each hash input is K || H || X || session_id resp. K || H || K1..Ki and the driver compares the bytes with an RFC 4253 7.2 re-implementation; real client/server sessions (every cipher x MAC, rotating kex algorithms, with re-keys to kex methods of another hash family; every installed key compared with the RFC derivation under that exchange's own hash) are logged and TLC checks letters, sizes, cross-peer equality and distinctness; the keys in use are judged on the wire: the first packet each side writes after every key switch (every cipher, two exchanges) is opened by an independent engine built from the RFC-derived key, IV and MAC key of that exchange",
    "note": "trusted: TLC, hashlib, the 20-line RFC 4253 7.2 re-implementation and RFC key-size tables in harness/drivers/packet.py; the cipher key itself is observed as the argument of _get_engine (the engine does not expose it), MAC key and GCM IV as arguments of set_*_cipher",
}
import collections
import hashlib
import random
import time

from harness.core import cfg_text, Machinery
from harness.drivers import packet as P

HASHES = [hashlib.sha1, hashlib.sha256, hashlib.sha384, hashlib.sha512]
KEX = ["curve25519-sha256@libssh.org", "ecdh-sha2-nistp256", "ecdh-sha2-nistp384", "ecdh-sha2-nistp521",
       "diffie-hellman-group14-sha256", "diffie-hellman-group14-sha1", "diffie-hellman-group16-sha512", "diffie-hellman-group1-sha1"]


KEX_HASH = {"curve25519-sha256@libssh.org": "sha256", "ecdh-sha2-nistp256": "sha256", "ecdh-sha2-nistp384": "sha384",
            "ecdh-sha2-nistp521": "sha512", "diffie-hellman-group14-sha256": "sha256", "diffie-hellman-group14-sha1": "sha1",
            "diffie-hellman-group16-sha512": "sha512", "diffie-hellman-group1-sha1": "sha1"}


def rfc_letter(c2s, what):
    return {"iv": "ACE"[0], "key": "C", "mac": "E"}[what] if c2s else {"iv": "B", "key": "D", "mac": "F"}[what]


def first_packet_opens(a, first_sid, socks):
    """the keys IN USE: the first packet this endpoint wrote after the outbound key switch, opened by an engine built
    independently (harness Opener: RFC 4253 7.2 derivation from this exchange's K, H, hash and the session id,
    `cryptography` primitives).  "ok" / "bad" / "none" (nothing was written under these keys, or not recorded)"""
    if not socks or not a.get("wire_at") or a["wire_at"][0] is None:
        return "none"
    chunks = socks[a["role"]].sent_log
    at, seqno = a["wire_at"]
    if at >= len(chunks):
        return "none"
    op = P.Opener((a["cipher"], a["mac"], "none"), (a["K"], a["H"]), first_sid, a["hashf"] or hashlib.sha1, sender_server=a["role"] == "server")
    res = op.open(chunks[at], seqno if seqno >= 0 else 0)
    good = not res.get("error") and 4 <= res.get("padlen", 0) and res.get("message") and (res.get("mac_ok") or seqno < 0)
    return "ok" if good else "bad"


def kex_records(log, intern, socks=None):
    """group the log of one session into one record per key exchange"""
    cur, count, acts = {}, collections.Counter(), {}
    for e in log:
        if e[0] == "act":
            _, pid, d, server_mode, K, H, sid, hashf, cipher, mac = e
            count[(pid, d)] += 1
            a = {"role": "server" if server_mode else "client", "dir": d, "kexno": count[(pid, d)], "K": K, "H": H, "sid": sid,
                 "hashf": hashf, "cipher": cipher, "mac": mac, "reqs": [], "eng": None, "set": None}
            cur[pid] = a
            acts[(a["role"], d, a["kexno"])] = a
        elif e[0] == "ck" and e[1] in cur and e[2] is not None:
            cur[e[1]]["reqs"].append((e[3], e[4], e[5]))
        elif e[0] == "eng" and e[1] in cur:
            cur[e[1]]["eng"] = (e[3], e[4], e[5])
        elif e[0] == "set" and e[1] in cur:
            cur[e[1]]["set"] = (e[3], e[4], e[5])
            cur[e[1]]["wire_at"] = e[6:8] if len(e) > 7 else None
    out = []
    first = acts.get(("client", "out", 1))
    if first is None:
        return out
    first_sid = first["H"]
    for k in sorted({key[2] for key in acts}):
        rec = {"kind": "kex", "kexno": k, "acts": [], "need": {}}
        for (role, d, kk), a in sorted(acts.items()):
            if kk != k:
                continue
            c2s = (role == "client") == (d == "out")
            keylen, ivlen = P.RFC_CIPHER[a["cipher"]]
            aead = "gcm" in a["cipher"]
            need = {"iv": ivlen, "key": keylen, "mac": 0 if aead else P.RFC_MAC_KEY[a["mac"]]}
            rec["need"]["c2s" if c2s else "s2c"] = need
            if a["eng"] is None or a["set"] is None:
                raise Machinery("the log of the %s %s activation of key exchange %d is incomplete" % (role, d, k))
            eng, st = a["eng"], a["set"]
            inst = {"key": eng[1], "iv": st[1] if aead else eng[2], "mac": st[0]}
            let, size, ids, ok = {}, {}, {}, {}
            for w in ("iv", "key", "mac"):
                v = inst[w]
                if v is None:
                    let[w], size[w], ids[w], ok[w] = "-", 0, 0, need[w] == 0
                    continue
                v = bytes(v)
                let[w] = next((L for L, n, val in a["reqs"] if val == v), "?")
                size[w] = len(v)
                ids[w] = intern(v)
                hashf = a["hashf"] or hashlib.sha1
                ok[w] = v == P.rfc_kdf(hashf, a["K"], a["H"], first_sid, rfc_letter(c2s, w), need[w]) if need[w] else True
            rec["acts"].append({"role": role, "dir": d, "let": let, "size": size, "id": ids, "rfc_ok": ok,
                                "wire": first_packet_opens(a, first_sid, socks) if d == "out" else "none"})
            rec.setdefault("meta", {}).setdefault("algos", set()).add("%s/%s" % (a["cipher"], a["mac"]))
            rec["meta"]["hash"] = (a["hashf"] or hashlib.sha1)().name
            rec["meta"]["sid_is_H"] = a["H"] == first_sid
        for side in ("c2s", "s2c"):
            rec["need"].setdefault(side, {"iv": 0, "key": 0, "mac": 0})
        rec["meta"]["algos"] = sorted(rec["meta"]["algos"])
        out.append(rec)
    return out


def keep_bytes(tc, ts):
    tc.sock.sent_log, ts.sock.sent_log = [], []


def both_speak(tc, ts):
    """one packet in each direction under the keys just installed (there may be no other traffic after a re-key)"""
    tc.send_ignore(8)
    ts.send_ignore(8)


def run(c):
    rnd = random.Random(c.seed)
    # ---- M: the model with and without seeded defects, in one exploration
    muts = {"swap", "last", "sid", "oldhash", "engreuse"}
    n = 0
    for hl, iv, key, mac in ((20, 16, 32, 64), (32, 12, 16, 32)) if not c.quick else ((20, 16, 32, 64),):
        r = c.mc_holds("KeyDerivation", cfg_text(constants={"MaxKex": 2, "HLen": hl, "IvLen": iv, "KeyLen": key, "MacLen": mac,
                                                              "Mutations": muts}, invariants=["Holds", "Caught"]),
                       name="digest %d, iv %d, key %d, mac %d; defects %s" % (hl, iv, key, mac, sorted(muts)), workers=1)
        caught = {x[1] for x in r.printed("CAUGHT")}
        if caught != muts:
            raise Machinery("seeded defects not all noticed by the model's properties: %s of %s" % (sorted(caught), sorted(muts)))
        n += 1

    batch, meta = [], []
    # ---- TV (a): the real _compute_key under a recording hash
    lengths = sorted(set(list(range(1, 140)) + [160, 191, 192, 193, 255, 256, 257, 320, 383, 384, 385, 448, 511, 512]
                         + ([] if c.quick else list(range(140, 513)))))
    for hashf in HASHES:
        for letter in "ABCDEF":
            ns = lengths if (not c.quick or letter == "ABCDEF"[(HASHES.index(hashf) + c.seed) % 6]) else rnd.sample(lengths, 25)
            for nb in ns:
                rec = P.compute_key_record(rnd, hashf, letter, nb)
                batch.append({k: rec[k] for k in ("kind", "letter", "n", "hl", "calls", "out_ok", "rfc_ok")})
                meta.append(rec)
                c.case(key=("compute", rec["hash"], letter, nb))
    # edge cases of the mpint encoding of K (sign bit set, leading zero bytes); K = 0 is not a shared secret any key exchange
    # produces and its mpint encoding is C39's subject
    for K in (1, 0x7f, 0x80, 0xff, 0x8000, 2 ** 255, 2 ** 256 - 1, 2 ** 2047, 2 ** 2048 - 1):
        for hashf in (hashlib.sha1, hashlib.sha256):
            rec = P.compute_key_record(rnd, hashf, rnd.choice("ABCDEF"), rnd.choice([16, 64, 100]), K=K)
            batch.append({k: rec[k] for k in ("kind", "letter", "n", "hl", "calls", "out_ok", "rfc_ok")})
            meta.append(rec)
            c.case(key=("compute-K", rec["hash"], K.bit_length()))
    n_compute = len(batch)

    # ---- TV (b): real sessions, every cipher x MAC, rotating kex (hash) algorithms, with a re-key
    T = P._T()
    pairs = [(ci, m) for ci in T._cipher_info for m in T._mac_info]
    kexes = [k for k in KEX if k in T._kex_info]
    interned = {}

    def intern(v):
        return interned.setdefault(v, len(interned) + 1)
    sessions = 0
    def session(cipher, mac, kex, rekeys):
        log = []
        KT, KP = P.kd_classes(log)
        tc, ts = P.connect_pair(client_cls=KT, server_cls=KT, client_kw={"packetizer_class": KP},
                                server_kw={"packetizer_class": KP}, ciphers=[cipher], macs=[mac], kex=[kex], before_start=keep_bytes)
        try:
            want = 4
            used = [kex]
            both_speak(tc, ts)
            for _ in range(rekeys):
                # the next exchange negotiates a kex method of ANOTHER hash family (either side may change its
                # preferences between exchanges): its keys must be derived with ITS hash
                nxt = rnd.choice([k for k in kexes if KEX_HASH[k] != KEX_HASH[used[-1]] and "group16" not in k])
                used.append(nxt)
                for t in (tc, ts):
                    t.get_security_options().kex = (nxt,)
                tc.renegotiate_keys()
                want += 4
                both_speak(tc, ts)
            t_end = time.time() + 10          # the peer may still be switching its inbound keys
            # ("set" is the last thing an activation logs)
            while sum(1 for e in log if e[0] == "set") < want and time.time() < t_end:
                time.sleep(0.002)
        finally:
            tc.close()
            ts.close()
        recs = kex_records(log, intern, {"client": tc.sock, "server": ts.sock})
        if not recs:
            raise Machinery("no key activation logged for %s/%s" % (cipher, mac))
        if len(recs) != len(used):
            raise Machinery("%d key exchanges were run (%s) but %d were logged" % (len(used), used, len(recs)))
        for rec, kx in zip(recs, used):
            if rec["meta"]["hash"] != KEX_HASH[kx]:
                raise Machinery("exchange %d of the session negotiated %s but its kex engine reports hash %s"
                                % (rec["kexno"], kx, rec["meta"]["hash"]))
            rec["meta"]["first_hash"] = KEX_HASH[used[0]]
            rec["meta"]["kex"] = kx
            batch.append({k: rec[k] for k in ("kind", "acts", "need")})
            meta.append(rec)
            c.case(key=("kex", cipher, mac, kx, rec["kexno"]))

    # fixed stratum: every cipher (both AES-GCM ciphers included) through two key exchanges on the same pair of Transports,
    # with a packet in each direction after every key switch - the keys IN USE are judged on those packets
    fixed_macs = ["hmac-sha2-256", "hmac-sha2-512-etm@openssh.com", "hmac-sha1"]
    for j, cipher in enumerate(T._cipher_info):
        session(cipher, fixed_macs[j % 3], "curve25519-sha256@libssh.org" if "curve25519-sha256@libssh.org" in kexes else kexes[0], 1)
        sessions += 1
    for i, (cipher, mac) in enumerate(pairs):
        if c.quick and i % 2 != c.seed % 2 and not cipher.startswith(("3des", "aes128-gcm")):
            continue
        kex = kexes[(i + c.seed) % len(kexes)]
        if kex == "diffie-hellman-group16-sha512" and (c.quick or i % 24 != 6):     # slow: a few sessions only
            kex = "ecdh-sha2-nistp521"
        session(cipher, mac, kex, 0 if (c.quick and i % 3) else (1 if c.quick else 2))
        sessions += 1

    res, _ = c.trace("KeyDerivation_Trace", batch,
                     cfg_text(spec="TSpec", constants={"MaxKex": 2, "HLen": 20, "IvLen": 16, "KeyLen": 32, "MacLen": 64, "Mutations": set()},
                              invariants=["Report"]))
    if len(res["DONE"]) != len(batch):
        raise Machinery("trace validation consumed %d of %d records" % (len(res["DONE"]), len(batch)))
    c.traces += len(batch)

    def describe(tid, clause, row):
        m = meta[tid - 1]
        if m["kind"] == "compute":
            return ("%s:compute:%s" % (clause, m["hash"]),
                    "_compute_key(%r, %d) with %s (K of %d bits): clause %s fails; hash inputs %s, output = digests[:n]: %s, = RFC: %s"
                    % (m["letter"], m["n"], m["hash"], m["kbits"], clause,
                       [[t["t"] + (t["v"] if t["t"] == "X" else str(t["i"]) if t["t"] == "D" else "") for t in call] for call in m["calls"]],
                       m["out_ok"], m["rfc_ok"]), {k: v for k, v in m.items() if k != "calls"})
        acts = [{k: a[k] for k in ("role", "dir", "let", "size", "rfc_ok", "wire")} for a in m["acts"]]
        return ("%s:kex:%s" % (clause, "rekey" if m["kexno"] > 1 else "first"),
                "key exchange %d of a %s session (%s, kex hash %s): clause %s fails; activations %s, needs %s"
                % (m["kexno"], "+".join(m["meta"]["algos"]), m["meta"]["kex"], m["meta"]["hash"], clause, acts, m["need"]),
                {"acts": acts, "need": m["need"], "meta": m["meta"]})
    c.verdicts(res["VERDICT"], describe)
    for m in (meta[3], meta[n_compute - 1], meta[n_compute], meta[-1]):
        c.samples.append({k: v for k, v in m.items() if k not in ("K", "H")} if m["kind"] == "compute" else
                         {"kind": "kex", "kexno": m["kexno"], "meta": m["meta"], "need": m["need"],
                          "acts": [{k: a[k] for k in ("role", "dir", "let", "size")} for a in m["acts"]]})
    rekeys = sum(1 for m in meta if m["kind"] == "kex" and m["kexno"] > 1)
    other_hash = sum(1 for m in meta if m["kind"] == "kex" and m["kexno"] > 1 and m["meta"]["hash"] != m["meta"]["first_hash"])
    if rekeys == 0 or other_hash == 0:
        raise Machinery("no re-key (to a kex method of another hash family) was exercised: %d / %d" % (rekeys, other_hash))
    c.extra["rekeys_to_another_hash"] = other_hash
    wires = [a["wire"] for m in meta if m["kind"] == "kex" for a in m["acts"] if a["dir"] == "out"]
    rekey_wires = [a["wire"] for m in meta if m["kind"] == "kex" and m["kexno"] > 1 for a in m["acts"] if a["dir"] == "out"]
    if rekey_wires.count("ok") + rekey_wires.count("bad") < 2 * len(T._cipher_info):
        raise Machinery("the first packet after a re-key was opened independently only %d times" % (len(rekey_wires) - rekey_wires.count("none")))
    c.extra["first_packets_opened_independently"] = len(wires) - wires.count("none")
    c.extra["of_them_after_a_rekey"] = len(rekey_wires) - rekey_wires.count("none")
    c.extra["compute_key_calls"] = n_compute
    c.extra["sessions"] = sessions
    c.extra["key_exchanges_logged"] = len(batch) - n_compute
    c.extra["rekeys_logged"] = rekeys
    c.rule = ("(a) _compute_key for every letter A-F x kex hash sha1/sha256/sha384/sha512 x lengths %s, random K of 1..4096 bits (+ mpint edge "
              "cases), H, session id; (b) one real client/server session per cipher x MAC pair (%s) with rotating kex algorithm and re-keys that negotiate a kex method of another hash family, "
              "4 activations per exchange.  distinct = distinct (hash, letter, length) / (cipher, mac, kex, exchange number)"
              % ("1..139 + boundary values to 512 (one letter per hash) / 25 sampled (other letters)" if c.quick else "1..512", "half of them, seed-chosen" if c.quick else "all 72"))
    c.assumptions = ["the hash primitive itself (hashlib) is trusted", "K >= 1 (a zero shared secret cannot come out of a key exchange; mpint(0) is C39)", "K, H come from the key exchange (C06-C08)"]
