META = {
    "level": "model_checking",
    "technique": "TLA+ model of the re-key bookkeeping of one endpoint against an arbitrary peer (RekeyCounters.tla: send/receive counters, need_rekey, overflow allowance, counter reset at the key switches, the run loop turning need_rekey into KEXINIT, NeedRekeyException on idle reads) model-checked by TLC incl. liveness under fairness; real two-Transport sessions over an in-memory socket pair with scaled-down REKEY_* limits, tapped through packetizer_class, under send-heavy / receive-heavy / interleaved / idle traffic and against a peer that ignores KEXINIT (silent, or interleaving packets the stalled side answers); every packet (type, bytes on the socket), key switch and read_message exception logged and replayed through the model's counters by TLC",
    "text": "TLC checks for small limits and all interleavings of user sends, transport-thread steps and peer packets: a packet that takes a counter to its limit sets need_rekey, need_rekey leads to our KEXINIT (also when the line is idle), both key switches reset their counters and clear the flag, the connection is dropped no later than the packet that exhausts the overflow allowance, a refusing peer that keeps sending is dropped; three mutated models (no reset, no overflow test, overflow counters cleared by every packet written past the limit) violate these; then real client/server Transports with limits of 25-70 packets / 6-40 KB run traffic patterns with repeated crossings, and TLC replays each endpoint's log through the same counter definitions: a key exchange we start must be owed by the counters (else they did not restart), an owed one must be started and finished, data must arrive intact and complete, a read that exhausts the allowance must raise and the transport must end",
    "note": "trusted: TLC, the in-memory socket pair and the packetizer_class tap in harness/drivers/packet.py, real-time settling (a session is judged after 0.35 s without events, at most 12 s); limits are scaled down from 2^29 through the instance attributes the code reads; where user threads of the observed endpoint send concurrently with its transport thread the log order may differ from the true order by a packet, so the overflow clause gets 2 packets of tolerance there and none when only the transport thread is active",
}
import random
import threading
import time

from harness.core import cfg_text, Machinery
from harness.drivers import packet as P

BIG = 10 ** 8
MODEL = {"RPs": "@{2}", "RBs": "@{4}", "OPs": "@{2}", "OBs": "@{3}", "Lens": "@{1, 2}", "Coops": "@{TRUE, FALSE}", "MaxWire": 1, "Slack": 1,
         "ResetOnSet": True, "CheckOverflow": True, "AskOnce": True}
PROPS = ["AsksAtThreshold", "CountersRestart", "StartsKex", "RefuserDropped"]
KINDS = ["send-heavy", "recv-heavy", "interleaved", "idle", "refuser-passive", "refuser-active", "bytes", "refuser-chatty", "recv-ignore-flood"]


def limits(rnd, kind):
    def coop():
        return {"rp": rnd.randint(25, 70), "rb": rnd.randint(6000, 40000), "op": BIG, "ob": BIG}
    L = {"c": coop(), "s": coop()}
    if kind == "bytes":                 # the byte limit is the one that is hit
        for nm in L:
            L[nm]["rp"] = 5000
            L[nm]["rb"] = rnd.randint(6000, 20000)
    if kind in ("idle", "recv-ignore-flood"):
        L["s"]["rp"], L["s"]["rb"] = 5000, 10 ** 7      # only the client's own counters can ask
    if kind == "recv-ignore-flood":
        L["c"]["rb"] = 10 ** 7                          # ... its packet counter
        L["c"]["op"], L["c"]["ob"] = rnd.randint(15, 25), 10 ** 7   # with a real allowance: a stalled exchange would end the session
    return L


def chatter():
    from paramiko.message import Message
    m = Message()
    m.add_byte(bytes([192]))
    m.add_string(b"ping")
    return m


def burst(S, nm, rnd, n, maxlen=3000):
    for _ in range(n):
        if not S.send(nm, rnd.randint(1, maxlen)):
            return False
    return True


def run_session(rnd, kind):
    """one session; returns {endpoint: trace}"""
    L = limits(rnd, kind)
    refuser = None
    slack = {"c": 2, "s": 2}
    if kind.startswith("refuser"):
        refuser = rnd.choice(["c", "s"])
        e = "s" if refuser == "c" else "c"
        L[refuser] = {"rp": BIG, "rb": BIG, "op": BIG, "ob": BIG}
        L[e]["op"], L[e]["ob"] = rnd.randint(4, 25), rnd.randint(3000, 20000)
        if kind == "refuser-passive":
            slack[e] = 0
    S = P.RekeySession(rnd, L, refuser=refuser)
    for t in (S.tc, S.ts):
        t.sock.settimeout(0.02)      # idle read timeouts come quickly (the socket decides when a read times out)
    if kind in ("send-heavy", "recv-heavy", "bytes"):
        nm = "c" if kind != "recv-heavy" else "s"
        for _ in range(rnd.randint(2, 5)):
            burst(S, nm, rnd, rnd.randint(10, 60))
            if rnd.random() < 0.7:
                S.settle(deadline=6, quiet=0.06, mark=True)
    elif kind == "recv-ignore-flood":
        # the client receives nothing but MSG_IGNORE packets (keep-alive chaff) without a gap, well past its limit plus its
        # (finite) allowance: its run loop dispatches them with `continue` - the limit must be noticed all the same, the
        # exchange started, and the cooperative peer must not be dropped.  The flood is paced by acknowledgement (next packet
        # only once the client has consumed the last one and the server has read everything the client wrote), so the
        # number of packets in flight when the client's KEXINIT goes out is at most 1-2, whatever the machine load.
        def count(side, act):
            return sum(1 for x in S.log if x[0] == side and x[1] == act)
        total = 2 * L["c"]["rp"] + L["c"]["op"] + 40
        for k in range(total):
            if not (S.tc.is_active() and S.ts.is_active()):
                break
            n_before = count("c", "Recv")
            try:
                S.ts.send_ignore(rnd.randint(1, 64))       # blocks while a key exchange is running on the server
            except Exception:
                break
            end = time.time() + 10.0
            while time.time() < end and S.tc.is_active() and (count("c", "Recv") <= n_before or count("s", "Recv") < count("c", "Send")):
                time.sleep(0.0005)
        S.settle(deadline=6, quiet=0.06, mark=True)
    elif kind == "interleaved":
        def side(nm, r):
            for _ in range(r.randint(2, 4)):
                burst(S, nm, r, r.randint(10, 50))
                time.sleep(r.random() * 0.05)
        ths = [threading.Thread(target=side, args=(nm, random.Random(rnd.getrandbits(32))), daemon=True) for nm in ("c", "s")]
        for th in ths:
            th.start()
        for th in ths:
            th.join(60)
    elif kind == "idle":
        # just enough to reach the client's packet limit, then silence: only the idle read can notice
        burst(S, "c", rnd, L["c"]["rp"] + 2, maxlen=40)
        S.settle(deadline=6, quiet=0.1, mark=True)
        burst(S, "c", rnd, L["c"]["rp"] + 2, maxlen=40)
    else:
        e = "s" if refuser == "c" else "c"
        if kind in ("refuser-active", "refuser-chatty"):
            burst(S, e, rnd, L[e]["rp"] + 5, maxlen=60)      # we cross our own limit by sending, then only listen
        # the refuser keeps sending until the other side is gone (or far beyond every allowance)
        cap = L[e]["rp"] + L[e]["op"] + 60
        for _ in range(cap):
            if not S.transport(e).is_active() or not S.send(refuser, rnd.randint(1, 1500)):
                break
            if kind == "refuser-chatty" and rnd.random() < 0.8:
                # a packet the stalled side answers (type 192 is unknown to it: MSG_UNIMPLEMENTED goes out, one of the
                # few things its transport thread still writes while it waits for the peer's KEXINIT)
                try:
                    S.transport(refuser)._send_message(chatter())
                except Exception:
                    break
            if rnd.random() < 0.2:
                time.sleep(0.003)
    tr = S.finish()
    for nm in tr:
        tr[nm]["coop"] = refuser is None
        tr[nm]["slack"] = slack[nm]
        tr[nm]["slackb"] = slack[nm] * 4000
        tr[nm]["kind"] = kind
        tr[nm]["end"] = nm
        tr[nm]["refuser"] = refuser
    return tr


def run(c):
    rnd = random.Random(c.seed)
    # ---- TV sessions run next to the model checking (they mostly wait for socket timeouts)
    nsess = 12 if c.quick else 150
    plan = [KINDS[i % len(KINDS)] for i in range(nsess)]
    rnd.shuffle(plan)
    seeds = [rnd.getrandbits(32) for _ in plan]
    results, errors = [None] * nsess, []
    nxt = iter(range(nsess))
    lock = threading.Lock()

    def worker():
        while True:
            with lock:
                i = next(nxt, None)
            if i is None:
                return
            try:
                results[i] = run_session(random.Random(seeds[i]), plan[i])
            except BaseException as e:     # reported below as a machinery failure
                errors.append("%s session %d: %r" % (plan[i], i, e))
    workers = [threading.Thread(target=worker, daemon=True) for _ in range(3)]
    for w in workers:
        w.start()

    # ---- M
    c.mc_holds("RekeyCounters", cfg_text(spec="FairSpec", constants=MODEL, invariants=["TypeOK", "OverflowTerminates", "AllowanceIsReal"], properties=PROPS),
               name="limits 2 packets / 4 bytes, allowance 2 / 3, both kinds of peer, with liveness")
    if not c.quick:
        c.mc_holds("RekeyCounters", cfg_text(spec="FairSpec", constants=dict(MODEL, RPs="@{3}", RBs="@{5}", OBs="@{4}", MaxWire=2),
                                             invariants=["TypeOK", "OverflowTerminates", "AllowanceIsReal"], properties=PROPS),
                   name="limits 3 packets / 5 bytes, allowance 2 / 4, 2 packets in flight, with liveness", timeout=1500)
    c.mc("RekeyCounters", cfg_text(constants=dict(MODEL, ResetOnSet=False), invariants=["TypeOK"], properties=["CountersRestart"]),
         expect="CountersRestart", name="mutant: set_*_cipher does not reset")
    c.mc("RekeyCounters", cfg_text(constants=dict(MODEL, CheckOverflow=False), invariants=["OverflowTerminates"]),
         expect="OverflowTerminates", name="mutant: no overflow test")
    c.mc("RekeyCounters", cfg_text(constants=dict(MODEL, AskOnce=False), invariants=["AllowanceIsReal"]),
         expect="AllowanceIsReal", name="mutant: every packet written past the limit clears the overflow counters")

    # ---- TV
    for w in workers:
        w.join(900)
    if errors or any(r is None for r in results):
        raise Machinery("session driver failed: %s" % (errors or "timeout"))
    batch, meta = [], []
    for tr in results:
        for nm in ("c", "s"):
            t = tr[nm]
            batch.append({k: t[k] for k in ("rp", "rb", "op", "ob", "coop", "slack", "slackb", "ev")})
            meta.append(t)
    consts = dict(MODEL, RPs="@{1}", RBs="@{1}", OPs="@{1}", OBs="@{1}")
    res, _ = c.trace("RekeyCounters_Trace", batch, cfg_text(spec="TSpec", constants=consts, invariants=["Report"]))
    if len(res["DONE"]) != len(batch):
        raise Machinery("trace validation consumed %d of %d traces" % (len(res["DONE"]), len(batch)))
    c.traces += len(batch)
    kex_by_tid = {d[1]: d[2] for d in res["DONE"]}

    def describe(tid, clause, row):
        m = meta[tid - 1]
        e = m["ev"][row[2] - 1]
        role = "client" if m["end"] == "c" else "server"
        return ("%s:%s:%s" % (clause, m["kind"], "refuser" if m["refuser"] == m["end"] else role),
                "%s scenario, %s endpoint (limits %d packets / %d bytes, allowance %d / %d): clause %s fails at event %d %s; "
                "%d events, alive at the end: %s (%s), data intact: %s, read_message failures: %s"
                % (m["kind"], role, m["rp"], m["rb"], m["op"], m["ob"], clause, row[2], e, len(m["ev"]), m["alive"], m["reason"],
                   m["intact"], m["fails"]),
                {"limits": {k: m[k] for k in ("rp", "rb", "op", "ob")}, "kind": m["kind"], "end": m["end"], "events": m["ev"][-60:]})
    c.verdicts(res["VERDICT"], describe)

    # what the sessions exercised
    rekeys = dropped = idle = 0
    for i, m in enumerate(meta, 1):
        n = kex_by_tid.get(i, 0)
        rekeys += max(0, n - 1)
        idle += sum(1 for e in m["ev"] if e["a"] == "NeedRekey")
        if m["refuser"] and m["refuser"] != m["end"] and not m["alive"]:
            dropped += 1
        c.case(key=(m["kind"], m["end"], m["rp"], m["rb"], m["op"], m["ob"], len(m["ev"]), n),
               sample={"scenario": m["kind"], "endpoint": m["end"], "limits": {k: m[k] for k in ("rp", "rb", "op", "ob")},
                       "events": len(m["ev"]), "kexinit_sent": n, "alive_at_end": m["alive"], "why_ended": m["reason"],
                       "tail": [(e["a"], e["t"], e["len"]) for e in m["ev"][-8:]]} if (i % max(1, len(meta) // 5) == 0) else None)
    if (rekeys == 0 or idle == 0) and not c.violations and not c.known_hits:
        raise Machinery("the sessions did not exercise re-keying (%d re-keys, %d idle wake-ups)" % (rekeys, idle))
    if not any(m["refuser"] for m in meta):
        raise Machinery("no refusing-peer session was run")
    unsettled = sum(1 for m in meta if not m["settled"])
    c.extra["sessions"] = len(plan)
    c.extra["scenarios"] = {k: plan.count(k) for k in KINDS}
    c.extra["rekeys_observed"] = rekeys
    c.extra["idle_wakeups_observed"] = idle
    c.extra["refusers_dropped"] = dropped
    c.extra["sessions_not_settled_in_time"] = unsettled
    c.extra["events"] = sum(len(m["ev"]) for m in meta)
    c.rule = ("one trace per endpoint of a real session; scenarios %s with seeded limits (25-70 packets, 6-40 KB; allowance 4-25 packets / "
              "3-20 KB against a refuser), bursts of 10-60 messages of 1-3000 bytes, repeated crossings; distinct = distinct (scenario, "
              "endpoint, limits, number of events, KEXINITs sent)" % ", ".join(KINDS))
    c.assumptions = ["limits are scaled down through the instance attributes REKEY_PACKETS / REKEY_BYTES / REKEY_*_OVERFLOW_MAX",
                     "a session is judged when nothing has happened for 0.35 s (12 s at most)",
                     "a key exchange started although no counter of that endpoint had reached its limit since the last key switch is read as "
                     "'the counters did not restart' (nothing else in the library starts one on its own)"]
