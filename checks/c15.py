META = {
    "level": "model_checking",
    "technique": "TLA+ model of Transport.run()'s dispatch with the authentication gate (_ensure_authed) (Transport.tla) model-checked by TLC over all interleavings of auth success and connection-layer messages; a scripted client sends every type 80-100 (well-formed, empty and random payloads) to a real server transport at every pre-authentication point; callbacks, channel table, accept queue, delivered data and replies validated by TLC (Transport_Trace.tla)",
    "text": "TLC checks NoPreAuthService (no connection-layer callback, empty channel table while unauthenticated) and PreAuthRefused on the dispatch model; the real server is probed after NEWKEYS, after SERVICE_ACCEPT, after a failed and after a partial authentication with every type 80..100, and TLC judges the logged ServerInterface callbacks, channel map, accept queue, channel buffers and replies of each probe",
    "note": "trusted: TLC, netsched link + tap, the logging ServerInterface (records every callback the transport makes), the marker message that delimits a probe; a probe that ends the connection is accepted as 'refused' (the statement does not require the session to survive malformed pre-auth traffic)",
}
import random
from harness.core import cfg_text, Machinery
from harness.drivers import transport as tr
from paramiko.common import MSG_NAMES


def consts(total=True, types="<-MidTypes"):
    return {"Role": "server", "Named": set(MSG_NAMES), "NameLookupTotal": total, "SeqMod": 3,
            "Types": types, "ChanIds": "@{0, 1}"}


def run(c):
    c.mc_holds("Transport", cfg_text(constants=consts(types="<-ConnTypes"), invariants=["C15"]),
               name="server dispatch: auth success interleaved with types 80-100 + auth types")
    c.mc_holds("Transport", cfg_text(constants=consts(types="<-AllTypes"), invariants=["C15"], spec="OneStepSpec"),
               name="server dispatch: every state x each of the 256 types")
    c.mc("Transport", cfg_text(constants=consts(types="<-ConnTypes"), invariants=["C15"], spec="SpecNoGate"),
         expect="C15", name="sensitivity: dispatch without the authentication gate")

    c.mc("Transport", cfg_text(constants=consts(types="<-ConnTypes"), invariants=["C15"], spec="SpecNoGateInKex"),
         expect="C15", name="sensitivity: gate skipped while the server's own KEXINIT is outstanding")

    rnd = random.Random(c.seed)
    batch = []
    states = ["newkeys", "service", "failed", "partial"]
    variants = ["wellformed", "empty", "random"] if c.quick else ["wellformed", "wellformed", "wellformed", "empty", "random", "random"]
    for state in states:
        p = None
        events = []
        for variant in variants:
            for t in range(80, 101):
                if p is None or not p.alive():
                    if p is not None:
                        batch.append({"events": events, "state": state})
                        events = []
                        p.close()
                    p = tr.Probe("server", state)
                    if p.victim.is_authenticated():
                        raise Machinery("driver: server authenticated in pre-auth state %s" % state)
                payload = (tr.wellformed(t, rnd) if variant == "wellformed" else b"" if variant == "empty"
                           else bytes(rnd.getrandbits(8) for _ in range(rnd.choice([3, 9, 40]))))
                ev = p.send(t, payload)
                ev["state"], ev["variant"] = state, variant
                events.append(ev)
                c.case(key=(state, t, variant), sample=ev if (t in (80, 90, 94) and variant == "wellformed" and state == "failed") else None)
        batch.append({"events": events, "state": state})
        p.close()
    # the server itself starts a re-exchange before authentication; while only ITS KEXINIT is out the client sends
    # connection-layer requests (the gate must not depend on the key-exchange state)
    for state in ("newkeys", "failed", "partial"):
        p = tr.Probe("server", state)
        probes = [(80, tr.wellformed(80, rnd)), (90, tr.wellformed(90, rnd)), (80, b""), (90, tr.wellformed(90, rnd))]
        evs = p.rekey_window(probes)
        if not evs or not evs[0]["in_kex"]:
            raise Machinery("driver: server was not inside its own key exchange during the pre-auth window probe")
        for ev in evs:
            ev["state"], ev["variant"] = state + "+own-rekey", "wellformed"
            c.case(key=(state, ev["t"], "own-rekey-window"), sample=ev if ev["t"] == 90 and state == "failed" else None)
        batch.append({"events": evs, "state": state})
        p.close()
    res, _ = c.trace("Transport_Trace", batch, cfg_text(spec="TSpec", constants=consts(), invariants=["Report"]))
    if len(res["DONE"]) != len(batch):
        raise Machinery("trace validation consumed %d of %d traces" % (len(res["DONE"]), len(batch)))
    c.traces += len(batch)

    def describe(tid, clause, row):
        ev = batch[tid - 1]["events"][row[2] - 1]
        key = "%s:type%d%s" % (clause, ev["t"], ":own-rekey-window" if ev.get("in_kex") else "")
        return key, "%s: pre-auth state %s, type %d (%s payload): callbacks %r, channels %d, accept queue %d, reply %r, active %r" % (
            clause, ev["state"], ev["t"], ev["variant"], ev["cbs"], ev["nchans"], ev["accepts"], ev["reply"], ev["active"]), ev
    c.verdicts(res["VERDICT"], describe)
    c.rule = "every type 80..100 x payload class (well-formed for that type / empty / random) x pre-auth point (after NEWKEYS, after SERVICE_ACCEPT, after failed auth, after partial auth); distinct = (point, type, payload class)"
    c.extra["exhaustive"] = True
    c.assumptions = ["GSS-API key exchange (which authenticates during kex) is not exercised"]
