META = {
    "level": "model_checking",
    "technique": "TLA+ model of SFTPServer._check_file (CheckFile.tla: reference block ranges + the server's read loop, short reads allowed) model-checked by TLC incl. termination; every request of the bounded model rendered to bytes and served by the real SFTPServer; seeded requests around the 64 KiB read chunk and past EOF through SFTPFile.check and raw packets; returned digests judged by the trace spec against hashlib over the spec's ranges",
    "text": "TLC explores the server's hashing loop for every small (size, offset, length, block size) with a handle that may return short reads: with the repair toggles the ranges fed to each hash are exactly the reference blocks and the loop terminates; with the faithful toggles TLC must reproduce the wrong-range and the non-terminating behaviours. Every request of the bounded space is scaled by 16 KiB and sent to a real SFTPServer, plus seeded random requests (sizes 0..400 KiB, offsets/lengths/block sizes at and around 0, 256, 64 KiB, EOF, past EOF; md5 and sha1; via SFTPFile.check and via raw packets). The spec prints the ranges to hash, the driver hashes them with hashlib, and the spec judges response kind, digest count and equality; a request loop that spins at EOF or misses the deadline is the property clause P_unanswered",
    "note": "trusted: TLC, hashlib, the in-process server interface (standard SFTPHandle.read over a regular file); 'promptly' = the request loop does not issue 512 consecutive empty reads and answers within the wall deadline (re-tried once with a doubled deadline); block size 0 over a range shorter than 256 bytes and non-zero block sizes below 256 are outside the statement (conformance only)",
}
import hashlib
import random
import struct
import time

from harness.core import cfg_text, Machinery
from harness.drivers import sftp as drv

UNIT = 16384            # one model unit in bytes: ReadChunk = 4 units = 65536
REAL = {"MaxSize": 0, "MaxOff": 0, "MaxLen": 0, "BlockSizes": {0}, "ReadChunk": 65536, "MinBlock": 256,
        "ShortReads": False, "FixLoop": True, "FixEof": True}


def model(c):
    n = 6 if c.quick else 9
    base = {"MaxSize": n, "MaxOff": n + 1, "MaxLen": n + 2, "BlockSizes": set(range(n + 2)), "ReadChunk": 4,
            "MinBlock": 2, "ShortReads": True, "FixLoop": True, "FixEof": True}
    inv = ["HashesRight", "NotRefused", "NoSpin"]
    c.mc_holds("CheckFile", cfg_text(constants=base, invariants=inv), name="repaired loop, short reads")
    small = dict(base, MaxSize=5, MaxOff=6, MaxLen=7, BlockSizes=set(range(7)))
    c.mc_holds("CheckFile", cfg_text(spec="FairSpec", constants=small, properties=["Terminates"]),
               name="repaired loop terminates")
    # the pinned code: cumulative offset / reads crossing the block end, and no progress at EOF
    c.mc("CheckFile", cfg_text(constants=dict(small, FixLoop=False), invariants=inv), expect="HashesRight",
         name="faithful advance (offset += count)")
    c.mc("CheckFile", cfg_text(constants=dict(small, FixEof=False), invariants=inv), expect="NoSpin",
         name="faithful EOF handling (empty read does not end the loop)")
    c.mc("CheckFile", cfg_text(constants=dict(small, FixLoop=False, FixEof=False, ShortReads=False), invariants=inv),
         expect="HashesRight|NoSpin", name="pinned code, full-length reads")
    # generation: every request of the bounded space (MinBlock = 1 unit: every non-zero block is admissible)
    g = 5 if c.quick else 8
    gen = dict(base, MaxSize=g, MaxOff=g + 1, MaxLen=g + 2, BlockSizes=set(range(g + 2)), MinBlock=1, ShortReads=False)
    r = c.mc_holds("CheckFile", cfg_text(constants=gen, invariants=inv + ["Emit"]), name="generation", workers=1)
    cases = r.printed("CASE")
    want = (g + 1) * (g + 2) * (g + 3) * (g + 2)
    if len(cases) != want:
        raise Machinery("expected %d emitted requests, got %d" % (want, len(cases)))
    return cases


class Runner:
    """serves check-file requests on real sessions (one per route), with hang detection"""

    def __init__(self, c):
        self.c = c
        self.root = c.work / "root"
        self.root.mkdir(parents=True, exist_ok=True)
        self.files = {}          # size -> bytes
        self.sess = {}           # route -> Session
        self.handles = {}        # (route, size) -> SFTPFile | raw handle bytes
        self.rawid = 100
        self.workers = {}
        self.deadline = 8.0 if c.quick else 20.0

    def data(self, size):
        if size not in self.files:
            d = random.Random(size * 7919 + 1).randbytes(size)
            (self.root / ("f%d" % size)).write_bytes(d)
            self.files[size] = d
        return self.files[size]

    def session(self, route):
        s = self.sess.get(route)
        if s is None:
            s = drv.Session(self.root)
            if route == "raw":
                s.raw_init()
            self.sess[route] = s
        return s

    def drop(self, route):
        s = self.sess.pop(route, None)
        if s is not None:
            s.close()
        for k in [k for k in self.handles if k[0] == route]:
            del self.handles[k]

    def handle(self, route, size):
        self.data(size)
        k = (route, size)
        if k not in self.handles:
            s = self.session(route)
            if route == "client":
                self.handles[k] = s.client().open("f%d" % size, "rb")
            else:
                self.rawid += 1
                s.raw_send(3, drv.u32(self.rawid) + drv.s_str("f%d" % size) + drv.u32(1) + drv.u32(0))
                p = s.raw_recv(10.0)
                if p is None or p[0] != 102:
                    raise Machinery("raw OPEN not answered with HANDLE: %r" % (p,))
                n = struct.unpack(">I", p[1][4:8])[0]
                self.handles[k] = p[1][8:8 + n]
        return self.handles[k]

    def request(self, route, size, start, length, bsize, alg, deadline=None, short="none"):
        """-> {"kind": reply|status|none, "digests": bytes, "why": ...}
        short: how the served handle answers reads ("up to length bytes"): none = full length, one = 1 byte,
        cap16k = at most 16384, random = seeded random lengths"""
        deadline = deadline or self.deadline
        h = self.handle(route, size)
        s = self.session(route)
        s.knobs.empty_run = 0          # spinning = consecutive empty reads within ONE request
        srnd = random.Random(size * 31 + start * 7 + length * 3 + bsize)
        s.knobs.short = {"none": None, "one": lambda off, ln: 1, "cap16k": lambda off, ln: min(ln, 16384),
                         "random": lambda off, ln: srnd.choice([1, ln, ln, max(1, ln // 3), srnd.randint(1, ln)])}[short]
        if route == "client":
            w = self.workers.get(id(s))
            if w is None:
                w = self.workers[id(s)] = drv.Worker(s.knobs)
            res = w.call(lambda: h.check(alg, start, length, bsize), deadline)
            if res[0] == "ok":
                return {"kind": "reply", "digests": res[1], "why": ""}
            if res[0] == "exc":
                if isinstance(res[1], IOError):
                    return {"kind": "status", "digests": b"", "why": str(res[1])}
                raise Machinery("SFTPFile.check raised %r" % (res[1],))
            s.knobs.abort = True          # the spinning loop raises; the caller then gets a late failure status
            back = w.settle(6.0)
            s.knobs.abort = False
            s.knobs.reset_counts()
            if not back:
                del self.workers[id(s)]
                self.drop(route)
            return {"kind": "none", "digests": b"", "why": res[1]}
        self.rawid += 1
        num = self.rawid
        s.raw_send(200, drv.u32(num) + drv.s_str("check-file") + drv.s_str(h) + drv.s_str(alg) + drv.u64(start)
                   + drv.u64(length) + drv.u32(bsize))
        end, why, pkt = time.time() + deadline, "", None
        while pkt is None and not why:
            pkt = s.raw_recv(0.005)
            if pkt is None:
                why = "spin" if s.knobs.spinning.is_set() else ("deadline" if time.time() >= end else "")
        if pkt is None:
            s.knobs.abort = True            # the spinning loop raises; the server then sends a late failure status
            late = s.raw_recv(6.0)
            if late is None or struct.unpack(">I", late[1][:4])[0] != num:
                self.drop(route)
            else:
                s.knobs.abort = False
                s.knobs.reset_counts()
            return {"kind": "none", "digests": b"", "why": why}
        t, body = pkt
        if struct.unpack(">I", body[:4])[0] != num:
            raise Machinery("raw check-file: response id %r for request %d" % (body[:4], num))
        if t == 101:
            return {"kind": "status", "digests": b"", "why": "status %d" % struct.unpack(">I", body[4:8])[0]}
        if t != 201:
            raise Machinery("raw check-file answered with packet type %d" % t)
        pos = 4
        for _ in range(2):
            n = struct.unpack(">I", body[pos:pos + 4])[0]
            pos += 4 + n
        p2 = 4 + 4 + struct.unpack(">I", body[4:8])[0]
        named = body[p2 + 4:p2 + 4 + struct.unpack(">I", body[p2:p2 + 4])[0]].decode("latin-1")
        return {"kind": "reply", "digests": body[pos:], "why": "", "named": named}

    def close(self):
        for r in list(self.sess):
            self.drop(r)


def gen_random(rnd, n):
    K = 65536
    out = []
    sizes = [0, 1, 255, 256, 257, 1000, K - 1, K, K + 1, 2 * K, 2 * K + 17, 3 * K - 1, 200000, 4 * K, 5 * K + 3, 6 * K, 409600]
    for _ in range(n):
        size = rnd.choice(sizes)
        start = rnd.choice([0, 0, 1, 256, K - 1, K, K + 1, 2 * K, size // 2, max(0, size - 1), size, size + 1, size + K,
                            rnd.randint(0, size + 300)])
        length = rnd.choice([0, 0, 1, 256, 257, 1000, K - 1, K, K + 1, 2 * K, 3 * K + 5, max(0, size - start),
                             max(0, size - start) + 1, size + K, rnd.randint(0, size + 500)])
        bsize = rnd.choice([0, 0, 256, 257, 512, 1000, 4096, K - 1, K, K + 1, 2 * K, 2 * K + 1, 3 * K, 1, 255,
                            rnd.randint(256, 3 * K)])
        eff = max(0, (size if (length == 0 or start + length > size) else start + length) - start)
        cap = 300 if rnd.random() < 0.03 else 24          # blocks per request (keeps TLC's RANGES output small)
        if bsize >= 256 and eff // bsize > cap:
            bsize = max(bsize, eff // cap + 1)
        short = rnd.choice(["none", "none", "cap16k", "random", "random", "one"])
        if short == "one" and eff > 3000:
            short = "cap16k"               # one byte per read only over small ranges (time)
        out.append({"route": rnd.choice(["client", "raw"]), "alg": rnd.choice(["md5", "sha1"]), "size": size,
                    "start": start, "length": length, "bsize": bsize, "short": short})
    return out


def run(c):
    cases = model(c)
    rnd = random.Random(c.seed)
    reqs = []
    for _, size, start, length, bsize, expected, cls, deg, empty in cases:
        reqs.append({"route": "client", "alg": "md5" if (size + start + length + bsize) % 2 else "sha1",
                     "size": size * UNIT, "start": start * UNIT, "length": length * UNIT, "bsize": bsize * UNIT,
                     "short": ["none", "cap16k", "random"][len(reqs) % 3],
                     "model": [[a * UNIT, b * UNIT] for a, b in expected]})
    nmodel = len(reqs)
    # fixed: lists of several hash names in every order (raw route: the reply names the algorithm it used)
    for algs in ("md5,sha1", "sha1,md5", "sha256,md5,sha1", "md5,sha256", "sha1,sha256,md5", "crc32,sha1", "sha256,sha1,md5"):
        for size, start, length, bsize in ((205121, 0, 0, 65536), (205121, 1000, 70000, 300), (1000, 0, 5000, 0)):
            reqs.append({"route": "raw", "alg": algs, "size": size, "start": start, "length": length, "bsize": bsize,
                         "short": "none"})
    reqs += gen_random(rnd, 600 if c.quick else 6000)
    # phase 1: the spec says which ranges must be hashed
    batch = [{"size": q["size"], "start": q["start"], "length": q["length"], "bsize": q["bsize"], "phase": 1}
             for q in reqs]
    res, _ = c.trace("CheckFile_Trace", batch, cfg_text(spec="TSpec", constants=REAL, invariants=["Report"]),
                     tags=("RANGES", "DONE"))
    if len(res["DONE"]) != len(batch):
        raise Machinery("phase 1 consumed %d of %d records" % (len(res["DONE"]), len(batch)))
    ranges = {row[1]: [list(x) for x in row[2]] for row in res["RANGES"]}
    for i, q in enumerate(reqs[:nmodel]):
        if ranges[i + 1] != q["model"]:
            raise Machinery("scaled model case %r disagrees with the trace spec's ranges" % (q,))
    # run the real server
    run_ = Runner(c)
    out = []
    try:
        for i, q in enumerate(reqs):
            want = ranges[i + 1]
            o = run_.request(q["route"], q["size"], q["start"], q["length"], q["bsize"], q["alg"], short=q["short"])
            if o["kind"] == "none" and o["why"] == "deadline":     # real-time verdict: once more, doubled deadline
                o = run_.request(q["route"], q["size"], q["start"], q["length"], q["bsize"], q["alg"],
                                 deadline=2 * run_.deadline, short=q["short"])
            names = q["alg"].split(",")
            named = o.get("named", "")            # only the raw route sees which algorithm the reply names
            used = named if named in ("md5", "sha1") else next((x for x in names if x in ("md5", "sha1")), "md5")
            dl = 16 if used == "md5" else 20
            H = hashlib.md5 if used == "md5" else hashlib.sha1
            data = run_.data(q["size"])
            nd, tail = divmod(len(o["digests"]), dl)
            eq = [o["digests"][j * dl:(j + 1) * dl] == H(data[a:b]).digest()
                  for j, (a, b) in enumerate(want[:nd])]
            rec = {"size": q["size"], "start": q["start"], "length": q["length"], "bsize": q["bsize"], "phase": 2,
                   "kind": o["kind"], "nd": nd, "tail": tail, "eq": eq, "algs": names, "named": named}
            out.append(rec)
            q["obs"] = {"kind": o["kind"], "why": o["why"], "digests": nd, "expected_blocks": len(want)}
            c.case(key=(q["route"], q["alg"], q["size"], q["start"], q["length"], q["bsize"], q["short"]),
                   sample=({k: q[k] for k in ("route", "alg", "size", "start", "length", "bsize", "short", "obs")}
                           if i % 997 == 5 else None))
    finally:
        run_.close()
    res, _ = c.trace("CheckFile_Trace", out, cfg_text(spec="TSpec", constants=REAL, invariants=["Report"]))
    if len(res["DONE"]) != len(out):
        raise Machinery("phase 2 consumed %d of %d records" % (len(res["DONE"]), len(out)))
    c.traces += len(out)

    def describe(tid, clause, row):
        q = reqs[tid - 1]
        key = "%s:%s" % (clause, row[2])
        what = ("check-file(%s, offset=%d, length=%d, block_size=%d) on a %d-byte file%s via %s: %s "
                "(response %s, %d digests, %d blocks expected%s)" %
                (q["alg"], q["start"], q["length"], q["bsize"], q["size"],
                 "" if q["short"] == "none" else " (handle returns short reads: %s)" % q["short"], q["route"], clause, q["obs"]["kind"],
                 q["obs"]["digests"], q["obs"]["expected_blocks"],
                 (", " + q["obs"]["why"]) if q["obs"]["why"] else ""))
        return key, what, {k: q[k] for k in ("route", "alg", "size", "start", "length", "bsize", "short", "obs")}
    c.verdicts(res["VERDICT"], describe)
    c.rule = ("every (size, offset, length, block size) of the bounded model scaled by 16 KiB (TLC-enumerated) + seeded "
              "random requests over boundary values (0, 1, 255..257, 64 KiB +-1, EOF +-1, past EOF; md5/sha1; SFTPFile.check "
              "and raw packets; the served handle answers reads in full, capped at 16 KiB, with seeded random lengths or one byte at a "
              "time); distinct = distinct (route, alg, size, offset, length, block size, read mode)")
    c.extra["exhaustive"] = False
    c.extra["model_requests_replayed"] = nmodel
    c.assumptions = ["files are regular files served through the library's SFTPHandle.read, which the driver's handle may shorten",
                     "promptness is judged by progress of the server's read loop (512 consecutive empty reads = spinning) "
                     "and a wall deadline of %.0f s, re-tried once doubled" % run_.deadline]
