META = {
    "level": "model_checking",
    "technique": "TLA+ model of the initial handshake of both ends with a man in the middle who injects plaintext packets and deletes ciphertext packets (StrictKex.tla) model-checked by TLC (Terrapin toggle EnforceStrict=FALSE must be refuted); real client/server handshakes under the same attacker on an in-memory link (every injection type x position x direction, Terrapin injection+deletion, strict on/off per side; MAC-based and AES-GCM ciphers); re-exchanges with a peer that sends the marker once (StrictRekey.tla: mode latched, counters restart at every NEWKEYS whatever the cipher mode); each end's consumed-packet sequence is replayed through the spec's Step function and the end-of-run observations judged by TLC (StrictKex_Trace.tla)",
    "text": "TLC explores all attacker schedules (one injection + one deletion, 2 application messages per side) and checks NoShiftedSession, ForgedNeverSurvives and the sequence-number reset; the real transports are then attacked the same way and TLC checks, per end, that whenever the spec says the handshake must die the real session is not established, sequence numbers restart at 0 after NEWKEYS in both directions, a late KEXINIT is refused, and the post-NEWKEYS stream received is a prefix of what the peer sent",
    "note": "trusted: TLC, netsched man in the middle (sees whole packets; plaintext before NEWKEYS), tap packetizer digests; the symbolic model binds KEXINIT substitution to the exchange-hash check (C06's territory); paramiko has no chacha20-poly1305 so the working-shifted-session outcome is unreachable even without strict kex - the check asserts terminate-or-intact",
}
import itertools
import random
from harness.core import cfg_text, Machinery
from harness.drivers import strictkex as sk

TYPEMAP = {20: "KEXINIT", 30: "KEX30", 31: "KEX31", 21: "NEWKEYS", 2: "IGNORE", 4: "DEBUG", 3: "UNIMPL"}


def consts(advc, advs, enforce=True, inj=1, drop=1, napp=2):
    return {"AdvC": advc, "AdvS": advs, "MaxInject": inj, "MaxDrop": drop, "NApp": napp, "EnforceStrict": enforce}


INVS = ["NoShiftedSession", "ForgedNeverSurvives", "SeqZeroAfterNewkeys"]


def per_end(obs):
    """two per-end trace records from one handshake observation"""
    out = []
    for e, peer in (("c", "s"), ("s", "c")):
        o = obs["ends"][e]
        pk = []
        inj = obs["inject"]
        for i, t in enumerate(o["types_all"]):
            forged = bool(obs["injected"] and inj and inj[0] == e and i == inj[1] - 1)
            name = TYPEMAP.get(t, "APP" if o["newkeys_idx"] is not None and i > o["newkeys_idx"] else "UNKNOWN")
            pk.append({"t": name, "seq": o["seqs_all"][i], "forged": forged})
        out.append({"kind": "handshake", "end": e, "packets": pk, "attacked": bool(obs["injected"] or obs["dropped"]),
                    "obs": {"established": o["established"], "agreed": o["agreed"], "kexinit_in_seq": o["kexinit_in_seq"],
                            "first_in_seq": o["first_in_seq_after_newkeys"], "first_out_seq": o["first_out_seq_after_newkeys"],
                            "recv": o["recv_after_newkeys"], "peer_sent": obs["ends"][peer]["sent_after_newkeys"]},
                    "scenario": {"kex": obs["kex"], "inject": obs["inject"], "drop": obs["drop"], "adv": [obs["advC"], obs["advS"]],
                                 "app": obs["app"], "exc": o["exc"]}})
    return out


def run(c):
    c.mc_holds("StrictKex", cfg_text(constants=consts(True, True), invariants=INVS), name="both strict, 1 injection + 1 deletion")
    c.mc("StrictKex", cfg_text(constants=consts(True, True, enforce=False), invariants=INVS),
         expect="NoShiftedSession|ForgedNeverSurvives|SeqZeroAfterNewkeys", name="sensitivity: strict kex not enforced (Terrapin)")
    c.mc_holds("StrictKex", cfg_text(constants=consts(True, False), invariants=INVS), name="server does not advertise")
    if not c.quick:
        c.mc_holds("StrictKex", cfg_text(constants=consts(True, True, inj=2, drop=1), invariants=INVS), name="2 injections + 1 deletion", timeout=1800)
        c.mc_holds("StrictKex", cfg_text(constants=consts(True, True, inj=1, drop=2, napp=3), invariants=INVS), name="1 injection + 2 deletions, 3 app msgs", timeout=1800)

    # re-exchanges: the mode is latched by the initial exchange, counters restart at every NEWKEYS
    rk = {"RepeatsMarker": "<-RM", "MaxRekeys": 2, "MaxTraffic": 3, "Aead": True, "ResetSkipsAead": False}
    c.mc_holds("StrictRekey", cfg_text(constants=dict(rk, Latched=True), invariants=["StrictStays", "ResetAtEveryNewkeys", "InSync"]),
               name="re-exchanges, one end stops repeating the marker, mode latched")
    c.mc("StrictRekey", cfg_text(constants=dict(rk, Latched=False), invariants=["StrictStays", "ResetAtEveryNewkeys", "InSync"]),
         expect="StrictStays|ResetAtEveryNewkeys|InSync", name="sensitivity: strict mode recomputed from every KEXINIT")

    c.mc("StrictRekey", cfg_text(constants=dict(rk, Latched=True, ResetSkipsAead=True), invariants=["ResetAtEveryNewkeys"]),
         expect="ResetAtEveryNewkeys", name="sensitivity: counters only restarted for MAC-based cipher modes (AES-GCM negotiated)")

    rnd = random.Random(c.seed)
    kexes = ["curve25519-sha256@libssh.org", "diffie-hellman-group14-sha256"]
    if not c.quick:
        kexes += ["ecdh-sha2-nistp256", "ecdh-sha2-nistp384", "ecdh-sha2-nistp521", "diffie-hellman-group16-sha512",
                  "diffie-hellman-group-exchange-sha256"]
    types = ["IGNORE", "DEBUG", "UNIMPL", "UNKNOWN", "KEXINIT", "SERVICE_REQUEST"]
    scen = []
    for kex in kexes:
        scen.append((True, True, kex, None, None))
        for dst in ("c", "s"):
            for pos in (1, 2, 3):
                for ty in types:
                    scen.append((True, True, kex, (dst, pos, ty), None))
            # Terrapin shape: inject before NEWKEYS, delete one of the first encrypted packets in the same direction
            for pos in (1, 2, 3):
                for k in (0, 1):
                    scen.append((True, True, kex, (dst, pos, "IGNORE"), (dst, k)))
            for k in (0, 1, 2):
                scen.append((True, True, kex, None, (dst, k)))
    # strict mode off on one or both sides (sampled)
    for adv in ((True, False), (False, True), (False, False)):
        scen.append((adv[0], adv[1], kexes[0], None, None))
        for dst in ("c", "s"):
            for pos in (1, 2, 3):
                ty = rnd.choice(types)
                scen.append((adv[0], adv[1], kexes[0], (dst, pos, ty), None))
            scen.append((adv[0], adv[1], kexes[0], (dst, 2, "IGNORE"), (dst, 0)))
    if c.quick:
        # keep the quick tier bounded: all curve25519 scenarios, a seeded half of the others
        scen = [s for s in scen if s[2] == kexes[0] or rnd.random() < 0.5]
    # cipher modes: the restart of the counters must not depend on whether the cipher is MAC-based or an AEAD
    ciphers = ["aes128-gcm@openssh.com", "aes256-gcm@openssh.com", "aes256-cbc", "aes256-ctr"]
    for ci in ciphers:
        scen.append((True, True, kexes[0] + "|" + ci, None, None))
        scen.append((True, True, kexes[0] + "|" + ci, ("c", 2, "IGNORE"), None))
        scen.append((True, True, kexes[0] + "|" + ci, ("s", 3, "IGNORE"), ("s", 0)))
    batches, metas = {}, {}
    for (ac, as_, kex, inj, drop) in scen:
        if "group-exchange" in kex:
            continue
        kex, _, ci = kex.partition("|")
        obs = sk.run_handshake(ac, as_, kex, inject=inj, drop=drop, cipher=ci or None)
        recs = per_end(obs)
        for r in recs:
            metas.setdefault((ac, as_), []).append(r.pop("scenario"))
        batches.setdefault((ac, as_), []).extend(recs)
        c.case(key=(ac, as_, kex, ci, str(inj), str(drop)),
               sample={"scenario": metas[(ac, as_)][-2], "client": recs[0]["obs"], "client_consumed": recs[0]["packets"][:8]}
               if inj and drop and ac and as_ else None)
    # real re-exchanges after a strict initial handshake, with a peer that advertises the marker only once
    rekey_obs = []
    for once in ("none", "c", "s"):
        for inits in ((["c"], ["s"], ["c", "s"]) if c.quick else (["c"], ["s"], ["c", "s"], ["s", "c", "c"], ["s", "s"])):
            obs = sk.run_rekeys(once, inits, kex=kexes[0] if c.quick else rnd.choice(kexes[:6]))
            rekey_obs.append((once, inits, obs))
    for ci in ciphers:
        for inits in (["c"], ["s", "c"]):
            rekey_obs.append(("none", inits, sk.run_rekeys("none", inits, kex=kexes[0], cipher=ci)))
    for once, inits, obs in rekey_obs:
        if True:
            for e in ("c", "s"):
                o = obs["ends"][e]
                rec = {"kind": "rekeys", "end": e, "packets": [], "attacked": False,
                       "obs": {"agreed": o["agreed"], "in_seq": o["in_seq_after_newkeys"], "out_seq": o["out_seq_after_newkeys"],
                               "all_ok": bool(all(r["ok"] and r["echo"] for r in obs["rekeys"]) and o["active"]),
                               "established": True, "kexinit_in_seq": 0, "first_in_seq": 0, "first_out_seq": 0, "recv": [], "peer_sent": []}}
                batches.setdefault((True, True), []).append(rec)
                metas.setdefault((True, True), []).append({"kex": obs["kex"], "inject": ["rekey", once, "+".join(inits)], "drop": [],
                                                           "adv": [True, True], "app": obs["rekeys"], "exc": ""})
            c.case(key=("rekeys", once, tuple(inits), obs["kex"]), sample=obs if once == "c" and len(inits) == 2 else None)
    for (ac, as_), batch in batches.items():
        res, _ = c.trace("StrictKex_Trace", batch, cfg_text(spec="TSpec", constants=consts(ac, as_), invariants=["Report"]))
        if len(res["DONE"]) != len(batch):
            raise Machinery("trace validation consumed %d of %d traces" % (len(res["DONE"]), len(batch)))
        c.traces += len(batch)

        def describe(tid, clause, row, batch=batch, meta=metas[(ac, as_)]):
            r = batch[tid - 1]
            sc = meta[tid - 1]
            key = "%s:%s:%s" % (clause, r["end"], (("marker_once_" + sc["inject"][1]) if sc["inject"] and sc["inject"][0] == "rekey"
                                                   else (sc["inject"][2] if sc["inject"] else "noinject")) + ("+drop" if sc["drop"] else ""))
            return key, "%s at end %s: scenario %r, observation %r" % (clause, r["end"], sc, {k: v for k, v in r["obs"].items() if k not in ("recv", "peer_sent")}), r
        c.verdicts(res["VERDICT"], describe)
    c.rule = "real handshakes per kex method: untouched; each forged type (IGNORE, DEBUG, UNIMPLEMENTED, unknown, duplicate KEXINIT, SERVICE_REQUEST) before each plaintext position of each direction; injection + deletion of the 1st/2nd encrypted packet (Terrapin); single deletions; strict advertised on/off per side; distinct = scenario tuple"
    c.assumptions = ["group-exchange kex is skipped in this driver (needs a moduli pack)"]
