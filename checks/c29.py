META = {
    "level": "fault_enumeration",
    "technique": "single-fault enumeration of put/putfo/get/getfo and of pipelined SFTPFile writes on a real SFTPClient/SFTPServer pair (the served handle rejects, fails or shortens one chosen read/write chunk with a chosen SFTP error code), outcome and destination bytes judged by the TLC trace spec; the pipelined-write bookkeeping (SftpClientProto.tla) is model-checked by TLC for 'a rejected write surfaces by close()'",
    "text": "TLC checks on the client model that a rejected pipelined write is raised no later than close() (repair toggle) and reproduces the loss with the faithful toggle. The driver then enumerates transfers: for every file size class and EVERY chunk position one run in which the server rejects that write (put/putfo) or fails that read (get/getfo), with the SFTP error codes 1..8, confirm on/off, callbacks on/off, prefetch on/off, a concurrency cap, and short reads; plus pipelined-file programs (write k chunks, one rejected, optionally a stat in between, close). The trace spec demands: the call raised, or destination bytes equal source bytes; a rejected pipelined write raised by close() at the latest",
    "note": "putfo is also fed from file-like sources whose read(n) returns fewer than n bytes before the end of the data (getfo sinks that accept only part of a write are not generated); trusted: TLC, the in-process server interface whose handle injects the fault, byte comparison by the driver; an EOF status injected in the middle of a download is the server declaring end of file - the truncated copy is reported as conformance, not as a violation; quick tier rotates the error codes over the positions, the thorough tier takes the full cross product for the smaller sizes",
}
import random

from harness.core import cfg_text
from checks import c28 as lib

CH = 32768
CODES = [2, 3, 4, 5, 6, 7, 8]          # NO_SUCH_FILE .. OP_UNSUPPORTED


def nchunks(size):
    return max(1, (size + CH - 1) // CH)


def transfers(c):
    rnd = random.Random(c.seed)
    quick = c.quick
    sizes = [0, 1, CH, CH + 1, 100000, 1 << 20] if quick else [0, 1, CH - 1, CH, CH + 1, 70000, 100000, 300000, 1 << 20]
    ops = []
    rot = 0
    for size in sizes:
        n = nchunks(size)
        # baselines (no fault) with every option combination
        for confirm in (True, False):
            for fo in (False, True):
                ops.append((size, {"op": "put", "size": size, "confirm": confirm, "callback": fo, "fo": fo, "fault": "none",
                                   "pos": 0, "code": 0, "prefetch": False}, False))
        ops.append((size, {"op": "put", "size": size, "confirm": True, "callback": "log", "fo": True, "fault": "none",
                           "pos": 0, "code": 0, "prefetch": False}, False))
        for prefetch in (True, False):
            for short in (False, True):
                ops.append((size, {"op": "get", "size": size, "confirm": False, "callback": prefetch, "fo": short,
                                   "fault": "short_reads" if short else "none", "pos": 0, "code": 0, "prefetch": prefetch,
                                   "maxc": 0}, short))
        if size == 0:
            continue
        for pos in range(n):
            codes = CODES + [1] if (not quick and size <= 100000) else [CODES[(rot + j) % len(CODES)] for j in range(2)]
            rot += 2
            for code in codes:
                for confirm in ((True, False) if (not quick or pos % 2 == 0) else (True,)):
                    ops.append((size, {"op": "put", "size": size, "confirm": confirm, "callback": pos % 2 == 0,
                                       "fo": pos % 3 == 0, "fault": "write_rejected", "pos": pos, "code": code,
                                       "prefetch": False}, False))
                for prefetch in (True, False):
                    if code == 1:
                        continue            # EOF on a read = "the file ends here": enumerated below as read_eof
                    ops.append((size, {"op": "get", "size": size, "confirm": False, "callback": pos % 2 == 1,
                                       "fo": pos % 3 == 1, "fault": "read_failed", "pos": pos, "code": code,
                                       "prefetch": prefetch, "maxc": [0, 2, 0, 5][pos % 4]}, pos % 5 == 4))
            # the progress callback appends to a second pipelined file on the same session: its statuses interleave
            if pos >= n - 2 and n >= 3:
                for confirm in (True, False):
                    ops.append((size, {"op": "put", "size": size, "confirm": confirm, "callback": "log", "fo": pos % 2 == 0,
                                       "fault": "write_rejected", "pos": pos, "code": CODES[pos % len(CODES)],
                                       "prefetch": False}, False))
            # the server declares EOF at that chunk (conformance only)
            ops.append((size, {"op": "get", "size": size, "confirm": False, "callback": False, "fo": False, "fault": "read_eof",
                               "pos": pos, "code": 1, "prefetch": pos % 2 == 0, "maxc": 0}, False))
    # putfo from a source object that returns short reads before the end of its data (fixed cases)
    j = 0
    for size in (1000, CH, 100000, 307217):
        for cap in (1000, 8192, CH - 1, "random"):
            ops.append((size, {"op": "put", "size": size, "confirm": j % 2 == 0, "callback": j % 3 == 0, "fo": True, "src": cap,
                               "fault": "source_short_reads", "pos": 0, "code": 0, "prefetch": False}, False))
            j += 1
    progs = []
    for i, (size, op, short) in enumerate(ops):
        progs.append({"size": size, "short": short, "seed": c.seed * 31 + i, "prog": [op], "origin": "transfer"})
    return progs


def pipelined_programs(c):
    progs = []
    i = 0
    for k in (1, 2, 3, 5, 400):
        for pos in sorted({0, k // 2, k - 1}):
            for code in (CODES if not c.quick else [CODES[(pos + k) % len(CODES)], 4]):
                for sync_at in (None, 0, pos + 1):
                    if sync_at is not None and sync_at > k:
                        continue
                    prog = []
                    for j in range(k):
                        if sync_at == j:
                            prog.append({"op": "sync", "which": "stat"})
                        if k <= 5:
                            prog.append({"op": "write", "count": 1, "n": 100 + j, "pipelined": True})
                    if k > 5:
                        prog.append({"op": "write", "count": pos + 1, "n": 50, "pipelined": True})
                        if sync_at is not None:
                            prog.append({"op": "sync", "which": "listdir"})
                        prog.append({"op": "write", "count": k - pos - 1, "n": 50, "pipelined": True})
                    elif sync_at == k:
                        prog.append({"op": "sync", "which": "stat"})
                    prog.append({"op": "closeW"})
                    progs.append({"size": 1000, "short": False, "seed": c.seed * 77 + i, "prog": prog,
                                  "faults": {"write": {pos: code}}, "origin": "pipelined file, write #%d of %d rejected with code %d" % (pos, k, code)})
                    i += 1
    # two pipelined files written alternately: the statuses of one interleave with the other's while it is closed
    for k in (2, 4, 9):
        for pos in sorted({0, k // 2, k - 1}):
            for tail in (0, 2):
                prog = []
                for j in range(k):
                    prog.append({"op": "write", "count": 1, "n": 100 + j, "pipelined": True})
                    prog.append({"op": "writeB", "count": 1 + (j % 2), "n": 60})
                prog += [{"op": "writeB", "count": tail, "n": 10}] if tail else []
                prog.append({"op": "closeW"})
                progs.append({"size": 1000, "short": False, "seed": c.seed * 77 + i, "prog": prog, "faults": {"write": {pos: 4}},
                              "origin": "two pipelined files written alternately, write #%d of %d to the first rejected" % (pos, k)})
                i += 1
    return progs


def run(c):
    inv = ["NoHang", "WriteErrorSurfaces", "ReadExact"]
    base = dict(lib.WRITE_MODEL, MaxOps=4 if c.quick else 6)
    c.mc_holds("SftpClientProto", cfg_text(constants=lib.consts(base), invariants=inv),
               name="rejected pipelined write surfaces by close(), repaired")
    c.mc("SftpClientProto", cfg_text(constants=lib.consts(dict(lib.WRITE_MODEL, FixOwner=False)), invariants=inv),
         expect="WriteErrorSurfaces", name="faithful: close() drops the statuses of pipelined writes")
    c.mc("SftpClientProto", cfg_text(constants=lib.consts(dict(lib.WRITE_MODEL, FixOwner=False, FixClose=True)), invariants=inv),
         expect="NoHang|WriteErrorSurfaces",
         name="candidate repair 'close() drains _reqs' alone: after a stat in between, close() waits for a status that was dropped")
    fm = dict(lib.WRITE_MODEL, MaxOps=5, Ops={"write", "writeB", "stat", "close"})
    c.mc_holds("SftpClientProto", cfg_text(constants=lib.consts(fm), invariants=["NoHang", "WriteErrorSurfaces"]),
               name="a second pipelined file on the session, repaired")
    c.mc("SftpClientProto", cfg_text(constants=lib.consts(dict(fm, FinishCountsOnce=True)), invariants=["NoHang", "WriteErrorSurfaces"]),
         expect="WriteErrorSurfaces", name="mutation: _finish_responses reads as many packets as the file had outstanding")
    # the copy loop itself: a source may return short reads before the end of its data
    tc = {"Size": 7, "Chunk": 3, "ShortSource": True, "StopOnShortRead": False}
    tinv = ["TransferExact", "CountRight"]
    c.mc_holds("SftpClientProto_Transfer", cfg_text(constants=tc, invariants=tinv, properties=["Terminates"]),
               name="transfer loop, source with short reads")
    c.mc("SftpClientProto_Transfer", cfg_text(constants=dict(tc, StopOnShortRead=True), invariants=tinv), expect="TransferExact",
         name="mutation: the loop stops at the first short read")
    progs = transfers(c) + pipelined_programs(c)
    lib.run_programs(c, progs, "t", {"P_silent_corruption", "P_write_error_lost", "P_blocked"})
    ntr = sum(1 for p in progs if p["origin"] == "transfer")
    c.rule = ("transfers: sizes 0 B..1 MiB x every chunk position x error codes (quick: 2 rotating codes per position; thorough: all of "
              "1..8 for sizes <= 100000) x put/putfo/get/getfo x confirm / callback / prefetch / concurrency cap / short reads + "
              "fault-free baselines (%d runs); pipelined files: k in {1,2,3,5,400} writes, rejected position first/middle/last, "
              "stat or listdir before / right after the rejected write or not at all (%d runs); distinct = distinct "
              "(size, short reads, program incl. fault position and code)" % (ntr, len(progs) - ntr))
    c.extra["faults_enumerated"] = sum(1 for p in progs if p["prog"][0].get("fault", "x") not in ("none", "short_reads"))
    c.assumptions = ["one faulty chunk per run", "the server applies every write it acknowledges (library SFTPHandle.write)"]
