META = {
    "level": "model_checking",
    "technique": "TLA+ writer/reader state machine over a token wire (SftpAttr.tla: one Pack*/Unpack* step per flagged field group) model-checked by TLC over every presence combination x boundary values x extended maps and over sequences of independent attribute objects (what a block yields depends on its own input only) and over the lifecycle of one object (kept after _pack or _from_msg, fields set / cleared, encoded again: the stored flag word must play no role); each TLC-emitted attribute set replayed through the real SFTPAttributes._pack/_unpack on a token-recording Message; recorded pack/unpack results of seeded random attribute sets validated by TLC against the same clause operators (SftpAttr_Trace.tla)",
    "text": "TLC enumerates all 2^5 presence combinations of size, uid/gid, permissions, atime/mtime and extended attributes with boundary values (0, 1, 2^32-1, 2^32, 2^64-1 as 16-bit limbs; the quick tier uses 0, 2^32-1, 2^32, 2^64-1) and extended maps of 0-2 entries, checks on the model that the flag word is exactly the set of groups present, that the reader consumes exactly what the writer wrote, that absent fields are never decoded and that the decoded set equals the encoded one, and emits every attribute set with its token encoding; each is packed and unpacked by the real code and flags, written tokens, read tokens and decoded fields are judged by TLC; sets are run in sequences on newly created objects (SFTPAttributes(), from_stat, _from_msg; extended attributes assigned or set in place) so state leaking between objects fails the clauses of the later block; seeded random sequences add full-range 64/32-bit values, maps of up to 6 entries with str/bytes/non-ASCII/empty/long members, half-specified pairs and fractional times (the last two as conformance only); a fixed stratum and seeded random object lifecycles encode one object repeatedly (the encoded or the _from_msg-decoded object is kept, groups are set / cleared, or nothing is changed, and it is encoded again) and every encoding is judged against the fields the object holds at that moment",
    "note": "trusted: TLC, the Message subclass that logs outermost add_*/get_* calls as tokens, int<->limb conversion; uid/gid and atime/mtime are one optional pair each and extended attributes are compared as byte strings (DESIGN.md Appendix F); byte layout of the tokens is C39's concern",
}
import random
from harness.core import cfg_text, Machinery
from harness.drivers import codec

MUTATIONS = {"mode_flag_not_set": "PackOK", "ext_count_short": "PackOK", "times_swapped": "RoundTrip"}
QUICK = {"U32Vals": "U32Quick", "U64Vals": "U64Two", "Keys": "KeysTwo", "Vals": "ValsTwo"}
TINY = {"U32Vals": "U32Quick", "U64Vals": "U64One", "Keys": "KeysOne", "Vals": "ValsTwo"}      # sensitivity runs
SEQ = {"U32Vals": "U32One", "U64Vals": "U64One", "Keys": "KeysOne", "Vals": "ValsTwo"}         # sequences of sets
FULL = {"U32Vals": "U32Full", "U64Vals": "U64Full", "Keys": "KeysTwo", "Vals": "ValsFull"}


def cfg(subst, mutation="none", invariants=(), spec="Spec", fix=True, blocks=1, shared=False, reuse=False):
    return (cfg_text(spec=spec, constants={"MaxExt": 1 if subst in (TINY, SEQ) else 2, "Mutation": mutation, "FixExtOrder": fix,
                                           "MaxBlocks": blocks, "SharedExtMap": shared, "Reuse": reuse, "MaxEdits": 2 if reuse else 0},
                     invariants=invariants)
            + "CONSTANTS\n" + "".join("  %s <- %s\n" % kv for kv in subst.items()))


def render(attrs, n):
    """an attribute set emitted by TLC -> arguments for the driver (names alternately str / bytes)"""
    values = {name: (codec.unlimbs(attrs[name][0]) if attrs[name] else None) for name, _, _ in codec.ATTR_FIELDS}
    ext = []
    for j, (k, v) in enumerate(attrs["ext"]):
        kb, vb = bytes(k), bytes(v)
        if (n + j) % 2 == 0 and all(x < 128 for x in kb):
            kb = kb.decode("ascii")
        if (n + j) % 3 == 0 and all(x < 128 for x in vb):
            vb = vb.decode("ascii")
        ext.append((kb, vb))
    return values, ext


def show(b):
    return bytes(x for x in b[:40] if x >= 0) + (b"..." if len(b) > 40 else b"")


def describe(rec):
    if rec["origin"] != "fresh":          # a kept object: show what was edited and what the object then held
        held = {k: codec.unlimbs(v[0]) for k, v in rec["attrs"].items() if k != "ext" and v}
        return "%s object kept, edited %s ext %s, then holding %s ext %s -> flags %s, decoded %s ext %s, decoded flags %s" % (
            "encoded" if rec["origin"] == "same" else "decoded", rec["input"]["values"], rec["input"]["ext"], held,
            [(show(k), show(v)) for k, v in rec["attrs"]["ext"][:8]], hex(codec.unlimbs(rec["flags"])),
            {k: codec.unlimbs(v[0]) for k, v in rec["dec"].items() if k != "ext" and v},
            [(show(k), show(v)) for k, v in rec["dec"]["ext"][:8]], hex(codec.unlimbs(rec["rflags"])))
    return "attributes %s ext %s -> flags %s, decoded %s ext %s, decoded flags %s" % (
        rec["input"]["values"], rec["input"]["ext"], hex(codec.unlimbs(rec["flags"])),
        {k: codec.unlimbs(v[0]) for k, v in rec["dec"].items() if k != "ext" and v},
        [(show(k), show(v)) for k, v in rec["dec"]["ext"][:8]], hex(codec.unlimbs(rec["rflags"])))


BOUND32 = [0, 1, 0o644, 0o100644, 2 ** 16 - 1, 2 ** 16, 2 ** 31 - 1, 2 ** 31, 2 ** 32 - 2, 2 ** 32 - 1]
BOUND64 = BOUND32 + [2 ** 32, 2 ** 32 + 1, 2 ** 48, 2 ** 63 - 1, 2 ** 63, 2 ** 64 - 2, 2 ** 64 - 1]


def random_case(rnd):
    def v32():
        return rnd.choice(BOUND32) if rnd.random() < 0.4 else rnd.getrandbits(rnd.choice([8, 16, 31, 32]))

    def v64():
        return rnd.choice(BOUND64) if rnd.random() < 0.4 else rnd.getrandbits(rnd.choice([8, 32, 33, 63, 64]))

    def name(maxlen):
        n = rnd.choice([0, 1, 3, 8, rnd.randint(0, maxlen)])
        m = rnd.random()
        if m < 0.4:
            return "".join(rnd.choice("abcXYZ019@.-_ ") for _ in range(n))
        if m < 0.55:
            return "".join(rnd.choice("aé中\U0001f511ß") for _ in range(n))
        return bytes(rnd.getrandbits(8) for _ in range(n))

    values = {}
    p = rnd.choice([0.2, 0.5, 0.8])
    if rnd.random() < p:
        values["size"] = v64()
    if rnd.random() < p:
        values["uid"], values["gid"] = v32(), v32()
        if rnd.random() < 0.1:
            del values[rnd.choice(["uid", "gid"])]
    if rnd.random() < p:
        values["mode"] = v32()
    if rnd.random() < p:
        values["atime"], values["mtime"] = v32(), v32()
        if rnd.random() < 0.1:
            del values[rnd.choice(["atime", "mtime"])]
        elif rnd.random() < 0.1:
            k = rnd.choice(["atime", "mtime"])
            values[k] = min(values[k], 2 ** 32 - 2) + rnd.choice([0.25, 0.5, 0.75])
    ext, seen = [], set()
    if rnd.random() < p:
        for _ in range(rnd.randint(1, 6)):
            k = name(20)
            kb = bytes(codec.as_bytes_list(k))
            if kb in seen:
                continue
            seen.add(kb)
            ext.append((k, name(300 if rnd.random() < 0.1 else 40)))
    return values, ext


GROUPS = {"size": ("size",), "uidgid": ("uid", "gid"), "mode": ("mode",), "times": ("atime", "mtime")}
SET = {"size": {"size": 2 ** 32 + 5}, "uidgid": {"uid": 1000, "gid": 100}, "mode": {"mode": 0o100644},
       "times": {"atime": 1, "mtime": 2 ** 32 - 1}}
EXT = [("k@x.y", b"\x00v")]


def lifecycle_stratum():
    """the fixed part: one object encoded, edited (every group set on / cleared from a few starting states, or nothing
    changed) and encoded again - the object that was encoded ("same") and the one that was decoded ("decoded")"""
    out = []
    everything = dict(kv for g in SET.values() for kv in g.items())
    n = 0
    for origin in ("same", "decoded"):
        for base, bext in (({"size": 7}, []), ({"mode": 0o755}, []), ({"uid": 0, "gid": 0}, [("a", "b")])):
            steps = [(dict(SET[g]), None) for g in SET if not set(SET[g]) & set(base)] + ([({}, EXT)] if not bext else []) + [({}, None)]
            for values, ext in steps:                       # set one group / set nothing, encode again
                n += 1
                out.append([(base, bext, codec.ATTR_MAKE[n % 2], "assign", codec.ATTR_READ[n % 2]),
                            (values, ext, "init", codec.ATTR_SET[n % 2], codec.ATTR_READ[(n // 2) % 2], origin)])
        for g in list(GROUPS) + ["ext"]:                    # clear one group of a full object, encode again
            n += 1
            edit = ({name: None for name in GROUPS[g]}, None) if g != "ext" else ({}, [])
            out.append([(everything, EXT, "init", "assign", codec.ATTR_READ[n % 2]),
                        edit + ("init", codec.ATTR_SET[n % 2], codec.ATTR_READ[(n // 2) % 2], origin)])
    out.append([({"size": 7}, [], "init", "assign", "from_msg"), ({"mode": 0o644}, None, "init", "assign", "from_msg", "same"),
                ({"size": None}, None, "init", "assign", "unpack", "same"), ({"atime": 5, "mtime": 6}, EXT, "init", "update", "from_msg", "decoded"),
                ({}, None, "init", "assign", "from_msg", "decoded")])
    return out


def random_lifecycle(rnd):
    """a new object, then 1-3 further encodings: of a new object, of the kept encoded object or of the kept decoded one,
    with 0-2 groups set and at most one cleared in between"""
    values, ext = random_case(rnd)
    blocks = [(values, ext, rnd.choice(codec.ATTR_MAKE), rnd.choice(codec.ATTR_SET), rnd.choice(codec.ATTR_READ))]
    for _ in range(rnd.randint(1, 3)):
        origin = rnd.choice(["fresh", "same", "same", "decoded", "decoded"])
        values, ext = random_case(rnd)
        if origin != "fresh":
            keep = rnd.sample(sorted(GROUPS), rnd.randint(0, 2))
            values = {k: v for k, v in values.items() if any(k in GROUPS[g] for g in keep)}
            if rnd.random() < 0.4:
                for name in GROUPS[rnd.choice(sorted(GROUPS))]:
                    values[name] = None
            ext = (ext if rnd.random() < 0.7 else []) if rnd.random() < 0.3 else None
        blocks.append((values, ext, rnd.choice(codec.ATTR_MAKE), rnd.choice(codec.ATTR_SET), rnd.choice(codec.ATTR_READ), origin))
    return blocks


def norm(block):
    """a decoded / expected attribute set with the extended map as a set (its order is not part of the property)"""
    return {k: (sorted(map(tuple, ((tuple(x), tuple(y)) for x, y in v))) if k == "ext" else v) for k, v in block.items()}


def judge(c, traces):
    """TLC judges every sequence; returns {trace number: {block numbers with a failed clause}}"""
    fields = ("attrs", "fractional", "flags", "wtoks", "rflags", "rtoks", "dec", "aborted", "origin", "edits")
    res, _ = c.trace("SftpAttr_Trace", [{"blocks": [{k: b[k] for k in fields} for b in t["blocks"]]} for t in traces],
                     cfg(TINY, invariants=["Report"], spec="TSpec"))
    if len(res["DONE"]) != len(traces):
        raise Machinery("trace validation consumed %d of %d traces" % (len(res["DONE"]), len(traces)))
    c.traces += len(traces)

    def one(tid, clause, row):
        name, b = clause
        blocks = traces[tid - 1]["blocks"]
        rec = blocks[b - 1]
        before = ["ext %s" % x["input"]["ext"] for x in blocks[:b - 1] if x["input"]["ext"]]
        return (name, "%s fails for block %d of a sequence of %d%s: %s%s" % (
            name, b, len(blocks), " (earlier blocks carried %s)" % "; ".join(before[:2]) if before else "", describe(rec),
            " [%s: %s]" % (rec["aborted"], rec["error"]) if rec["aborted"] else ""),
            {"blocks": [x["input"] for x in blocks[:b]]})
    # report, per clause, a sequence that explains itself (an earlier block of the same sequence had extended attributes)
    rows = sorted(res["VERDICT"], key=lambda row: 0 if any(x["input"]["ext"] for x in traces[row[1] - 1]["blocks"][:-1]) else 1)
    c.verdicts(rows, one)
    return {row[1]: {cl[1] for cl in row[2]} for row in res["VERDICT"]}


def replay(c, rp):
    """bin/check C33 --replay replays/C33/<key>.json : the recorded sequence of attribute sets again"""
    import ast
    blocks = rp["blocks"] if "blocks" in rp else [rp]
    t = codec.run_attr_sequence([(b["values"], None if b["ext"] is None else [(ast.literal_eval(k), ast.literal_eval(v)) for k, v in b["ext"]],
                                  b.get("make", "init"), b.get("setext", "assign"), b.get("read", "from_msg"), b.get("origin", "fresh"))
                                 for b in blocks])
    c.case(key="replay", sample=[{k: b[k] for k in ("input", "flags", "dec")} for b in t["blocks"]])
    judge(c, [t])
    c.rule = "replay of one recorded sequence of attribute sets"


def run(c):
    if getattr(c, "replay_file", None):
        import json
        return replay(c, json.load(open(c.replay_file))["replay"])
    subst = QUICK if c.quick else FULL
    invs = ["ReaderInside", "PackOK", "FlagsFirst", "AbsentStaysAbsent", "NoCarryOver", "RoundTrip"]
    # ---- M: every attribute set (one block; emitted for replay) ...
    r = c.mc_holds("SftpAttr", cfg(subst, invariants=invs + ["Emit"]), name="all attribute sets", workers=1)
    cases = r.printed("CASE")
    if not cases or len(cases) * 13 != r.distinct:
        raise Machinery("expected one CASE per attribute set: %d cases, %d states" % (len(cases), r.distinct))
    # ... and sequences: independent sets on new objects (what a block yields depends on that block's input only) and
    # the lifecycle of one object (kept after encoding / decoding, fields set and cleared, encoded again)
    nb = 2 if c.quick else 3
    c.mc_holds("SftpAttr", cfg(SEQ, invariants=invs, blocks=nb, reuse=True), workers=8,
               name="sequences of %d encodings: new objects, kept and edited objects" % nb)
    # _pack trusting the flag word a kept object carries from its previous encoding / decoding: must be refuted
    c.mc("SftpAttr", cfg(SEQ, mutation="stale_flags", invariants=["PackOK"], blocks=2, reuse=True), expect="PackOK", workers=4,
         name="stale flag word of a kept object trusted")
    # all new objects aliasing one extended map (mutable default argument) as a model: a later set without extended
    # attributes inherits them - the statement's invariants must fail
    c.mc("SftpAttr", cfg(SEQ, invariants=["AbsentStaysAbsent"], blocks=2, shared=True), expect="AbsentStaysAbsent",
         workers=1, name="shared extended map between objects")
    if not c.quick:
        c.mc("SftpAttr", cfg(TINY, invariants=["RoundTrip"], fix=False), expect="RoundTrip", workers=4, name="names/values swapped on unpack")
        for mut, inv in MUTATIONS.items():
            c.mc("SftpAttr", cfg(TINY, mutation=mut, invariants=[inv]), expect=inv, name="mutation " + mut, workers=4)
    # ---- RP: spec -> code.  The emitted sets, three per sequence, one sequence after the other in this process
    rnd = random.Random(c.seed)
    traces, expect, presence = [], [], set()
    for n, (_, attrs, flags, wire) in enumerate(cases):
        values, ext = render(attrs, n)
        if n % 3 == 0:
            traces.append({"blocks": []})
            expect.append([])
        rec = codec.run_attr_roundtrip(values, ext, codec.ATTR_MAKE[n % 2], codec.ATTR_SET[(n // 2) % 2], codec.ATTR_READ[(n // 4) % 2])
        traces[-1]["blocks"].append(rec)
        expect[-1].append((attrs, flags, wire))
        presence.add(tuple(flags))
        c.case(key=("rp", n), sample={k: rec[k] for k in ("input", "flags", "wtoks", "dec")} if len(wire) == 12 else None)
    if len(presence) != 32:
        raise Machinery("the emitted cases cover %d of the 32 presence combinations" % len(presence))
    n_rp = len(traces)
    # ---- TV input: sequences that start with extended attributes and go on without
    for _ in range(500 if c.quick else 13000):
        blocks = []
        for j in range(rnd.randint(2, 4)):
            values, ext = random_case(rnd)
            if j == 0 and not ext and rnd.random() < 0.7:
                ext = [("first@example.com", b"\x00\x01"), (b"k", "v")][:rnd.randint(1, 2)]
            elif j > 0 and rnd.random() < 0.7:
                ext = []
            blocks.append((values, ext, rnd.choice(codec.ATTR_MAKE), rnd.choice(codec.ATTR_SET), rnd.choice(codec.ATTR_READ)))
            c.case(key=repr((sorted(values.items()), ext)))
        traces.append(codec.run_attr_sequence(blocks))
    # ---- ... and object lifecycles: the fixed stratum, then seeded random ones
    for blocks in lifecycle_stratum() + [random_lifecycle(rnd) for _ in range(300 if c.quick else 8000)]:
        traces.append(codec.run_attr_sequence(blocks))
        c.case(key=repr(blocks), n=len(blocks))
    flagged = judge(c, traces)
    # the direct comparison with what TLC emitted, block by block.  TLC (the oracle) has the last word: a block it
    # flags is reported whatever Python thinks; a block that merely differs from the emitted values in a way no clause
    # covers is a conformance note; only "identical to what TLC emitted, yet flagged by TLC" is a harness inconsistency
    for tid in range(1, n_rp + 1):
        for b, (rec, (attrs, flags, wire)) in enumerate(zip(traces[tid - 1]["blocks"], expect[tid - 1]), 1):
            same = (rec["flags"] == flags and rec["rflags"] == flags and rec["wtoks"] == wire and rec["rtoks"] == wire
                    and norm(rec["dec"]) == norm(attrs) and not rec["aborted"])
            hit = b in flagged.get(tid, ())
            if same and hit:
                raise Machinery("TLC flags a block that equals what TLC emitted: %s" % describe(rec))
            if not same and not hit:
                c.conformance("differs_from_emitted_unflagged", "differs from the emitted case in a way no clause covers: " + describe(rec))
    if flagged and not (c.violations or c.known_hits or c.conf):
        raise Machinery("TLC flagged %d traces but no verdict was registered" % len(flagged))
    c.rule = ("every attribute set over the 32 presence combinations x boundary values x extended maps of 0-2 entries "
              "(%d sets, TLC-enumerated, run three per sequence on new objects made by SFTPAttributes()/from_stat/_from_msg) + seeded "
              "random sequences of 2-4 sets (extended attributes first, then mostly none) with full-range values, maps up to 6 "
              "entries, half pairs and fractional times + %d fixed and seeded random object lifecycles (an object encoded, kept - the "
              "encoded one or the decoded one -, 0-2 groups set / one cleared, encoded again; up to 4 encodings); distinct = "
              "distinct attribute sets / lifecycles" % (len(cases), len(lifecycle_stratum())))
    c.extra["exhaustive"] = True
    c.assumptions = ["uid/gid and atime/mtime are optional pairs; extended attribute names are distinct as byte strings",
                     "values are in range (sizes < 2^64, ids/modes/times < 2^32, non-negative)",
                     "an attribute set is put on a newly created object or results from editing the object encoded / decoded in the previous step; _unpack only ever fills a new object (as _from_msg does); all sequences run in one process"]
