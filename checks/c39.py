META = {
    "level": "model_checking",
    "technique": "TLA+ writer/reader state machine over bytes (WireCodec.tla: AddField/Rewind/GetField with RFC 4251 encoders and decoders defined on byte sequences, big integers as (sign, magnitude bytes)) model-checked by TLC over every message of a few fields and over single-field messages with boundary-rich values; each TLC-emitted message replayed on the real paramiko.Message; recorded add_*/get_* traces of seeded random messages (integers up to 4096 bits around every sign/byte boundary) validated by TLC against the same encoder, decoder and clause operators (WireCodec_Trace.tla)",
    "text": "TLC enumerates every sequence of up to 2 (thorough: 4) fields over 14 values covering all nine field types, and every single-field message over all mpints whose magnitude is built from the byte classes {0,1,127,128,255} up to 3 (4) bytes, all integers -1100..1100 (-40000..40000), boundary uint32/uint64/adaptive values, strings, UTF-8 texts of 1-4 byte code points and name-lists; it checks on the model that read-back values equal written values in order, that already-read plus unread bytes always equal the message, that the wire is the concatenation of the field encodings, and that every mpint is the minimal two's complement form (zero = empty string, characterised independently of the encoder) denoting the integer written; every emitted message is written and read by the real Message and compared byte for byte; seeded random messages of 1-8 fields and mpints/adaptive ints at +-2^(8k), +-2^(8k-1), +-(2^(8k)-1), +-1 around them for k up to 512 are judged by TLC; a few messages carry a string, text or name-list of 2^20-1, 2^20, 2^20+1 or 3*2^20+5 bytes followed by a small field (TLC judges lengths, headers, positions and SHA-256 digests computed by the driver)",
    "note": "trusted: TLC, int<->(sign, magnitude bytes) and str<->code point conversions in the driver, Python's own UTF-8 for rendering texts; name-lists are non-empty with non-empty comma-free names and texts exclude surrogates (statement / DESIGN.md Appendix F); byte layout of non-mpint fields is a conformance clause (the statement only demands the round trip for them), mpint layout is a property clause; Message.add() (type-guessing) is not covered; for megabyte fields the driver's SHA-256 / length summaries and its so_far+remainder comparison are derived facts TLC relies on; megabyte mpints are not exercised (the statement bounds integers at 4096 bits; one get_mpint of 2^20 bytes takes minutes)",
}
import random
from harness.core import cfg_text, Machinery
from harness.drivers import codec

INVS = ["SplitOK", "RoundTripOK", "WireOK", "MpintCanonical", "CodecInverse"]
MUTATIONS = [("no_sign_padding", "MpintOnly", 1, "MpintCanonical"), ("string_off_by_one", "SeqVals", 2, "RoundTripOK"),
             ("little_endian_u32", "SeqVals", 1, "WireOK")]


def cfg(vals, maxfields, maglen=1, intrange=1, zero_as_byte=False, mutation="none", invariants=(), spec="Spec", single="NoVals",
        properties=()):
    return (cfg_text(spec=spec, constants={"MaxFields": maxfields, "MagLen": maglen, "IntRange": intrange,
                                           "ZeroAsByte": zero_as_byte, "Mutation": mutation}, invariants=invariants, properties=properties)
            + "CONSTANTS\n  FieldVals <- %s\n  SingleVals <- %s\n" % (vals, single))


def show_field(f):
    t = f["t"]
    if t in codec.HUGE_TYPES or "digest" in f:
        return "%s(%d bytes, sha256 %s..)" % (t, f["len"], f["digest"][:8]) if t != "other" else "<wrong type>"
    if t in ("uint32", "uint64", "adaptive", "mpint"):
        v = codec.value_of(f)
        return "%s(%s)" % (t, v if abs(v) < 10 ** 12 else "%s0x%x.. [%d bits]" % ("-" if v < 0 else "", abs(v) >> (abs(v).bit_length() - 16), abs(v).bit_length()))
    if t == "other":
        return "<wrong type>"
    return "%s(%r)" % (t, codec.value_of(f))


def value_class(f):
    """stable signature of the kind of value: the type; for mpints sign and whether the top bit of the magnitude is set"""
    if f["t"] != "mpint":
        return f["t"]
    if not f["v"]:
        return "mpint:zero"
    return "mpint:%s:%s" % ("negative" if f["neg"] else "positive", "msb_set" if f["v"][0] >= 128 else "msb_clear")


def describe(rec, k):
    fs = rec["fields"]
    where = show_field(fs[k - 1]) if 1 <= k <= len(fs) else "step %d" % k
    seg = bytes(rec["wire"][(rec["ends"][k - 2] if k >= 2 else 0):rec["ends"][k - 1]]) if 1 <= k <= len(rec["ends"]) else b""
    if rec["huge"] and 1 <= k <= len(rec["writes"]):
        seg = bytes(rec["writes"][k - 1]["seg"] or rec["writes"][k - 1]["header"])
    back = show_field(rec["reads"][k - 1]["val"]) if 1 <= k <= len(rec["reads"]) else "-"
    return "field %d of [%s]: %s written as %s, read back as %s%s" % (
        k, ", ".join(show_field(f) for f in fs[:8]), where, seg[:24].hex() + (".." if len(seg) > 24 else ""), back,
        " [%s]" % rec["error"] if rec["error"] else "")


def boundary_ints(k):
    a, b = 1 << (8 * k), 1 << (8 * k - 1)
    out = []
    for x in (a, a - 1, a + 1, b, b - 1, b + 1):
        out += [x, -x]
    return out


def random_field(rnd):
    t = rnd.choice(["byte", "boolean", "uint32", "uint64", "adaptive", "adaptive", "mpint", "mpint", "mpint", "string", "text", "list"])
    if t == "byte":
        return codec.field_of(t, bytes([rnd.choice([0, 1, 10, 127, 128, 255, rnd.randrange(256)])]))
    if t == "boolean":
        return codec.field_of(t, rnd.random() < 0.5)
    if t in ("uint32", "uint64"):
        bits = 32 if t == "uint32" else 64
        v = rnd.choice([0, 1, 255, 256, 2 ** 31 - 1, 2 ** 31, 2 ** 32 - 1, 2 ** (bits - 1), 2 ** bits - 1, rnd.getrandbits(bits), rnd.getrandbits(rnd.randint(1, bits))])
        return codec.field_of(t, v % 2 ** bits)
    if t in ("adaptive", "mpint"):
        m = rnd.random()
        if m < 0.4:
            v = rnd.choice(boundary_ints(rnd.choice([1, 2, 3, 4, 5, 8, 9, 16, 32, 33, 64, 128, 256, 511, 512, rnd.randint(1, 512)])))
        elif m < 0.6:
            v = rnd.choice([0, 1, -1, 127, 128, -128, -129, 255, 256, 0xFEFFFFFF, 0xFF000000, 0xFF000001, 0xFFFFFFFF, 0x100000000])
        else:
            v = rnd.getrandbits(rnd.choice([7, 8, 9, 31, 32, 33, 64, 255, 256, 257, 1024, 2048, 4095, 4096, rnd.randint(1, 4096)]))
            v = -v if rnd.random() < 0.4 else v
        if t == "adaptive":
            v = abs(v)
        return codec.field_of(t, v)
    if t == "string":
        n = rnd.choice([0, 1, 2, 16, 40, 255, 256, 300]) if rnd.random() < 0.5 else rnd.randint(0, 40)
        return codec.field_of(t, bytes(rnd.getrandbits(8) for _ in range(n)))

    def cp():
        r = rnd.random()
        c = (rnd.randint(0, 127) if r < 0.5 else rnd.randint(128, 2047) if r < 0.7 else
             rnd.randint(2048, 65535) if r < 0.9 else rnd.randint(65536, 1114111))
        return 0xFFFD if 0xD800 <= c <= 0xDFFF else c
    if t == "text":
        return codec.field_of(t, "".join(chr(cp()) for _ in range(rnd.choice([0, 1, 3, 20, rnd.randint(0, 30)]))))
    names = []
    for _ in range(rnd.randint(1, 5)):
        name = [c for c in (cp() for _ in range(rnd.randint(1, 12))) if c != 44] or [120]
        names.append("".join(chr(c) for c in name))
    return codec.field_of("list", names)


def judge(c, batch):
    """TLC judges every record (in chunks: one JSON file per TLC start); returns the flagged trace numbers"""
    keep = ("fields", "ends", "wire", "reads", "aborted", "huge", "writes")
    flagged, verdicts, size = set(), [], 8000
    for lo in range(0, len(batch), size):
        chunk = batch[lo:lo + size]
        res, _ = c.trace("WireCodec_Trace", [{k: rec[k] for k in keep} for rec in chunk],
                         cfg("SeqVals", 1, invariants=["Report"], spec="TSpec"), timeout=1500)
        if len(res["DONE"]) != len(chunk):
            raise Machinery("trace validation consumed %d of %d traces" % (len(res["DONE"]), len(chunk)))
        for row in res["VERDICT"]:
            verdicts.append([row[0], row[1] + lo, row[2]])
            flagged.add(row[1] + lo)

    def one(tid, clause, row):
        name, k = clause
        rec = batch[tid - 1]
        f = rec["fields"][k - 1] if 1 <= k <= len(rec["fields"]) else None
        key = "%s:%s" % (name, value_class(f) if f else "step")
        rp = {"items": rec["items"], "reuse": rec["reuse"]} if rec["huge"] else {"fields": rec["fields"], "reuse": rec["reuse"]}
        return key, "%s fails at %s" % (name, describe(rec, k)), rp
    verdicts.sort(key=lambda row: len(batch[row[1] - 1]["wire"]))       # report the smallest message per key
    c.verdicts(verdicts, one)
    return flagged


def replay(c, rp):
    """bin/check C39 --replay replays/C39/<key>.json : the recorded message again"""
    if "items" in rp:
        rec = codec.run_wire_huge([tuple(it) for it in rp["items"]], reuse=rp.get("reuse", True))
    else:
        rec = codec.run_wire_message(rp["fields"], reuse=rp.get("reuse", True))
    c.case(key="replay", sample={"fields": [show_field(f) for f in rec["fields"]], "wire": bytes(rec["wire"]).hex()})
    judge(c, [rec])
    c.traces += 1
    c.rule = "replay of one recorded message"


def run(c):
    if getattr(c, "replay_file", None):
        import json
        return replay(c, json.load(open(c.replay_file))["replay"])
    maxf, maglen, irange = (2, 3, 1100) if c.quick else (4, 4, 40000)
    rnd = random.Random(c.seed)
    # ---- M: messages of several fields; single-field messages with rich values.  Both emit every message.
    r = c.mc_holds("WireCodec", cfg("SeqVals", maxf, maglen, irange, invariants=INVS + ["Emit"], single="RichVals", properties=["AddLegal", "GetLegal"]),
                   name="messages of up to %d fields + single fields with boundary-rich values" % maxf, workers=1, timeout=1500)
    cases = r.printed("CASE")
    nseq = sum(14 ** n for n in range(maxf + 1))
    nsingle = len([1 for x in cases if len(x[1]) == 1])
    if len(cases) < nseq + 2000 or len({repr(x[1]) for x in cases}) != len(cases) or nsingle < 2000:
        raise Machinery("unexpected number of emitted messages: %d (%d single-field, %d states)" % (len(cases), nsingle, r.distinct))
    # the pinned code's mpint zero (deflate_long(0) = one zero byte) as a model: MpintCanonical must fail
    c.mc("WireCodec", cfg("MpintOnly", 1, zero_as_byte=True, invariants=["MpintCanonical"]), expect="MpintCanonical", workers=4,
         name="faithful to pinned add_mpint(0)")
    for mut, vals, mf, inv in MUTATIONS[:0 if c.quick else None]:
        c.mc("WireCodec", cfg(vals, mf, mutation=mut, invariants=[inv]), expect=inv, name="mutation " + mut, workers=4)

    # ---- RP: spec -> code.  Every emitted message through the real Message, compared with what TLC says
    batch, must_flag = [], set()
    types_seen = set()
    for n, (_, fields, ends, wire) in enumerate(cases):
        rec = codec.run_wire_message(fields, reuse=(n % 2 == 0), binary=(n % 3 == 0))
        same = (rec["aborted"] == "" and rec["wire"] == wire and rec["ends"] == ends and len(rec["reads"]) == len(fields)
                and all(rd["val"] == f and rd["split_ok"] and rd["sofar_len"] == e for rd, f, e in zip(rec["reads"], fields, ends)))
        types_seen.update(f["t"] for f in fields)
        c.case(key=("rp", n), sample=({"fields": [show_field(f) for f in fields], "wire": bytes(rec["wire"]).hex()}
                                      if len(fields) == maxf and n % 97 == 0 else None))
        if not same or c.quick or n % 20 == 0 or (len(fields) > 1 and n % 3 == 0):
            batch.append(rec)
            if not same:
                must_flag.add(len(batch))
    n_rp = len(batch)
    if types_seen != set(codec.WRITERS):
        raise Machinery("emitted messages do not cover every field type: %s" % sorted(types_seen))
    c.traces += len(cases)
    # ---- TV input: boundary mpints / adaptive ints up to 4096 bits, random messages
    ks = sorted(set([1, 2, 3, 4, 5, 8, 16, 32, 64, 128, 256, 511, 512] + [rnd.randint(1, 512) for _ in range(10)])) if c.quick else range(1, 513)
    for k in ks:
        for v in boundary_ints(k):
            fs = [codec.field_of("mpint", v)] + ([codec.field_of("adaptive", v)] if v >= 0 else [])
            batch.append(codec.run_wire_message(fs, reuse=rnd.random() < 0.5))
            c.case(key=("mpint", v))
    for _ in range(500 if c.quick else 8000):
        fs = [random_field(rnd) for _ in range(rnd.randint(1, 8))]
        batch.append(codec.run_wire_message(fs, reuse=rnd.random() < 0.5, binary=rnd.random() < 0.5))
        c.case(key=repr(fs))
    # ---- ... and a few messages with one huge field (the statement has no size bound) followed by a small one:
    # 2^20 - 1, 2^20, 2^20 + 1 and 3 * 2^20 + 5 bytes of string / text / name-list; TLC sees lengths and digests
    M = 1 << 20
    plan = ([("hstring", M), ("hstring", M + 1), ("htext", M + 1), ("hlist", 3 * M + 5)] if c.quick else
            [(t, n) for t in sorted(codec.HUGE_TYPES) for n in (M - 1, M, M + 1, 3 * M + 5)])
    for j, (t, n) in enumerate(plan * (1 if c.quick else 2)):
        small = random_field(rnd)
        rec = codec.run_wire_huge([("huge", t, n, rnd.randrange(1 << 30)), ("small", small)] + ([("huge", "hstring", M + 7, j)] if j % 4 == 3 else []),
                                  reuse=(j % 2 == 0), binary=(j % 3 == 0))
        if not rec["aborted"] and rec["fields"][0]["len"] != n:
            raise Machinery("huge %s of %d bytes came out as %d bytes in the driver" % (t, n, rec["fields"][0]["len"]))
        batch.append(rec)
        c.case(key=("huge", t, n, j))
    flagged = judge(c, batch)
    c.traces += len(batch) - n_rp
    for tid in range(1, n_rp + 1):
        # TLC (the oracle) has the last word: only "equals what TLC emitted, yet flagged by TLC" is a harness inconsistency
        if tid not in must_flag and tid in flagged:
            raise Machinery("TLC flags a message that equals what TLC emitted: %s" % describe(batch[tid - 1], 1))
        if tid in must_flag and tid not in flagged:
            c.conformance("differs_from_emitted_unflagged", "differs from the emitted case in a way no clause covers: " + describe(batch[tid - 1], 1))

    if flagged and not (c.violations or c.known_hits or c.conf):
        raise Machinery("TLC flagged %d traces but no verdict was registered" % len(flagged))
    c.rule = ("every message of up to %d fields over 14 values of the 9 field types + every single-field message over mpints with "
              "magnitudes from byte classes up to %d bytes, integers -%d..%d, boundary uint32/uint64/adaptive values, strings, texts, "
              "name-lists (TLC-enumerated, %d messages) + mpint/adaptive boundaries +-2^(8k), +-2^(8k-1), +-1 around them for %d values "
              "of k <= 512 + seeded random messages of 1-8 fields + %d messages with a string / text / name-list of 2^20-1 .. 3*2^20+5 bytes followed by a small field; distinct = distinct messages"
              % (maxf, maglen, irange, irange, len(cases), len(list(ks)), len(plan) * (1 if c.quick else 2)))
    c.extra["exhaustive"] = True
    c.assumptions = ["values are written with the add_* method of their type and read with the matching get_*",
                     "uint32/uint64 values are in range; adaptive ints are non-negative; texts and names contain no surrogates; names are non-empty and comma-free"]
