META = {
    "level": "model_checking",
    "technique": "TLA+ state machine of SSHConfig.lookup (SshConfig.tla: per-block parse, two passes over the blocks, HostName default, token expansion in dict order) model-checked by TLC against a declarative 'first applying block' definition with recursive wildcard matching on character sequences; every bounded (config, host) emitted by TLC rendered to ssh_config text and run through the real SSHConfig; these and seeded random configs of up to 12 blocks are judged by TLC with the trace spec",
    "text": "TLC enumerates configs built from header and body universes (wildcard/negated Host patterns, Match all/final/originalhost/host/user, repeated keys, ProxyCommand none, IdentityFile lists, %-tokens) and all looked-up names, checks the walk against the declarative statement (pinned parse and pinned expansion order: counterexamples; repaired: holds) and emits each case; the driver renders each config from its structure (never re-parsing text), runs SSHConfig.from_text/lookup/get_hostnames and records the returned dict as character sequences; TLC decides per option whether the observed value is the first-obtained one with the documented tokens expanded (either reading of 'first applying block' for Match final, either documented meaning of %u), IdentityFile accumulation, HostName default, get_hostnames coverage",
    "note": "trusted: TLC, the text renderer, the machine facts for %d/~/%l/%L/%u (getpass, expanduser, gethostname, getfqdn); %C is only required to be 40 hex digits; configs whose Match host/user blocks apply differently in paramiko's two passes are generated rarely and not judged (Appendix F); canonicalization, Match exec/localuser/canonical, bracket patterns and duplicate IdentityFile values inside one block are not generated",
}
import json
import os
import random
import re
import time
from harness.core import Machinery
from harness import tla
from harness.drivers import lookup as drv

INVS = ["FirstObtained", "NoStrayKeys", "WalkIsLookup", "PartsAgree"]


# "IdentityFile values accumulate ... without duplicates": the code (like its parse step) keeps a value that is
# repeated inside the FIRST contributing block (that block's list is copied as written), while OpenSSH's
# add_identity_file never registers a duplicate.  FALSE = the reading that demands less (the first contributing
# block's own list as written; everything accumulated on top of it without duplicates) - the repeat is then
# reported as conformance item C_identityfile_repeat_inside_first_contributing_block_kept.  TRUE = the whole
# final list must be duplicate-free (key P_value:identityfile_repeat_inside_first_contributing_block_kept);
# switch it on together with the parse-time fix in proposed/C40_identityfile_repeat_in_first_block.md.
STRICT_FIRST_BLOCK = os.environ.get("VERIF_C40_STRICT", "0") == "1"      # default: the lenient reading


def mc_cfg(headers, bodies, pre, maxblocks, pin_none=False, pin_order=False, pin_snapshot=False, keep_repeats=None, strict=None,
           pin_match_host=False, invariants=INVS):
    strict = STRICT_FIRST_BLOCK if strict is None else strict
    keep_repeats = (not strict) if keep_repeats is None else keep_repeats
    lines = ["SPECIFICATION Spec", "CONSTANTS",
             "  Headers <- %s" % headers, "  Bodies <- %s" % bodies, "  Preambles <- %s" % pre, "  HostNames <- MC_Hosts",
             "  MaxBlocks = %d" % maxblocks, "  Env <- MC_Env",
             "  PinNone = %s" % ("TRUE" if pin_none else "FALSE"), "  PinOrder = %s" % ("TRUE" if pin_order else "FALSE"),
             "  PinSnapshot = %s" % ("TRUE" if pin_snapshot else "FALSE"), "  KeepRepeats = %s" % ("TRUE" if keep_repeats else "FALSE"),
             "  StrictFirstBlock = %s" % ("TRUE" if strict else "FALSE"),
             "  PinMatchHost = %s" % ("TRUE" if pin_match_host else "FALSE")]
    lines += ["INVARIANT %s" % i for i in invariants]
    lines.append("CHECK_DEADLOCK FALSE")
    return "\n".join(lines) + "\n"


TRACE_CFG = ("SPECIFICATION TSpec\nCONSTANTS\n  Headers = {}\n  Bodies = {}\n  Preambles = {}\n  HostNames = {}\n  MaxBlocks = 0\n"
             "  Env = {}\n  PinNone = FALSE\n  PinOrder = FALSE\n  PinSnapshot = FALSE\n  KeepRepeats = TRUE\n  PinMatchHost = FALSE\n"
             "  StrictFirstBlock = %s\nINVARIANT Report\nCHECK_DEADLOCK FALSE\n" % ("TRUE" if STRICT_FIRST_BLOCK else "FALSE"))

# ---------------------------------------------------------------- random configs (structure first, text second)
HOST_ALPHA = "abc"


def rnd_pattern(rnd):
    n = rnd.choice([1, 1, 2, 2, 3, 4])
    p = [rnd.choice(["a", "b", "c", "a", "b", ".", "*", "*", "?"]) for _ in range(n)]
    return p


def rnd_patterns(rnd, maxn=3):
    pats = [{"neg": False, "p": rnd_pattern(rnd)}]
    for _ in range(rnd.choice([0, 0, 1, 1, 2][:maxn + 2])):
        pats.append({"neg": rnd.random() < 0.4, "p": rnd_pattern(rnd)})
    rnd.shuffle(pats)
    return pats


def rnd_host(rnd):
    n = rnd.choice([1, 2, 2, 3, 3, 4])
    h = [rnd.choice(HOST_ALPHA) for _ in range(n)]
    if n >= 3 and rnd.random() < 0.3:
        h[1] = "."
    return h


VALUES = {
    "hostname": [["%h", ".", "x"], ["b", "c"], ["%h"], ["a", ".", "%h"], ["a", "b", ".", "c"], ["%h", "-", "%h"]],
    "user": [["a", "b"], ["r", "o", "o", "t"], ["m", "e"], ["a"]],
    "port": [["2", "2"], ["2", "2", "2", "2"], ["8", "0"]],
    "identityfile": [["~", "/", ".", "s", "/", "%h"], ["%d", "/", "k", "1"], ["k", "-", "%u", "-", "%r"], ["/", "e", "/", "%l", "_", "%C"],
                     ["i", "d", "_", "%h", "_", "%r"], ["k", "2"], ["~", "/", "k", "3"], ["%h"]],
    "proxycommand": [list("ssh -W ") + ["%h", ":", "%p", " ", "g", "w"], ["~", "/", "p", " ", "%r", "@", "%h"], list("nc ") + ["%h", " ", "%p"], ["c"]],
    "controlpath": [["/", "t", "/", "%C"], ["%h", "-", "%p", "-", "%r"], ["%n", "_", "%L", "_", "%l", "_", "%u"], ["/", "t", "/", "%r", "@", "%h", ":", "%p"]],
    "proxyjump": [["%r", "@", "j", ":", "%p"], ["j", ".", "%h"]],
    "compression": [["y", "e", "s"], ["n", "o"]],
    "forwardagent": [["y", "e", "s"], ["n", "o"]],
    "serveraliveinterval": [["6", "0"], ["5"]],
}
KEY_WEIGHTS = ["hostname"] * 4 + ["user"] * 3 + ["port"] * 3 + ["identityfile"] * 5 + ["proxycommand"] * 5 + ["controlpath"] * 3 + \
              ["proxyjump", "compression", "compression", "forwardagent", "serveraliveinterval"]


def rnd_body(rnd, maxlines=4):
    body, used_ident = [], set()
    for _ in range(rnd.randint(0, maxlines)):
        k = rnd.choice(KEY_WEIGHTS)
        if k == "proxycommand" and rnd.random() < 0.3:
            body.append({"k": k, "v": list("none"), "none": True})
            continue
        v = rnd.choice(VALUES[k])
        if k == "identityfile":
            if tuple(v) in used_ident and rnd.random() < 0.7:      # now and then a value repeated inside one block
                continue
            used_ident.add(tuple(v))
        body.append({"k": k, "v": v, "none": False})
    return body


USER_PATS = [["r", "*"], ["r", "o", "o", "t"], ["a", "?"], ["m", "e"], ["*"], ["a", "*"]]


def rnd_block(rnd):
    r = rnd.random()
    blk = {"implicit": False, "pats": [], "crit": []}
    if r < 0.65:
        blk["kind"] = "host"
        blk["pats"] = rnd_patterns(rnd)
    else:
        blk["kind"] = "match"
        form = rnd.choice(["all", "final", "originalhost", "originalhost", "host", "user", "final+originalhost", "originalhost+user"])
        crit = []
        for t in form.split("+"):
            if t in ("all", "final"):
                crit.append({"type": t, "neg": False, "pats": []})
            elif t == "user":
                crit.append({"type": t, "neg": rnd.random() < 0.2, "pats": [{"neg": False, "p": rnd.choice(USER_PATS)}]})
            else:
                crit.append({"type": t, "neg": rnd.random() < 0.25, "pats": rnd_patterns(rnd, 2)})
        blk["crit"] = crit
    blk["body"] = rnd_body(rnd)
    return blk


def rnd_config(rnd):
    pre = {"kind": "host", "implicit": True, "pats": [{"neg": False, "p": ["*"]}], "crit": [], "body": rnd_body(rnd, 2) if rnd.random() < 0.4 else []}
    return [pre] + [rnd_block(rnd) for _ in range(rnd.choice([1, 2, 3, 4, 6, 8, 12]))]


IDENT_POOL = [["k", "1"], ["~", "/", "k", "2"], ["i", "d", "_", "%h"], ["%d", "/", "k"], ["k", "-", "%u"], ["k", "3"]]


def identity_stratum(rnd):
    """1-3 blocks that all apply to the looked-up name, each with an IdentityFile list drawn WITH repeats from a
    2-3 value alphabet (a repeat inside the first contributing block, inside a later one, and of a value an earlier
    block already gave), optionally with a block in between that does not apply"""
    host = rnd_host(rnd)
    alpha = rnd.sample(IDENT_POOL, rnd.choice([2, 3]))
    blocks = [{"kind": "host", "implicit": True, "pats": [{"neg": False, "p": ["*"]}], "crit": [], "body": []}]
    n = rnd.choice([1, 2, 2, 3, 3])
    for b in range(n):
        shape = rnd.random()
        if shape < 0.45:
            blk = {"kind": "host", "pats": [{"neg": False, "p": rnd.choice([["*"], list(host), [host[0], "*"], ["?"] * len(host)])}], "crit": []}
        elif shape < 0.6:
            blk = {"kind": "host", "pats": [{"neg": False, "p": ["*"]}, {"neg": True, "p": ["z", "z"]}], "crit": []}
        elif shape < 0.8:
            blk = {"kind": "match", "pats": [], "crit": [{"type": "originalhost", "neg": False, "pats": [{"neg": False, "p": list(host)}]}]}
        elif shape < 0.9:
            blk = {"kind": "match", "pats": [], "crit": [{"type": "all", "neg": False, "pats": []}]}
        else:
            blk = {"kind": "match", "pats": [], "crit": [{"type": "final", "neg": False, "pats": []}]}
        blk["implicit"] = False
        blk["body"] = [{"k": "identityfile", "v": rnd.choice(alpha), "none": False} for _ in range(rnd.choice([1, 2, 3, 3, 4]))]
        if rnd.random() < 0.3:
            blk["body"].insert(rnd.randint(0, len(blk["body"])), {"k": "user", "v": ["a", "b"], "none": False})
        blocks.append(blk)
        if rnd.random() < 0.25:
            blocks.append({"kind": "host", "implicit": False, "pats": [{"neg": False, "p": ["z", "z", "z"]}], "crit": [],
                           "body": [{"k": "identityfile", "v": rnd.choice(IDENT_POOL), "none": False}]})
    if rnd.random() < 0.3:
        blocks[0]["body"] = [{"k": "identityfile", "v": rnd.choice(alpha), "none": False} for _ in range(rnd.choice([1, 2]))]
    return blocks, [host, rnd_host(rnd)]


def match_host_stratum():
    """FIXED family (no randomness): a block that sets HostName, a `Match host <pattern>` block that applies only
    through that configured HostName (not through the looked-up name), and another applying block that sets the same
    option - in three orders, with and without a trailing `Match final` block.  Looked up: the alias and the real name."""
    P = lambda txt, neg=False: {"neg": neg, "p": list(txt)}                          # noqa: E731
    L = lambda k, v: {"k": k, "v": list(v), "none": False}                         # noqa: E731
    host_blk = lambda pats, body: {"kind": "host", "implicit": False, "pats": pats, "crit": [], "body": body}     # noqa: E731
    match_blk = lambda crit, body: {"kind": "match", "implicit": False, "pats": [], "crit": crit, "body": body}  # noqa: E731
    real = "bb.cc"
    setters = [host_blk([P("a")], [L("hostname", real)]),
               match_blk([{"type": "originalhost", "neg": False, "pats": [P("a")]}], [L("hostname", real)]),
               host_blk([P("a"), P("ab")], [L("user", "me"), L("hostname", real)])]
    patterns = [[P(real)], [P("*.cc")], [P("b?.cc"), P("zz", True)], [P("*.cc"), P("a", True)]]
    options = [("compression", "yes", "no"), ("port", "2222", "80"), ("forwardagent", "yes", "no")]
    thirds = [lambda b: host_blk([P("*")], b), lambda b: match_blk([{"type": "all", "neg": False, "pats": []}], b)]
    out, n = [], 0
    for si, setter in enumerate(setters):
        for pi, pats in enumerate(patterns):
            for order in ("HML", "HLM", "MHL"):
                for final in (False, True):
                    key, v1, v2 = options[n % len(options)]
                    third = thirds[(n // 3) % 2]
                    n += 1
                    blocks = {"H": setter,
                              "M": match_blk([{"type": "host", "neg": False, "pats": pats}], [L(key, v1), L("controlpath", "/m")]),
                              "L": third([L(key, v2), L("proxyjump", "j")])}
                    cfg = [{"kind": "host", "implicit": True, "pats": [P("*")], "crit": [], "body": []}] + [blocks[x] for x in order]
                    if final:
                        cfg.append(match_blk([{"type": "final", "neg": False, "pats": []}], [L(key, "f"), L("serveraliveinterval", "5")]))
                    out.append((cfg, [list("a"), list(real)]))
    return out


def show(cfg):
    return drv.cfg_render(cfg)


def run(c):
    rnd = random.Random(c.seed)
    q = c.quick
    stage, t0 = {}, time.time()
    # ---- M: pinned parse / pinned expansion order must each yield a counterexample to FirstObtained
    pinned = [(dict(pin_snapshot=True, keep_repeats=True, strict=False), "MC_PreSome", 1, "seeded error: later IdentityFile values filtered against a snapshot of the list"),
              (dict(pin_none=True), "MC_PreNone", 1, "pinned parse: ProxyCommand none stored unconditionally"),
              (dict(pin_order=True), "MC_PreSome", 1, "pinned expansion: %h taken from hostname in dict order"),
              (dict(pin_match_host=True, universe=("MC_HeadersMH", "MC_BodiesMH")), "MC_PreNone", 3,
               "seeded error: Match host consults the obtained HostName in the final pass only")]
    if not q:        # ... and the family it needs (HostName setter, Match host through it, same option later) holds for the code's rule
        c.mc_holds("SshConfig_MC", mc_cfg("MC_HeadersMH", "MC_BodiesMH", "MC_PreNone", 3), name="Match host through the obtained HostName", workers=16)
    if not q and not STRICT_FIRST_BLOCK:     # the code's first-block copy against the OpenSSH reading, and the repaired parse
        pinned.append((dict(keep_repeats=True, strict=True), "MC_PreNone", 1, "strict reading: a repeat inside the first contributing block survives"))
        c.mc_holds("SshConfig_MC", mc_cfg("MC_HeadersCore", "MC_BodiesCore", "MC_PreNone", 2, keep_repeats=False, strict=True),
                   name="strict reading with parse-time de-duplication", workers=16)
    n_sens = 4 if len(pinned) >= 4 else len(pinned)
    for kw, pre, mb, name in ([pinned[c.seed % n_sens]] if q else pinned):      # quick: one of the four per seed
        kw = dict(kw)
        hs, bs = kw.pop("universe", ("MC_HeadersCore", "MC_BodiesCore"))
        c.mc("SshConfig_MC", mc_cfg(hs, bs, pre, mb, **kw), expect="FirstObtained", name=name, workers=4)
    # repaired walk against the declarative statement; one CASE per (config, host)
    if q:
        runs = [("MC_HeadersCore", "MC_BodiesCore", "MC_PreNone", 2)]
    else:
        runs = [("MC_HeadersMore", "MC_BodiesCore", "MC_PreNone", 2), ("MC_HeadersCore", "MC_BodiesMore", "MC_PreSome", 2)]
    cases = []
    for hs, bs, ps, mb in runs:
        emit = True
        for nw in (4, 1):      # single-line prints survive several workers; if a line is ever damaged, once more with one
            r = c.mc_holds("SshConfig_MC", mc_cfg(hs, bs, ps, mb, invariants=INVS + (["Emit"] if emit else [])),
                           name="repaired walk %s x %s, %d blocks" % (hs, bs, mb), workers=nw)
            try:
                got = [tla.parse(cs[1]) for cs in r.printed("CASE")]      # [cfg, host, stable]; one single-line print per walk
            except Exception:                                              # noqa
                got = []
            m = re.search(r"Finished computing initial states: (\d+) distinct", r.out)
            if m and int(m.group(1)) == len(got):
                break
        if not m or int(m.group(1)) != len(got):
            raise Machinery("expected one CASE per initial state: %s vs %d" % (m and m.group(1), len(got)))
        cases += got
    if not cases:
        raise Machinery("no CASE emitted")
    if not any(cs[2] for cs in cases):
        raise Machinery("model never reaches an unambiguous configuration")
    stage["model_checking_s"] = round(time.time() - t0, 1)
    # ---- RP: group by config, render, run the real parser/lookup
    env = drv.cfg_env()
    by_cfg = {}
    for cfg, host, stable in cases:
        key = json.dumps(cfg, sort_keys=True)
        by_cfg.setdefault(key, (cfg, []))[1].append(host)
    items = list(by_cfg.values())
    n_cfg = len(items)
    if q and len(items) > 1200:
        items = rnd.sample(items, 1200)
    records = []
    for cfg, hosts in items:
        text = drv.cfg_render(cfg, rnd if rnd.random() < 0.5 else None)
        gh, lookups = drv.cfg_observe(text, hosts)
        records.append({"cfg": cfg, "env": env, "gh": gh, "lookups": lookups, "text": text})
        for h in hosts:
            c.case(key=text + "|" + "".join(h))
    n_rp = len(records)
    stage["replay_s"] = round(time.time() - t0, 1)
    # ---- TV: random configs of up to 12 blocks, three hostnames each
    for _ in range(500 if q else 8000):
        cfg = rnd_config(rnd)
        hosts = [rnd_host(rnd) for _ in range(3)]
        text = drv.cfg_render(cfg, rnd)
        gh, lookups = drv.cfg_observe(text, hosts)
        records.append({"cfg": cfg, "env": env, "gh": gh, "lookups": lookups, "text": text})
        for h in hosts:
            c.case(key=text + "|" + "".join(h),
                   sample={"config": text, "host": "".join(h), "lookup": {e["k"]: ["".join(v) for v in e["vals"]] for e in lookups[0]["opts"]}}
                   if len(c.samples) < 3 and len(cfg) > 3 and h is hosts[0] else None)
    # fixed stratum: IdentityFile lists with repeats over 1-3 applying blocks
    for _ in range(150 if q else 2500):
        cfg, hosts = identity_stratum(rnd)
        text = drv.cfg_render(cfg, rnd if rnd.random() < 0.5 else None)
        gh, lookups = drv.cfg_observe(text, hosts)
        records.append({"cfg": cfg, "env": env, "gh": gh, "lookups": lookups, "text": text})
        for h in hosts:
            c.case(key=text + "|" + "".join(h),
                   sample={"config": text, "host": "".join(h), "lookup": {e["k"]: ["".join(v) for v in e["vals"]] for e in lookups[0]["opts"]}}
                   if len(c.samples) < 4 and len(cfg) > 2 and h is hosts[0] else None)
    # fixed stratum: `Match host` that applies through the HostName obtained so far, and a later block with the same option
    for cfg, hosts in match_host_stratum():
        text = drv.cfg_render(cfg)
        gh, lookups = drv.cfg_observe(text, hosts)
        records.append({"cfg": cfg, "env": env, "gh": gh, "lookups": lookups, "text": text})
        for h in hosts:
            c.case(key=text + "|" + "".join(h),
                   sample={"config": text, "host": "".join(h), "lookup": {e["k"]: ["".join(v) for v in e["vals"]] for e in lookups[0]["opts"]}}
                   if len(c.samples) < 5 and h is hosts[0] else None)
    stage["random_s"] = round(time.time() - t0, 1)
    c.traces += sum(len(r["lookups"]) for r in records)
    seen = {}
    chunk = 3000
    for lo in range(0, len(records), chunk):
        part = records[lo:lo + chunk]
        for nw in (4, 1):
            try:
                res, _ = c.trace("SshConfig_Trace", [{k: r[k] for k in ("cfg", "env", "gh", "lookups")} for r in part], TRACE_CFG, heap="8g",
                                 workers=nw, env={"_JAVA_OPTIONS": "-Xss64m"})      # 12-block configs nest the fold deeply
                rows = [tla.parse(row[1]) for row in res["VERDICT"]]
                if len(res["DONE"]) == len(part):
                    break
            except Exception:                 # noqa: a damaged print line, whatever it breaks
                if nw == 1:
                    raise
        if len(res["DONE"]) != len(part):
            raise Machinery("trace validation consumed %d of %d records" % (len(res["DONE"]), len(part)))
        for tid, line, bad in rows:
            rec = part[tid - 1]
            q_ = rec["lookups"][line - 1]
            for name, detail in bad:
                key = name if name.startswith(("P_value", "C_")) or not detail else name + ":" + detail
                if name == "P_value:unexplained":
                    key = name + ":" + detail
                seen[key] = seen.get(key, 0) + 1
                got = {e["k"]: ["".join(v) for v in e["vals"]] for e in q_["opts"]}
                if name.startswith("P_get_hostnames") or name.startswith("C_get_hostnames"):
                    what = "get_hostnames() on a parseable config: %s (%s)" % (name, rec["gh"]["raised"] or ["".join(p) for p in rec["gh"]["pats"]])
                else:
                    what = "lookup(%r): clause %s%s; observed %s" % ("".join(q_["host"]), name, " for option " + detail if detail else "",
                                                                   got.get(detail, got) if detail else (q_["raised"] or got))
                if name.startswith("P_"):
                    c.violation(key, what, {"config_text": rec["text"], "hostname": "".join(q_["host"]), "observed": got,
                                            "get_hostnames": rec["gh"]})
                else:
                    c.conformance(key, what)
    stage["trace_validation_s"] = round(time.time() - t0, 1)
    c.extra["stage_clock"] = stage
    c.extra["clauses_seen"] = seen
    c.extra["replayed_configs"] = n_rp
    c.extra["exhaustive"] = n_cfg == n_rp      # the model checking is exhaustive; the replay only if no config was sampled out
    c.extra["enumerated_configs"] = n_cfg
    c.rule = ("every config TLC builds from the header universe (Host with wildcard/negated patterns, Match all/final/originalhost[/host/user]) x body "
              "universe (repeated keys, ProxyCommand none, IdentityFile lists, tokens) with <= 2 explicit blocks x 3 names (quick tier: a seeded sample of 1200 of these configs), rendered and run through SSHConfig; "
              "+ seeded random configs of 1-12 blocks x 3 names with spelling/spacing variants + a stratum of 1-3 applying blocks whose IdentityFile "
              "lists repeat values (inside the first contributing block, inside later ones, across blocks) + a fixed family of 72 configs "
              "(HostName-setting block, `Match host` applying only through that HostName, another block with the same option; 3 orders, "
              "with/without `Match final`) x 2 names; distinct = distinct (config text, hostname)")
    c.assumptions = ["POSIX fnmatch semantics; patterns use only * and ?", "the local user/home/hostname/fqdn do not change during the run"]
