META = {
    "level": "model_checking",
    "technique": "statement-grain PlusCal/TLA+ model of PosixPipe/OrPipe with BufferedPipe critical sections (OrPipe.tla) model-checked by TLC from every initial buffer state; real Channel after fileno() run under linesched with a switch point at every source line of pipe.py (exhaustive schedules, bounded preemptions); each schedule's log + select() observation validated by TLC (OrPipe_Trace.tla); fileno() itself - several first callers at once, set_combine_stderr(True) afterwards - is a second statement-grain model (Fileno.tla) with its own schedules (line-level switch points in channel.py) and trace spec (Fileno_Trace.tla)",
    "text": "TLC checks 'readable iff data or EOF at quiescent points' and 'no thread blocks in clear()' over all statement-level interleavings of transport feeds/EOF and two readers; the unlocked design (toggle) must produce the race; for fileno(): every descriptor handed to a caller is the channel's one pipe and tracks the data, also after stderr is combined into stdout (seeded errors: test-before-lock, empty() keeping the event, must be refuted). The real classes are then driven through all schedules with <= 2 preemptions of small programs (plus random schedules of larger ones) and TLC judges select() against the replayed buffer contents",
    "note": "trusted: TLC/pcal, linesched (one thread at a time; line-level switch points in pipe.py, sync-level elsewhere), select() on the real descriptor; quiescent = all threads finished",
}
import random
from harness.core import cfg_text, Machinery
from harness.drivers import pipes

INVS = ["ReadableIffData", "NeverStuck"]


def consts(o, e, ops, fix, eof=False, cwc=False):
    return {"InitOut": o, "InitErr": e, "InitEof": eof, "MaxOps": ops, "FixLocks": fix, "ClearWhenClosed": cwc,
            "defaultInitValue": 0}


def run(c):
    inits = [(1, 0), (1, 1)] if c.quick else [(0, 0), (1, 0), (0, 1), (1, 1), (2, 0)]
    for (o, e) in inits:
        c.mc_holds("OrPipe", cfg_text(constants=consts(o, e, 2, True), invariants=INVS), name="locked init=%d,%d" % (o, e))
    c.mc_holds("OrPipe", cfg_text(constants=consts(1, 1, 2, True, eof=True), invariants=INVS), name="EOF received before fileno(), both streams hold data")
    c.mc("OrPipe", cfg_text(constants=consts(1, 1, 2, True, eof=True, cwc=True), invariants=INVS),
         expect="ReadableIffData", name="sensitivity: read() clears the event although the buffer is closed")
    if not c.quick:
        c.mc_holds("OrPipe", cfg_text(constants=consts(1, 1, 3, True), invariants=INVS), name="locked 3 ops", timeout=1500)
    if c.quick:
        c.mc("OrPipe", cfg_text(constants=consts(1, 0, 2, False), invariants=INVS),
             expect="ReadableIffData|NeverStuck", name="sensitivity: unlocked OrPipe/PosixPipe (pinned tree before the fix)")
    else:
        c.mc("OrPipe", cfg_text(constants=consts(1, 0, 2, False), invariants=["ReadableIffData"]),
             expect="ReadableIffData", name="sensitivity: unlocked OrPipe/PosixPipe (pinned tree before the fix)")
        c.mc("OrPipe", cfg_text(constants=consts(1, 0, 2, False), invariants=["NeverStuck"]),
             expect="NeverStuck", name="sensitivity: unlocked, reader blocks in os.read")

    # ---- fileno() itself: several first callers at once (Fileno.tla)
    fcon = lambda o, e, rc, cmb=False, keep=False: {"Callers": {"A", "B"} if c.quick else {"A", "B", "C"}, "InitOut": o, "InitErr": e, "Feeds": 2,
                                                    "Recheck": rc, "Combines": cmb, "EmptyKeepsEvent": keep}
    for (o, e) in [(1, 0), (0, 0)]:
        c.mc_holds("Fileno", cfg_text(constants=fcon(o, e, True), invariants=["DescriptorTracksData", "OneDescriptor"], deadlock=False),
                   name="concurrent fileno() init=%d,%d" % (o, e), workers=4)
    c.mc("Fileno", cfg_text(constants=fcon(0, 0, False), invariants=["DescriptorTracksData"], deadlock=False),
         expect="DescriptorTracksData", name="sensitivity: fileno() tests for the pipe before taking the lock", workers=4)
    c.mc_holds("Fileno", cfg_text(constants=fcon(0, 1, True, cmb=True), invariants=["DescriptorTracksData", "OneDescriptor"], deadlock=False),
               name="fileno(), then set_combine_stderr(True) and stdout drained", workers=4)
    c.mc("Fileno", cfg_text(constants=fcon(0, 1, True, cmb=True, keep=True), invariants=["DescriptorTracksData"], deadlock=False),
         expect="DescriptorTracksData", name="sensitivity: BufferedPipe.empty() leaves the event set", workers=4)
    fbatch, fmeta = [], []
    for pi, prog in enumerate(pipes.fileno_programs()):
        cap = (10 if prog.get("R") else 40) if c.quick else (40 if prog.get("R") else 80)
        for ex in pipes.fileno_explore(prog, "dfs", 1, cap, c.seed):
            fbatch.append(ex.verdict)
            fmeta.append({"fileno_program": prog, "choices": ex.choices, "labels": ex.labels})
            c.case(key=("fn%d" % pi, tuple(ex.choices)))
        for ex in pipes.fileno_explore(prog, "random", 0, (2 if prog.get("R") else 5) if c.quick else 15, c.seed * 77 + pi):
            fbatch.append(ex.verdict)
            fmeta.append({"fileno_program": prog, "choices": ex.choices, "labels": ex.labels})
            c.case(key=("fnr%d" % pi, tuple(ex.choices)))
    fres, _ = c.trace("Fileno_Trace", fbatch)
    if len(fres["DONE"]) != len(fbatch):
        raise Machinery("trace validation consumed %d of %d fileno traces" % (len(fres["DONE"]), len(fbatch)))
    c.traces += len(fbatch)

    def fdescribe(tid, clause, row):
        m = fmeta[tid - 1]
        return ("%s_concurrent_fileno" % clause,
                "%s: concurrent first fileno() calls, program %r, schedule %r, observation %r" % (
                    clause, m["fileno_program"], m["labels"][:60], fbatch[tid - 1]["obs"]),
                {"fileno_program": m["fileno_program"], "choices": m["choices"]})
    c.verdicts(fres["VERDICT"], fdescribe)

    rnd = random.Random(c.seed)
    fixed = [
        {"init": (1, 0), "T": ["f2"], "R1": ["r1"], "R2": []},
        {"init": (0, 1), "T": ["f1"], "R1": [], "R2": ["r2"]},
        {"init": (1, 1), "T": ["eof"], "R1": ["r1"], "R2": ["r2"]},
        {"init": (1, 0), "T": ["f2", "f1"], "R1": ["r1", "r1"], "R2": ["r2"]},
        {"init": (0, 0), "T": ["f1", "eof"], "R1": ["r1"], "R2": ["r2"]},
        {"init": (2, 0), "T": ["f2", "f2"], "R1": ["r1"], "R2": ["r2"]},
        # EOF arrived before fileno() was ever called; both streams still hold data
        {"init": (1, 1, 1), "T": [], "R1": ["r1"], "R2": ["r2"]},
        {"init": (2, 0, 1), "T": [], "R1": ["r1", "r1"], "R2": ["r2"]},
    ]
    batch, meta = [], []
    progs = fixed + pipes.c24_programs(rnd, 4 if c.quick else 24)
    for pi, prog in enumerate(progs):
        k = 0
        for ex in pipes.c24_explore(prog, "dfs", 2, 120 if c.quick else 600, c.seed):
            k += 1
            v = ex.verdict
            batch.append(v)
            meta.append({"program": prog, "choices": ex.choices, "labels": ex.labels, "stuck": ex.stuck, "hang": ex.hang})
            c.case(key=("p%d" % pi, tuple(ex.choices)),
                   sample={"program": prog, "schedule": ex.labels[:40], "trace": v} if k == 5 and pi < 3 else None)
    for pi, prog in enumerate(pipes.c24_programs(rnd, 6 if c.quick else 50)):
        for ex in pipes.c24_explore(prog, "random", 0, 20 if c.quick else 60, c.seed * 1000 + pi):
            batch.append(ex.verdict)
            meta.append({"program": prog, "choices": ex.choices, "labels": ex.labels, "stuck": ex.stuck, "hang": ex.hang})
            c.case(key=("r%d" % pi, tuple(ex.choices)))
    for b in batch:      # JSON-friendly observation for non-quiescent runs
        if b["obs"] is None:
            b["obs"] = {"readable": False, "out": 0, "err": 0, "eof": False, "closed": False}
    done = 0
    CH = 5000
    for i in range(0, len(batch), CH):
        res, _ = c.trace("OrPipe_Trace", batch[i:i + CH])
        done += len(res["DONE"])

        def describe(tid, clause, row, i=i):
            m = meta[i + tid - 1]
            p = m["program"]
            key = "%s" % clause
            return key, "%s: program %r, schedule %r, observation %r" % (clause, p, m["labels"], batch[i + tid - 1]["obs"]), \
                {"program": p, "choices": m["choices"]}
        c.verdicts(res["VERDICT"], describe)
    if done != len(batch):
        raise Machinery("trace validation consumed %d of %d traces" % (done, len(batch)))
    c.traces += len(batch)
    for m in meta:
        if m["stuck"]:
            c.conformance("thread_stuck_in_native_call", "a thread blocked in os.read() inside PosixPipe.clear: program %r schedule %r" % (m["program"], m["labels"]))
    c.rule = "programs: transport thread (1-2 of feed stdout / feed stderr / EOF) x reader(stdout) x reader(stderr), from every initial buffer state; every schedule with <= 2 preemptions at line grain in pipe.py (DFS, capped per program) + seeded random schedules; distinct = (program, schedule)"
    c.assumptions = ["readers use the non-blocking read an application issues after select()", "POSIX pipe (WindowsPipe not exercised)"]
