META = {
    "level": "model_checking",
    "technique": "TLA+ state machine of one agent signing round trip (AgentSign.tla: BuildRequest/Send/AgentReply/Deliver) model-checked by TLC over every (algorithm name, key kind, reply type); each TLC-emitted case replayed on the real AgentKey.sign_ssh_data over a fake agent connection that records the bytes; recorded request frames and outcomes of seeded random cases validated by TLC against the same clause operators (AgentSign_Trace.tla)",
    "text": "TLC enumerates algorithm names (None, the 14 names paramiko passes, 12 unknown/near-miss names) x key kinds (RSA, Ed25519, ECDSA 256/384/521, their certificates, an unknown key type) x agent reply types, checks on the model that exactly one SIGN_REQUEST with the key blob, the data and flags 2/4 exactly for the rsa-sha2-256/512 names and certificate forms (else 0) is sent and that only a SIGN_RESPONSE returns (its signature unchanged), and emits every case; each case is run on the real AgentKey/AgentSSH._send_message and the bytes written to the connection are split by field and judged by TLC; seeded random cases add mutated algorithm names, data of 0..70000 bytes, random reply bodies and fragmented agent replies",
    "note": "trusted: TLC, the fake connection, the struct-based splitter of the request frame and the byte-equality look-ups that name the blob/data/signature; key fixtures are the repository's test keys and certificates; 'the key's public blob' is read as either the blob the agent listed or the plain public key inside a listed certificate (which of the two is a conformance clause); a 'non-signature reply' is a well-framed packet whose type is not 14",
}
import random
from harness.core import cfg_text, Machinery
from harness.drivers import codec

MUTATIONS = {"flags_swapped": "RequestOK", "no_cert_forms": "RequestOK", "both_flags": "RequestOK", "any_reply_accepted": "OutcomeOK"}
QUICK_REPLIES = [0, 1, 5, 6, 11, 12, 13, 14, 15, 29, 30, 142, 255]


def describe(rec):
    return "sign_ssh_data(algorithm=%r) with a %s key, agent answers type %d: sent %s, %s" % (
        None if rec["alg"] == codec.NONE_ALG else rec["alg"], rec["key"], rec["rtype"],
        [(f["type"], f["blob"], f["data"], f["flags"]) for f in rec["sent"]],
        rec["outcome"]["kind"] + ("" if rec["outcome"]["kind"] == "raised" else " " + rec["outcome"]["sig"]))


def key_of(clause, rec):
    # stable signature: the clause and the class of algorithm name that triggers it
    a = rec["alg"]
    if clause == "P_flags_not_zero":
        return "%s:%s" % (clause, "none" if a == codec.NONE_ALG else "ssh-rsa" if a.startswith("ssh-rsa") else
                          "passed-name" if a in codec.PASSED_ALGS or a.endswith(codec.CERT_SUFFIX) else "unknown-name")
    if clause.startswith("P_flags"):
        return "%s:%s" % (clause, a)
    if clause in ("P_key_blob", "C_blob_choice"):
        return "%s:%s" % (clause, rec["key"])
    if clause == "P_non_signature_accepted":
        return "%s:%d" % (clause, rec["rtype"]) if rec["rtype"] in QUICK_REPLIES else clause
    return clause


def judge(c, batch, fx):
    consts = {"Algs": {"<none>"}, "KeyKinds": {"rsa"}, "CertKinds": codec.cert_kinds(fx),
              "ReplyTypes": "@{14}", "Mutation": "none"}      # the trace spec takes the case from the record
    res, _ = c.trace("AgentSign_Trace", [{k: rec[k] for k in ("alg", "key", "rtype", "sent", "outcome")} for rec in batch],
                     cfg_text(spec="TSpec", constants=consts, invariants=["Report"]))
    if len(res["DONE"]) != len(batch):
        raise Machinery("trace validation consumed %d of %d traces" % (len(res["DONE"]), len(batch)))
    c.traces += len(batch)
    c.verdicts(res["VERDICT"], lambda tid, clause, row: (
        key_of(clause, batch[tid - 1]),
        "%s fails: %s%s" % (clause, describe(batch[tid - 1]), " [%s]" % batch[tid - 1]["error"] if batch[tid - 1]["error"] else ""),
        {k: v for k, v in batch[tid - 1].items() if k != "sent"}))
    return {row[1] for row in res["VERDICT"]}


def replay(c, rp):
    """bin/check C45 --replay replays/C45/<key>.json : same algorithm / key kind / reply type, fresh data of the same length"""
    fx = codec.agent_key_fixtures()
    rnd = random.Random(c.seed)
    data, sig = (bytes(rnd.getrandbits(8) for _ in range(rp.get(k, 32))) for k in ("datalen", "siglen"))
    rec = codec.run_agent_sign(fx, rp["key"], rp["alg"], rp["rtype"], data, sig)
    c.case(key=(rp["alg"], rp["key"], rp["rtype"]), sample=rec)
    judge(c, [rec], fx)
    c.rule = "replay of one recorded case"


def run(c):
    if getattr(c, "replay_file", None):
        import json
        return replay(c, json.load(open(c.replay_file))["replay"])
    fx = codec.agent_key_fixtures()
    algs = codec.agent_algs()
    replies = QUICK_REPLIES if c.quick else list(range(256))
    consts = {"Algs": set(algs), "KeyKinds": set(fx), "CertKinds": codec.cert_kinds(fx),
              "ReplyTypes": "@{%s}" % ", ".join(map(str, replies)), "Mutation": "none"}
    invs = ["TypeOK", "RequestOK", "NoEarlyResult", "OutcomeOK"]
    # ---- M
    r = c.mc_holds("AgentSign", cfg_text(constants=consts, invariants=invs + ["Emit"]), name="all cases", workers=1)
    cases = r.printed("CASE")
    if len(cases) != len(algs) * len(fx) * len(replies):
        raise Machinery("expected %d emitted cases, got %d" % (len(algs) * len(fx) * len(replies), len(cases)))
    small = dict(consts, ReplyTypes="@{5, 13, 14, 15}")
    for mut, inv in [kv for kv in MUTATIONS.items() if not c.quick or kv[0] == "no_cert_forms"]:
        c.mc("AgentSign", cfg_text(constants=dict(small, Mutation=mut), invariants=[inv]), expect=inv, name="mutation " + mut, workers=4)

    # ---- RP: spec -> code
    rnd = random.Random(c.seed)
    batch, expect = [], []
    for _, alg, kind, rtype, req, outcome in cases:
        data = bytes(rnd.getrandbits(8) for _ in range(rnd.choice([0, 1, 20, 32, 64])))
        sig = bytes(rnd.getrandbits(8) for _ in range(rnd.choice([0, 1, 64, 83, 276])))
        rec = codec.run_agent_sign(fx, kind, alg, rtype, data, sig, kwarg=rnd.random() < 0.7)
        batch.append(rec)
        expect.append((req, outcome))
        c.case(key=(alg, kind, rtype), sample=rec if (rtype == 14 and alg.startswith("rsa-sha2") and kind == "rsa-cert") else None)
    n_rp = len(batch)
    # ---- TV input: random names, data sizes, reply bodies, fragmented replies
    for _ in range(800 if c.quick else 30000):
        alg = rnd.choice(algs)
        m = rnd.random()
        if m < 0.25 and alg != codec.NONE_ALG:      # near misses of real names
            alg = rnd.choice([alg.upper(), alg + " ", alg[:-1], alg + "x", alg.replace("-", "_"), alg + codec.CERT_SUFFIX,
                              alg.replace("v01", "v00"), alg.replace("256", "384"), alg.replace("sha2", "sha3")])
        kind = rnd.choice(sorted(fx))
        rtype = rnd.choice([14, 14, 14, 5, 6, 12, 13, 15, rnd.randrange(256)])
        dl = rnd.choice([0, 1, 31, 32, 33, 255, 256, rnd.randrange(5000), 70000 if rnd.random() < 0.05 else 100])
        data = rnd.getrandbits(8 * dl).to_bytes(dl, "big") if dl else b""
        sl = rnd.choice([0, 1, 64, 83, 276, 532, rnd.randrange(2000)])
        sig = rnd.getrandbits(8 * sl).to_bytes(sl, "big") if sl else b""
        body = None
        if rtype != 14 and rnd.random() < 0.5:
            bl = rnd.choice([0, 0, 3, 4, 5, rnd.randrange(64)])
            body = rnd.getrandbits(8 * bl).to_bytes(bl, "big") if bl else b""
        chunks = [rnd.randint(1, 9) for _ in range(rnd.randint(0, 40))] if rnd.random() < 0.5 else None
        rec = codec.run_agent_sign(fx, kind, alg, rtype, data, sig, body=body, chunks=chunks, kwarg=rnd.random() < 0.7)
        batch.append(rec)
        c.case(key=(alg, kind, rtype, dl, sl))
    flagged = judge(c, batch, fx)
    for tid in range(1, n_rp + 1):
        rec, (req, outcome) = batch[tid - 1], expect[tid - 1]
        got = [{k: f[k] for k in ("type", "blob", "data", "flags")} for f in rec["sent"]]
        same = got == [req] and rec["outcome"] == outcome and all(f["framed"] for f in rec["sent"])
        # TLC (the oracle) has the last word: only "equals what TLC emitted, yet flagged by TLC" is a harness inconsistency
        if same and tid in flagged:
            raise Machinery("TLC flags a trace that equals what TLC emitted: %s" % describe(rec))
        if not same and tid not in flagged:
            c.conformance("differs_from_emitted_unflagged", "differs from the emitted case in a way no clause covers: " + describe(rec))
    if flagged and not (c.violations or c.known_hits or c.conf):
        raise Machinery("TLC flagged %d traces but no verdict was registered" % len(flagged))
    c.rule = ("every (algorithm name, key kind, reply type) over %d names x %d key kinds x %d reply types (TLC-enumerated) + seeded random "
              "cases with mutated names, data up to 70000 bytes, random reply bodies and fragmented replies; distinct = distinct "
              "(name, key kind, reply type[, data length, signature length])" % (len(algs), len(fx), len(replies)))
    c.extra["exhaustive"] = True
    c.assumptions = ["the agent answers with one well-framed packet; its type decides whether it is a signature",
                     "key blobs come from the repository's test keys/certificates (RSA, Ed25519, ECDSA P-256/384/521) and one unknown key type"]
