META = {
    "level": "model_checking",
    "technique": "TLA+ model of both ends of one channel at critical-section grain (Channel.tla: window reservation in _wait_for_send_window, crediting in _check_add_window, hand-over to the transport as separate steps) model-checked by TLC for all interleavings of senders, readers and adjustment deliveries; TLC-simulated behaviours (Channel_Gen) replayed step by step on two real Channel objects under a deterministic thread scheduler (linesched) and compared message by message; schedules of the real code over the legal window / packet-size range logged at the wire and judged by TLC with the design spec's invariants (Channel_Trace.tla)",
    "text": "TLC checks, in the global order of hand-overs: data + extended-data bytes sent <= initial window + adjustments the peer has sent; every data message <= the peer's maximum packet size; adjustments sent <= bytes the application consumed. Mutated models (no window decrement, packet size ignored, acknowledgement larger than consumed) must violate the respective invariant. Real threads (send / send_stderr / sendall / sendall_stderr on both sides, recv / recv_stderr with random sizes, transport threads delivering adjustments at scheduler-chosen moments) run on two real channels with window sizes 32768..2^32-1 and packet sizes 4096..2^32-1; TLC recomputes the three sums after every logged event",
    "note": "trusted: TLC, linesched, the fake transport (hand-over order = wire order), the tap on BufferedPipe.read that logs consumed bytes when the read returns. Window sizes above 2^30 are passed to TLC rebased (harness/drivers/channel.py rebase()): exact for every clause while one scenario moves fewer than 2^30 bytes. paramiko keeps 64 bytes of slack below the peer's maximum packet size; the clause is the bound itself",
}
import random
import time
from harness.core import cfg_text, Machinery
from harness.drivers import channel as dc

INVS = ["WindowRespected", "PacketBound", "NoOverGrant"]
# the pinned tree: all three toggles off
BASE = dict(UsersA={"a1", "a2"}, UsersB={"b1"}, Daemons="@{}", OpsA="@{}", OpsB="@{}", MaxCalls=1, W0=3, MaxPkt=2, PeerMax=2,
            Thresh=0, SendN=3, Codes={1}, ReadSizes={1, 2}, Modes={"block"}, Loss=False,
            FixRace=False, FixSendall=False, FixCredit=False, Mut="none", SpinCap=3, HoldBack=False)
U = 4032
GEN = dict(BASE, OpsA={"send", "sendall", "send_err", "sendall_err", "recv"}, OpsB={"recv", "recv_err", "send", "send_err", "combine"},
           UsersB={"b1", "b2"}, MaxCalls=3, W0=10, Thresh=1, SendN=7, ReadSizes={1, 3, 12}, Modes={"block", "nonblock"})


def model(c, runs):
    jobs = [dict(name="both directions: 2+2 threads, send/send_stderr/recv, every adjust timing", module="Channel",
                 cfg=cfg_text(constants=dict(BASE, OpsA={"send", "send_err", "recv"}, UsersB={"b1", "b2"}, OpsB={"recv", "recv_err", "send"},
                                             W0=2, Thresh=1, ReadSizes={1, 3}), invariants=INVS)),
            dict(name="simulate (spec -> code)", module="Channel_Gen", simulate=True, expect="behaviours",
                 cfg=cfg_text(spec="GSpec", constants=dict(GEN, **dc.gen_variant()), invariants=["GenEmit"]),
                 kw=dict(workers=1, simulate="num=%d" % (40 if c.quick else 500), extra=["-depth", "200", "-seed", str(c.seed + 1)]))]
    comb = dict(BASE, UsersA={"a1"}, OpsA={"send_err", "send"}, OpsB={"recv", "recv_err", "combine"}, MaxCalls=3, SendN=2, ReadSizes={1, 3})
    jobs.append(dict(name="receiver calls set_combine_stderr(True) with stderr buffered: 1 sender x 3 calls, reader x 3 calls", module="Channel",
                     cfg=cfg_text(constants=comb, invariants=INVS)))
    jobs.append(dict(name="sensitivity: combine_credits (moved stderr bytes counted in in_window_sofar, credited again when read)", module="Channel",
                     expect="NoOverGrant", cfg=cfg_text(constants=dict(comb, Mut="combine_credits"), invariants=INVS)))
    # who opened the channel x who sends: "A" is the opener; the accepting side "B" sends under the limits of A's CHANNEL_OPEN
    acc = dict(BASE, UsersA={"a1"}, OpsA={"recv", "recv_err", "send"}, UsersB={"b1"}, OpsB={"send", "send_err", "sendall"}, MaxCalls=2, SendN=4)
    jobs.append(dict(name="the accepting side sends (limits from the peer's CHANNEL_OPEN), the opener reads and sends", module="Channel",
                     cfg=cfg_text(constants=acc, invariants=INVS)))
    jobs.append(dict(name="sensitivity: open_limit_shadowed (accepting side keeps its own maximum packet size)", module="Channel",
                     expect="PacketBound", cfg=cfg_text(constants=dict(acc, Mut="open_limit_shadowed"), invariants=INVS)))
    small = dict(BASE, OpsA={"sendall", "send_err"}, OpsB={"recv", "recv_err"}, SendN=4)
    for mut, inv in (("no_decrement", "WindowRespected"), ("ignore_maxpkt", "PacketBound"), ("over_ack", "NoOverGrant")):
        jobs.append(dict(name="sensitivity: " + mut, module="Channel", expect=inv, cfg=cfg_text(constants=dict(small, Mut=mut), invariants=INVS)))
    if not c.quick:
        jobs.append(dict(name="2 senders x 2 calls (send, sendall, send_stderr) vs reader x 2 calls", module="Channel",
                         kw={"timeout": 800, "workers": 6},
                         cfg=cfg_text(constants=dict(BASE, OpsA={"send", "sendall", "send_err"}, OpsB={"recv", "recv_err"}, MaxCalls=2),
                                      invariants=INVS)))
        for (w, p, t) in ((2, 3, 0), (4, 2, 1), (3, 1, 0), (5, 3, 2)):
            jobs.append(dict(name="window %d, packet %d, threshold %d, three timeout modes" % (w, p, t), module="Channel",
                             kw={"timeout": 800, "workers": 4},
                             cfg=cfg_text(constants=dict(BASE, OpsA={"sendall", "sendall_err"}, OpsB={"recv", "recv_err"}, W0=w, MaxPkt=p,
                                                         PeerMax=p, Thresh=t, SendN=w + 1, ReadSizes={2}, MaxCalls=1,
                                                         Modes={"block", "timed", "nonblock"}), invariants=INVS)))
    res = dc.mc_batch(c, jobs, parallel=12)
    gen = dict(GEN, **dc.gen_variant())
    behs = res["simulate (spec -> code)"].printed("BEH")
    if not behs:
        raise Machinery("Channel_Gen produced no behaviour\n%s" % res["simulate (spec -> code)"].out[-2000:])
    differ = 0
    for b in behs:
        diffs, ex, prog, plan = dc.replay_behaviour(b, gen, U)
        runs.add(prog, "tlc-behaviour", ex, plan)
        c.case(key=("beh", repr(b[1])), sample={"program": prog["threads"], "plan": plan[:40]} if len(b[1]) > 30 else None)
        if diffs:
            differ += 1
            c.conformance("replay_differs:" + diffs[0].split(":")[0], "real channels diverge from a Channel_Gen behaviour: %s; program %r plan %r" % (diffs[0], prog["threads"], plan))
    return len(behs), differ


WINS = [32768, 32769, 40000, 65536, 2 ** 31 - 1, 2 ** 31, 2 ** 32 - 1]
PKTS = [4096, 4097, 8192, 32768, 65536, 2 ** 32 - 1]


def programs(rnd, n):
    progs = []
    for _ in range(n):
        win = {"A": rnd.choice(WINS), "B": rnd.choice(WINS)}
        pkt = {"A": rnd.choice(PKTS), "B": rnd.choice(PKTS)}
        par = {"win": win, "pkt": pkt, "tmo": {"A": rnd.choice(["block", "block", "timed", "nonblock"]), "B": rnd.choice(["block", "timed", "nonblock"])}}
        th = {}
        # A sends towards B: the window that counts is win[B], the packet bound pkt[B]
        limit = min(pkt["B"], 2 ** 32 - 1) - 64
        sizes = [1, 4032, min(limit, 70000), min(limit + 1, 70000), min(win["B"], 70000), min(win["B"] + 1, 70000), 50000]
        for i in range(rnd.choice([1, 2, 2])):
            th["a%d" % (i + 1)] = [(rnd.choice(["send", "send_err", "sendall", "sendall_err"]), rnd.choice(sizes))
                                   for _ in range(rnd.choice([1, 2, 3]))]
        reads = [1, 100, 4096, 32768, 65536]
        if rnd.random() < 0.5:
            th["b1"] = [(rnd.choice(["recv", "recv_err"]), rnd.choice(reads)) for _ in range(rnd.choice([1, 2, 4]))]
            if rnd.random() < 0.5:        # the receiving application switches to combined stderr somewhere in between
                th["b1"].insert(rnd.randrange(len(th["b1"]) + 1), ("combine",))
            if rnd.random() < 0.4:
                th["b2"] = [(rnd.choice(["send", "sendall_err"]), rnd.choice([1, 5000, 40000]))]
                th["a3"] = [("recv", 65536), ("recv_err", 65536)]
        else:
            th["dB_out"] = [("recv_loop", rnd.choice(reads))]
            th["dB_err"] = [("recv_err_loop", rnd.choice(reads))]
        progs.append({"par": par, "threads": th})
    return progs


# stderr data buffered BEFORE set_combine_stderr(True): recv_stderr(1) returns once it is there, the rest is moved to stdout
FIXED = [
    # which side opened the channel x who sends: the limits are set by the real Transport.open_channel /
    # _parse_channel_open_success (opener A) and Transport._parse_channel_open (accepting side B), not by the harness
    {"open": {"A": "local", "B": "peer"}, "pkt": {"A": 4096, "B": 32768}, "win": {"A": 40000, "B": 2097152},
     "threads": {"b1": [("send", 20000), ("send_err", 20000)], "a1": [("recv", 65536), ("send", 40000)]}},
    {"open": {"A": "local", "B": "peer"}, "pkt": {"A": 8192, "B": 4096}, "win": {"A": 32768, "B": 32768},
     "threads": {"b1": [("sendall", 20000)], "b2": [("sendall_err", 9000)], "a1": [("sendall", 9000)], "dA_out": [("recv_loop", 4096)],
                 "dA_err": [("recv_err_loop", 4096)]}},
    {"open": {"A": "peer", "B": "local"}, "pkt": {"A": 32768, "B": 5000}, "win": {"A": 65536, "B": 65536},
     "threads": {"a1": [("send", 30000), ("send_err", 30000)], "b1": [("send", 40000)]}},
    {"threads": {"a1": [("send_err", 3000)], "b1": [("recv_err", 1), ("combine",), ("recv", 65536)]}},
    {"threads": {"a1": [("send_err", 20000), ("send", 5000)], "b1": [("recv_err", 100), ("combine",), ("recv", 4096), ("recv", 65536)]}},
    {"threads": {"a1": [("sendall_err", 30000)], "a2": [("sendall", 30000)], "b1": [("recv_err", 1), ("combine",)], "dB_out": [("recv_loop", 8192)]}},
]


def describe(clause, it, evs, l):
    par = it["prog"]["par"]
    what = "%s fails after event %d (%s): %s | windows %r packets %r program %r" % (
        clause, l, it["how"], dc.brief(evs, min(l, len(evs))), par["win"], par["pkt"], it["prog"]["threads"])
    return clause, what, dc.replay_record(it)


def run(c):
    rnd = random.Random(c.seed)
    runs = dc.Runs()
    t0 = time.time()
    nb, differ = model(c, runs)
    laps = {"model+replay_s": round(time.time() - t0, 1)}
    progs = []
    for p in FIXED:
        par = {"win": p.get("win", {"A": 32768, "B": 32768}), "pkt": p.get("pkt", {"A": 32768, "B": 32768}), "tmo": {"A": "block", "B": "block"}}
        if "open" in p:
            par["open"] = p["open"]
        progs.append({"par": par, "threads": p["threads"]})
    progs += programs(rnd, 10 if c.quick else 250)
    deadline = time.time() + (120 if c.quick else 600)   # safety net only: the schedule counts bound the exploration, so the result does not depend on machine load
    explored = dc.explore_into(runs, c, progs, 6 if c.quick else 150, 4 if c.quick else 40, deadline, bound=1 if c.quick else 2,
                               max_steps=2500, gap_runs=6)
    laps["explore_s"] = round(time.time() - t0 - laps["model+replay_s"], 1)
    dc.validate(c, runs, INVS, describe)
    laps["validate_s"] = round(time.time() - t0 - laps["model+replay_s"] - laps["explore_s"], 1)
    c.extra["laps"] = laps
    c.rule = ("M: windows 2-5, packet 1-3, threshold 0-2 (units), 2 sender threads + readers, both directions, every delivery timing of the "
              "adjustments, three timeout modes. RP: %d TLC-simulated behaviours (%d differing) driven on real channels and compared message by "
              "message. TV: %d of %d programs with windows from {32768, 32769, 40000, 65536, 2^31-1, 2^31, 2^32-1} and packet sizes from {4096, "
              "4097, 8192, 32768, 65536, 2^32-1} per direction, 1-2 sender threads x 1-3 calls of send/send_stderr/sendall/sendall_stderr with "
              "sizes around the packet and window bounds, bounded or looping readers with sizes 1..65536, under DFS with bounded preemptions "
              "(capped) + seeded random schedules; distinct = (program, schedule)" % (nb, differ, explored, len(progs)))
    c.assumptions = ["hand-over order at Transport._send_user_message = wire order",
                     "'consumed' = bytes returned by recv / recv_stderr (plus bytes the library discards and credits itself, if it ever does)",
                     "numbers above 2^30 reach TLC rebased (exact while a scenario moves < 2^30 bytes)"]
