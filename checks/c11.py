META = {
    "level": "model_checking",
    "technique": "TLA+ model of a re-exchange with in-flight connection-layer traffic, transport thread, user threads, clear_to_send and handler replies (Rekey.tla) model-checked by TLC incl. deadlock freedom (the pinned reply paths must be refuted); real transports on a latency-controlled in-memory link: every in-flight message kind x initiator x concurrent senders crosses a real re-exchange; outbound type sequences of both ends and the outcome validated by TLC (Rekey_Trace.tla)",
    "text": "TLC checks KexQuiet, SessionStaysUp, NoSelfWait and that every terminal state has completed the exchange with every in-flight request answered, over all delivery orders; on the code, the peer's message is held in the link until the initiator's KEXINIT is out, then released, with user threads sending meanwhile; TLC checks quietness between KEXINIT and NEWKEYS on both taps, completion, liveness of both ends, delivery of the in-flight message and integrity of the user data",
    "note": "scenarios also cover every user-level sending API of the initiator and its keepalive timer during the exchange (toggle UngatedUser) and 2-3 reply-wanting requests crossing the KEXINIT (toggle FlushSkips) and a burst of 24 channel/global requests whose 24 held-back replies must all come out in request order (invariant NoReplyLost, toggle DeferCap); trusted: TLC, netsched hold/release (the in-flight message really is behind the initiator's KEXINIT in time), tap order = wire order, clear_to_send_timeout lowered to 2 s (an instance attribute) so a stalled exchange shows quickly; real-time: a scenario gets a 6 s deadline",
}
import random
from harness.core import cfg_text, Machinery
from harness.drivers import rekey as rk


def consts(mode, a_client, inflight=("plain", "wants_user_reply", "wants_direct_reply"), n=2, u=2, lock=True, ungated=False, skips=False, cap=0):
    return {"ReplyMode": mode, "AIsClient": a_client, "Inflight": set(inflight), "MaxInflight": n, "UserMsgs": u,
            "KexinitTakesLock": lock, "UngatedUser": ungated, "FlushSkips": skips, "DeferCap": cap}


INVS = ["KexQuiet", "SessionStaysUp", "NoSelfWait"]
INVS_D = INVS + ["NoReplyLost"]      # deferred design: no held-back reply is ever dropped


def run(c):
    for a_client in (True, False):
        c.mc_holds("Rekey", cfg_text(constants=consts("deferred", a_client), invariants=INVS_D, deadlock=True),
                   name="deferred replies, initiator is %s" % ("client" if a_client else "server"))
    if not c.quick:
        c.mc_holds("Rekey", cfg_text(constants=consts("deferred", True, n=3, u=3), invariants=INVS_D, deadlock=True),
                   name="deferred replies, 3 in flight, 3 user messages")
    c.mc("Rekey", cfg_text(constants=consts("pinned", True, inflight=("plain", "wants_user_reply")), invariants=INVS, deadlock=True),
         expect="NoSelfWait|SessionStaysUp", name="sensitivity: reply via _send_user_message on the transport thread")
    c.mc("Rekey", cfg_text(constants=consts("pinned", True, inflight=("plain", "wants_direct_reply")), invariants=INVS, deadlock=True),
         expect="KexQuiet|SessionStaysUp", name="sensitivity: reply via _send_message during the exchange")

    c.mc("Rekey", cfg_text(constants=consts("deferred", True, inflight=("plain",), n=1, lock=False), invariants=INVS, deadlock=True),
         expect="KexQuiet|SessionStaysUp", name="sensitivity: KEXINIT sent without taking clear_to_send_lock (overtakes a user packet)")

    c.mc("Rekey", cfg_text(constants=consts("deferred", True, inflight=("plain",), n=1, ungated=True), invariants=INVS, deadlock=True),
         expect="KexQuiet|SessionStaysUp", name="sensitivity: a user-level send that does not consult clear_to_send (fire-and-forget request, keepalive)")

    c.mc("Rekey", cfg_text(constants=consts("deferred", True, inflight=("wants_user_reply", "wants_direct_reply"), n=2, u=0, skips=True), invariants=INVS, deadlock=True),
         expect="<deadlock>", name="sensitivity: the flush at NEWKEYS skips every second held-back reply (a request stays unanswered)")

    c.mc("Rekey", cfg_text(constants=consts("deferred", True, inflight=("wants_user_reply", "wants_direct_reply"), n=3, u=0, cap=1), invariants=INVS_D, deadlock=True),
         expect="NoReplyLost", name="sensitivity: the list of held-back replies is capped (cap 1, so at most 2 are kept; 3 requests cross): an older reply is dropped")

    rnd = random.Random(c.seed)
    batch = []
    kinds = [k for k in rk.KINDS]
    combos = [(i, k, s) for i in ("client", "server") for k in kinds for s in ((0, 2) if not c.quick else (rnd.choice([0, 2]),))]
    reps = 1 if c.quick else 3
    for rep in range(reps):
        for (init, kind, senders) in combos:
            obs = rk.run_scenario(init, kind, sender_threads=senders)
            if kind != "none" and obs["inflight_units"] == 0:
                raise Machinery("driver: message of kind %s never reached the held queue" % kind)
            batch.append(obs)
            c.case(key=(init, kind, senders), sample=obs if kind in ("close", "channel_open") and init == "server" else None)
    # a user thread stopped between the clear-to-send check and the packet write, while a re-exchange starts
    for init in ("client", "server"):
        for rep in range(1 if c.quick else 3):
            obs = rk.run_scenario(init, "gated_user_send")
            batch.append(obs)
            c.case(key=(init, "gated_user_send", 1), sample=obs if init == "client" and rep == 0 else None)
    # two (three) requests that want a reply cross the initiator's KEXINIT: every one of them must be answered after the exchange
    for init in ("client", "server"):
        for nreq in (2, 3):
            obs = rk.run_scenario(init, "requests_x%d" % nreq)
            batch.append(obs)
            c.case(key=(init, "requests_x%d" % nreq, 1))
    # a burst of 24 reply-wanting requests (known and unknown request types alternating, so the expected reply sequence
    # is a pattern of SUCCESS / FAILURE) crosses the KEXINIT: all 24 replies are held back and must all come out, in order
    for init in ("client", "server"):
        obs = rk.run_scenario(init, "requests_x24")
        if obs["inflight_units"] < 24:
            raise Machinery("driver: only %d of 24 requests reached the held queue" % obs["inflight_units"])
        batch.append(obs)
        c.case(key=(init, "requests_x24", 1), sample=obs if init == "server" else None)
    # every user-level sending API of the initiator used from application threads during the exchange, and its keepalive timer firing
    for init in ("client", "server"):
        for apis in ("user_apis", "keepalive_timer"):
            for rep in range(1 if c.quick else 3):
                obs = rk.run_scenario(init, apis)
                batch.append(obs)
                c.case(key=(init, apis, 1), sample=obs if init == "client" and rep == 0 and apis == "user_apis" else None)
    # a channel-open confirmation in flight while a second user thread opens a channel during the exchange
    for init in ("client",):      # open_channel is the same code in both roles; a client refuses server-opened sessions
        for rep in range(1 if c.quick else 3):
            obs = rk.run_scenario(init, "open_confirm_inflight")
            batch.append(obs)
            c.case(key=(init, "open_confirm_inflight", 1))
    clean = [{k: v for k, v in o.items() if k not in ("excs",)} for o in batch]
    res, _ = c.trace("Rekey_Trace", clean)
    if len(res["DONE"]) != len(batch):
        raise Machinery("trace validation consumed %d of %d traces" % (len(res["DONE"]), len(batch)))
    c.traces += len(batch)

    def describe(tid, clause, row):
        o = batch[tid - 1]
        key = "%s:%s:%s" % (clause, o["initiator"], o["kind"])
        return key, "%s: %s initiates, peer has '%s' in flight, %d sender threads: initiator out %r, completed %r, active %r/%r, delivered %r, %r %r" % (
            clause, o["initiator"], o["kind"], o["senders"], o["a_out"][:12], o["completed"], o["a_active"], o["b_active"],
            o["delivered"], o["rk_exc"], o["excs"]), o
    c.verdicts(res["VERDICT"], describe)
    c.rule = "initiator in {client, server} x in-flight message kind in {data, extended data, window adjust, EOF, CLOSE, channel request +/- reply, channel open, global request +/- reply, keepalive, none} x {0, 2} concurrent sender threads; the in-flight message is held in the link until the initiator's KEXINIT is on the wire; distinct = (initiator, kind, senders)"
    c.assumptions = ["explicit renegotiate_keys() as the trigger (threshold- and keepalive-triggered exchanges enter the same _send_kex_init; thresholds are exercised by C10)",
                     "real time: 6 s deadline per scenario, clear_to_send_timeout = 2 s"]
