META = {
    "level": "model_checking",
    "technique": "TLA+ model of run()'s shutdown block, Transport.close() and the wait loop of every blocking API (Shutdown.tla) model-checked by TLC: safety NoStuck + liveness (loss ~> inactive, loss ~> every caller returned) under weak fairness of each loop and no state constraint; TLC-generated schedules (Shutdown_Gen.tla: call before / in the middle of / at three points of the shutdown / after it) replayed on real transports over an in-memory link and a real ProxyCommand; event traces validated by TLC (Shutdown_Trace.tla)",
    "text": "the pinned wait loops (toggles FALSE) are refuted by TLC (accept, channel requests, ensure_session, ProxyCommand.recv), the repaired ones proved for the model; on the code each API x plan x loss kind {peer DISCONNECT, EOF, peer close, protocol error, local close(), proxy process exit, proxy stdout closed while the process lingers} x {no timeout, 60 s timeout} x {Transport, ServiceRequestingTransport} runs in a thread, the driver holds the shutdown or the call at the planned statement through instance-level wrappers, and records returned / raised / STILL_BLOCKED at a deadline; TLC decides P_inactive / P_returns on the event traces",
    "note": "trusted: TLC, netsched (in-memory link), instance-level wrappers that only log and delay, the stack probe that tells when a call is blocked (CPython sys._current_frames); real time: 'promptly' = deadline D (2 s quick, 3 s thorough = 20-30x the 0.1 s polling period), a miss is re-run once in a fresh session with 2D before it counts; a 'timeout set' call uses a 60 s timeout so a timeout never explains a return",
}
import random
import re
import threading
import time
from concurrent.futures import ThreadPoolExecutor

from harness.core import cfg_text, Machinery, run_tlc
from harness.drivers import shutdown as sd

STREAM = ["disconnect", "eof", "peer_close", "proto_error"]
KINDS = STREAM + ["local_close"]
API_QUICK = ["recv", "recv_stderr", "send", "sendall", "exec_command", "invoke_shell", "get_pty", "invoke_subsystem",
             "recv_exit_status",
             "open_channel", "open_session", "global_request", "request_port_forward", "renegotiate_keys", "auth_password",
             "srt_auth_password", "accept"]
API_MORE = ["auth_publickey", "srt_auth_publickey"]
LABEL = {"before": "before", "mid": "racing", "midlock": "racing", "at_unlink": "racing", "at_pclose": "racing",
         "at_sockclose": "racing", "after": "after", "race": "any"}
NTRACE = 4


def consts(apis, n=1, kinds=("eof", "local_close"), fix=True, omit="none", modes=("blocking", "timed"), nopoll=(),
           test_outside=False, role="server", wake_only_server=False, prior="none", eof_guard=False, eof_needs_exit=False, **kw):
    d = {"N": n, "Apis": set(apis), "Modes": set(modes), "LossKinds": set(kinds),
         "FixAccept": fix, "FixEvent": fix, "FixEnsure": fix, "FixProxy": fix, "Omit": omit,
         "EventTestOutside": test_outside, "Role": role, "WakeOnlyServer": wake_only_server,
         "PriorOp": prior, "EofGuardOnClose": eof_guard, "ProxyEofNeedsExit": eof_needs_exit, "NoPoll": "@{%s}" % ", ".join('"%s"' % x for x in nopoll)}
    d.update(kw)
    return d


SAFETY = ["TypeOK", "NoStuck", "ResultsInTable", "Order"]
LIVE = ["Inactive", "WaitersReturn"]


class Job:
    """one TLC run in its own work directory, so that several can run at the same time; `settle` does in the
    main thread what Check.mc / mc_holds do (counters, evidence entry, Machinery on the unexpected)"""
    def __init__(self, c, module, cfg, name, expect=None, workers=4, idx=0):
        self.c, self.module, self.cfg, self.name, self.expect = c, module, cfg, name, expect
        self.workers, self.idx, self.r, self.exc = workers, idx, None, None
        self.th = threading.Thread(target=self._run, daemon=True)
        self.th.start()

    def _run(self):
        try:
            self.r = run_tlc(self.module, self.cfg, self.c.work / ("mc%d" % self.idx), workers=self.workers)
        except Exception as e:
            self.exc = e

    def settle(self):
        self.th.join()
        c, r = self.c, self.r
        if self.exc is not None:
            raise Machinery("TLC could not be run for %s: %r" % (self.name, self.exc))
        props = re.findall(r"Temporal propert(?:y|ies) (.*?) (?:was|were) violated", r.out)
        violated = list(r.violated) + (["<temporal>"] if props and "<temporal>" not in r.violated else [])
        if props:
            r.error = None
        c.states += r.distinct
        c.transitions += r.generated
        c.mc_runs.append({"module": self.module, "name": self.name, "distinct": r.distinct, "generated": r.generated,
                          "depth": r.depth, "wall_s": round(r.wall, 1), "expect": self.expect or "holds",
                          "violated": violated + props})
        if r.error:
            raise Machinery("TLC failed on %s (%s): %s\n%s" % (self.module, self.name, r.error, r.out[-2500:]))
        if self.expect is None and violated:
            ce = r.counterexample()
            raise Machinery("design spec %s (%s) violates %s on the model itself:\n%s" % (
                self.module, self.name, violated + props, "\n".join("State %d: %s" % x for x in ce[-6:])[-2500:]))
        if self.expect is not None and not (set(self.expect.split("|")) & set(violated)):
            raise Machinery("sensitivity run %s: expected %s to be violated, TLC says %s" % (
                self.name, self.expect, violated or "no error"))
        return r

    def cases(self):
        r = self.settle()
        agg = {}
        for row in r.printed("CASE"):
            _, n_, api, mode, kind, plan, out = row
            agg.setdefault((n_, api, mode, kind, plan), set()).add(out)
        if not agg:
            raise Machinery("Shutdown_Gen (%s) emitted no case" % self.name)
        return agg


def realisable(api, kind, plan):
    fam = sd.family(api)
    if plan == "at_unlink" and (kind == "local_close" or fam in ("auth", "srtauth")):
        return False      # close() unlinks before run() gets there; no channel exists before authentication
    if plan == "mid" and fam not in sd.MID_HOOK:
        return False
    if plan == "midlock" and fam != "chanreq":
        return False
    return True


def norm_event(e):
    return {"ev": e["ev"], "w": int(e.get("w", 0)), "api": e.get("api", ""), "mode": e.get("mode", ""),
            "kind": e.get("kind", ""), "name": e.get("name", ""), "by": e.get("by", ""),
            "active": bool(e.get("active", False)), "how": e.get("how", ""), "blocked": list(e.get("blocked", []))}


def labels_of(obs):
    if "labels" in obs:
        lab = list(obs["labels"])
    elif obs["plan"] == "free":
        lab = [LABEL[cl[2]] for cl in obs["callers"]]
    else:
        lab = [LABEL[obs["plan"]]] * len(obs["callers"])
    return lab + ["none"] * (NTRACE - len(lab))


def hung(obs):
    return bool(obs["blocked"]) or bool(obs["active"])


class Runner:
    """runs tasks (each a list of alternative cases with the same expected key) on a thread pool; a miss is
    re-run once in a fresh session with twice the deadline before its observation is kept"""
    def __init__(self, c, D):
        self.c, self.D = c, D
        self.lock = threading.Lock()
        self.kept = []        # (case, obs)
        self.unrepro = []
        self.errors = []
        self.skipped = 0

    def one(self, case):
        fn, args = case["fn"], case["args"]
        obs = fn(*args, D=self.D)
        if hung(obs):
            obs2 = fn(*args, D=2 * self.D)
            if hung(obs2):
                obs2["retried"] = True
                return obs2, True
            with self.lock:
                self.unrepro.append((case["id"], obs["blocked"], obs["active"]))
            return obs2, False
        return obs, False

    def task(self, cases):
        confirmed = False
        for case in cases:
            if confirmed:
                with self.lock:
                    self.skipped += 1
                continue
            try:
                obs, confirmed = self.one(case)
            except Exception as e:
                with self.lock:
                    self.errors.append((case["id"], "%s: %s" % (type(e).__name__, e)))
                continue
            with self.lock:
                self.kept.append((case, obs))

    def run(self, tasks, workers):
        with ThreadPoolExecutor(max_workers=workers) as ex:
            list(ex.map(self.task, tasks))


def run(c):
    rnd = random.Random(c.seed)
    quick = c.quick
    apis = API_QUICK if quick else API_QUICK + API_MORE
    D = 2.0 if quick else 3.0

    # ------------------------------------------------------------------ M (the TLC runs overlap)
    papis = ["recv", "exec_command", "proxy_recv", "proxy_send"]
    njob = [0]

    def job(module, cfg, name, expect=None, workers=4):
        njob[0] += 1
        return Job(c, module, cfg, name, expect, workers, njob[0])

    def gen(fix, n, gapis, name):
        return job("Shutdown_Gen", cfg_text(spec="GSpec", constants=consts(gapis, n=n, kinds=("eof", "local_close"), fix=fix),
                                            invariants=["Emit"]), name, workers=1)

    # the model treats the four ways a stream can end alike (StreamKinds): generate for "eof", use for all
    def widen(agg):
        out = dict(agg)
        for (n_, api, mode, kind, plan), v in agg.items():
            if kind == "eof":
                for k in STREAM:
                    out[(n_, api, mode, k, plan)] = v
        return out
    g_f = gen(False, 1, apis, "schedules, pinned loops")
    g_r = gen(True, 1, apis, "schedules, repaired loops")
    later = [job("Shutdown", cfg_text(spec="FairSpec", constants=consts(apis + ["proxy_recv", "proxy_send"], n=1,
                                                                        kinds=("eof", "local_close", "proxy_exit", "proxy_eof")),
                                      invariants=SAFETY, properties=LIVE),
                 "repaired loops, every API, one caller, loss by EOF / close() / proxy exit / proxy stdout closed while the process lingers: safety + liveness"),
             job("Shutdown", cfg_text(spec="FairSpec", constants=consts(papis, n=1, kinds=("proxy_exit",), fix=False),
                                      invariants=["TypeOK"], properties=LIVE),
                 "sensitivity: pinned ProxyCommand.recv (no end of file) - transport never inactive", expect="<temporal>"),
             job("Shutdown", cfg_text(spec="FairSpec", constants=consts(papis, n=1, kinds=("proxy_eof",), eof_needs_exit=True),
                                      invariants=["TypeOK"], properties=LIVE),
                 "sensitivity: ProxyCommand.recv takes an empty read for end of file only once the process has exited, "
                 "the command closed its stdout and lingers - transport never inactive", expect="<temporal>"),
             job("Shutdown", cfg_text(constants=consts(["global_request", "request_port_forward"], n=1, nopoll=("global",)),
                                      invariants=SAFETY),
                 "sensitivity: global_request waits on completion_event without polling `active` (stuck on close())",
                 expect="NoStuck"),
             job("Shutdown", cfg_text(constants=consts(["exec_command", "get_pty"], n=1, test_outside=True), invariants=SAFETY),
                 "sensitivity: _event_pending tests `closed` before it takes Channel.lock (clear after close)",
                 expect="NoStuck"),
             job("Shutdown", cfg_text(constants=consts(["accept"], n=2, role="client", wake_only_server=True), invariants=SAFETY),
                 "sensitivity: accept() waiters woken only `if self.server_mode`, client transport", expect="NoStuck"),
             job("Shutdown", cfg_text(spec="FairSpec", constants=consts(["accept"], n=1 if quick else 2, role="client"),
                                      invariants=SAFETY, properties=LIVE),
                 "repaired loops, client role, accept: safety + liveness"),
             job("Shutdown", cfg_text(constants=consts(["recv", "recv_stderr"], n=1, prior="shutdown_read", eof_guard=True),
                                      invariants=SAFETY),
                 "sensitivity: _set_closed skips the input pipes when eof_received (set by shutdown_read)", expect="NoStuck|Order"),
             job("Shutdown", cfg_text(spec="FairSpec", constants=consts(["recv", "recv_stderr", "send", "exec_command", "recv_exit_status"],
                                                                        n=1, prior="shutdown_read"),
                                      invariants=SAFETY, properties=LIVE),
                 "repaired loops after shutdown_read() on the channel: safety + liveness")]
    pred_f, pred_r = widen(g_f.cases()), widen(g_r.cases())
    if set(pred_f) != set(pred_r):
        raise Machinery("pinned and repaired models emit different case sets")
    if any("stuck" in v for v in pred_r.values()):
        raise Machinery("the repaired model leaves a caller stuck: %r" % [k for k, v in pred_r.items() if "stuck" in v][:5])
    stuck_fams = {sd.family(k[1]) for k, v in pred_f.items() if "stuck" in v}
    if stuck_fams != {"accept", "chanreq", "srtauth"}:
        raise Machinery("the pinned model is expected to refute accept, channel requests and ensure_session; it refutes %r" % sorted(stuck_fams))
    pred2_f = {}
    if not quick:
        g2_f = gen(False, 2, ["accept"], "schedules, two accept callers, pinned")
        g2_r = gen(True, 2, ["accept"], "schedules, two accept callers, repaired")
        pred2_f = widen(g2_f.cases())
        if any("stuck" in v for v in g2_r.cases().values()):
            raise Machinery("the repaired model leaves one of two accept callers stuck")
        specs = []
        for fams, nm in ((["accept"], "accept"), (["exec_command", "invoke_shell"], "channel request"),
                         (["srt_auth_password"], "ensure_session")):
            specs.append(("Shutdown", cfg_text(constants=consts(fams, n=2 if nm == "accept" else 1, fix=False), invariants=SAFETY),
                          "sensitivity: pinned %s wait" % nm, "NoStuck"))
        for fam_, api_ in (("open", "open_session"), ("rekey", "renegotiate_keys"), ("auth", "auth_password")):
            specs.append(("Shutdown", cfg_text(constants=consts([api_], n=1, nopoll=(fam_,)), invariants=SAFETY),
                          "sensitivity: %s waits on its event without polling `active`" % api_, "NoStuck"))
        for om in ("unlink", "clear", "notify"):
            specs.append(("Shutdown", cfg_text(constants=consts(["recv", "accept", "global_request"], n=2, omit=om), invariants=SAFETY),
                          "sensitivity: shutdown block without '%s'" % om, "NoStuck|Order"))
        specs.append(("Shutdown", cfg_text(spec="FairSpec", constants=consts(papis, n=1, kinds=("proxy_exit",), eof_needs_exit=True),
                                           invariants=SAFETY, properties=LIVE),
                      "redundancy: ProxyCommand.recv needing the exit for end of file, the command exits (the toggle only bites when the process lingers)", None))
        # close() and run() both unlink the channels: leaving out close()'s loop alone breaks nothing
        specs.append(("Shutdown", cfg_text(constants=consts(["recv", "exec_command"], n=2, omit="cl_unlink"), invariants=SAFETY),
                      "redundancy: close() without its unlink loop (run() still unlinks)", None))
        for group in (["accept"], ["recv", "send", "sendall", "exec_command", "recv_exit_status"],
                      ["open_session", "global_request", "renegotiate_keys"], ["auth_password", "srt_auth_password"]):
            specs.append(("Shutdown", cfg_text(constants=consts(group, n=2, kinds=("eof", "local_close")), invariants=SAFETY),
                          "repaired loops, two concurrent callers of %s: safety" % "/".join(group), None))
        specs.append(("Shutdown", cfg_text(spec="FairSpec", constants=consts(["accept", "exec_command"], n=2),
                                           invariants=SAFETY, properties=LIVE),
                      "repaired loops, two concurrent callers of accept/exec_command: liveness", None))
        for k in range(0, len(specs), 4):          # four at a time
            for j_ in [job(m, cf, nm, ex) for (m, cf, nm, ex) in specs[k:k + 4]]:
                j_.settle()

    # ------------------------------------------------------------------ RP: planned cases from TLC
    by_key = {}
    for (n_, api, mode, kind, plan) in sorted(pred_f):
        if not realisable(api, kind, plan):
            continue
        by_key.setdefault((api, kind, plan), []).append(mode)
    tasks = []
    suspects, others = [], []
    for (api, kind, plan), modes in by_key.items():
        sus = any("stuck" in pred_f[(1, api, m, kind, plan)] for m in modes)
        (suspects if sus else others).append((api, kind, plan, modes))

    def case_of(api, mode, kind, plan, cls, n=1, role="server", prior="none"):
        callers = [(api, mode)] * n
        fn = sd.run_case
        if role != "server" or prior != "none":
            fn = (lambda *a, D: sd.run_case(*a, D=D, role=role, prior=prior))
        return {"id": (api, mode, kind, plan, cls, n) + (() if role == "server" else (role,)) + (() if prior == "none" else (prior,)),
                "fn": fn,
                "args": (callers, kind, plan, cls),
                "pred": (pred_f.get((1, api, mode, kind, plan)) if n == 1 else pred2_f.get((2, api, mode, kind, plan)),
                         pred_r.get((1, api, mode, kind, plan)) if n == 1 else None)}

    def cls_for(api, k):
        if api.startswith("srt_"):
            return "SRT"
        if api.startswith("auth") or api == "accept":
            return "Transport"
        return ("Transport", "SRT")[k % 2]

    chosen = []
    fixed = []      # fixed stratum (every tier, every seed): every API blocked before the loss x every loss kind
    if quick:
        for (api, kind, plan, modes) in suspects:
            chosen.append((api, kind, plan, [rnd.choice(modes)]))
        for o in sorted(others):
            if o[2] == "before":
                fixed.append((o[0], o[1], o[2], ["blocking"]))
        others = [(o[0], o[1], o[2], [m for m in o[3] if not (o[2] == "before" and m == "blocking")]) for o in others]
        others = [o for o in others if o[3]]
        rnd.shuffle(others)
        seen, rest = set(), []
        for o in others:
            fam = sd.family(o[0])
            marks = {(fam, o[2]), (fam, o[1]), ("api", o[0])}
            if marks - seen:
                seen |= marks
                chosen.append((o[0], o[1], o[2], [rnd.choice(o[3])]))
            else:
                rest.append(o)
        for o in rest[:10]:
            chosen.append((o[0], o[1], o[2], [rnd.choice(o[3])]))
    else:
        chosen = [(a, k, p, m) for (a, k, p, m) in suspects + others]
    for (api, kind, plan, modes) in fixed:
        tasks.append([case_of(api, modes[0], kind, plan, cls_for(api, 0))])
    for i, (api, kind, plan, modes) in enumerate(chosen):
        cl = cls_for(api, rnd.randrange(2) if quick else i)
        grp = [case_of(api, m, kind, plan, cl) for m in modes]
        if not quick and cl != cls_for(api, i + 1):
            grp += [case_of(api, m, kind, plan, cls_for(api, i + 1)) for m in modes[:1]]
        tasks.append(grp)
    # accept() on the CLIENT end (forwarded channels arrive through it): the wait and the wake-up are the same code
    # in both roles, so the model's predictions for accept apply.  Fixed stratum: blocked before the loss x every
    # loss kind x {no timeout, 60 s}; plus a call made after the loss
    for kind in KINDS:
        for mode in ("blocking", "timed"):
            tasks.append([case_of("accept", mode, kind, "before", ("Transport", "SRT")[mode == "timed"], role="client")])
        tasks.append([case_of("accept", "blocking", kind, "after", "Transport", role="client")])
        if not quick:
            for plan in ("at_pclose", "at_sockclose", "at_unlink"):
                if realisable("accept", kind, plan):
                    tasks.append([case_of("accept", "timed", kind, plan, "SRT", role="client")])
    # channel state left behind by an earlier operation: shutdown_read() / shutdown(2) set eof_received without closing
    # the input pipes, shutdown_write() sends EOF; a reader blocked afterwards must still be released (fixed stratum)
    for kind in KINDS:
        for prior in ("shutdown_read", "shutdown_both", "shutdown_write"):
            tasks.append([case_of("recv", "blocking", kind, "before", "Transport", prior=prior)])
        tasks.append([case_of("recv_stderr", "timed", kind, "before", "SRT", prior="shutdown_read")])
        tasks.append([case_of("recv", "blocking", kind, "after", "Transport", prior="shutdown_read")])
        if not quick:
            for api in ("recv_exit_status", "send", "exec_command"):
                tasks.append([case_of(api, "blocking", kind, "before", "Transport", prior="shutdown_read")])
            for plan in ("at_unlink", "at_pclose", "at_sockclose"):
                if realisable("recv", kind, plan):
                    tasks.append([case_of("recv", "timed", kind, plan, "SRT", prior="shutdown_both")])
    # two concurrent accept callers (one notify for two waiters)
    for kind in KINDS:
        for plan in (["before"] if quick else ["before", "at_pclose", "after"]):
            tasks.append([case_of("accept", rnd.choice(["blocking", "timed"]), kind, plan, "Transport", n=2)])
    # ProxyCommand: the calls directly, and a client transport over a proxy whose process is killed
    direct = [("proxy_recv", "blocking", "before"), ("proxy_recv", "blocking", "after"), ("proxy_recv", "timed", "after"),
              ("proxy_send", "blocking", "after")]
    if not quick:
        direct += [("proxy_recv", "timed", "before"), ("proxy_send", "blocking", "before")]
    for a in direct:
        tasks.append([{"id": a + ("proxy_exit",), "fn": sd.run_direct_proxy, "args": a, "pred": None}])
    pcs = [([("recv", "blocking"), ("recv_exit_status", "blocking")], "before", "Transport"),
           ([("open_session", "timed"), ("global_request", "blocking")], "after", "Transport")]
    if not quick:
        pcs += [([("recv_stderr", "timed"), ("send", "blocking")], "before", "SRT"),
                ([("exec_command", "blocking"), ("renegotiate_keys", "blocking")], "after", "SRT"),
                ([("sendall", "blocking"), ("recv", "timed")], "racing", "Transport")]
    for callers, plan, cl in pcs:
        tasks.append([{"id": (tuple(callers), plan, cl, "proxy_exit"), "fn": sd.run_proxy_case,
                       "args": (callers, plan, cl), "pred": None}])
    # the proxy command closes its stdout (the transport's stream is at end of file) and goes on running - a relay
    # with half-close semantics.  Fixed stratum, every tier and seed: recv directly, and a client transport over it
    direct_eof = [("proxy_recv", "blocking", "before"), ("proxy_recv", "blocking", "after")]
    pcs_eof = [([("recv", "blocking"), ("recv_exit_status", "blocking")], "before", "Transport"),
               ([("open_session", "timed"), ("global_request", "blocking")], "after", "SRT")]
    if not quick:
        direct_eof += [("proxy_send", "blocking", "after")]
        pcs_eof += [([("recv_stderr", "timed"), ("send", "blocking")], "before", "SRT"),
                    ([("exec_command", "blocking"), ("renegotiate_keys", "blocking")], "after", "Transport")]
    for a in direct_eof:
        tasks.append([{"id": a + ("proxy_eof",), "fn": sd.run_direct_proxy, "args": a, "kw": {"kind": "proxy_eof"}, "pred": None}])
    for callers, plan, cl in pcs_eof:
        tasks.append([{"id": (tuple(callers), plan, cl, "proxy_eof"), "fn": sd.run_proxy_case,
                       "args": (callers, plan, cl), "kw": {"kind": "proxy_eof"}, "pred": None}])
    # ------------------------------------------------------------------ TV: free-running sessions
    client_apis = [a for a in apis if sd.family(a) not in ("auth", "srtauth", "accept")]
    nfree = 14 if quick else 160
    for j in range(nfree):
        r = rnd.random()
        if r < 0.15:
            callers = [("accept", rnd.choice(["blocking", "timed"]), rnd.choice(["before", "race", "after"]))
                       for _ in range(rnd.randint(1, 3))]
            cl = "Transport"
            frole = rnd.choice(["server", "client"])
        elif r < 0.3:
            a = rnd.choice([x for x in apis if sd.family(x) in ("auth", "srtauth")])
            callers = [(a, rnd.choice(["blocking", "timed"]), rnd.choice(["before", "race", "after"]))]
            cl = "SRT" if a.startswith("srt_") else "Transport"
        else:
            callers = []
            for _ in range(rnd.randint(2, 3)):
                a = rnd.choice(client_apis)
                m = rnd.choice(["blocking", "timed"]) if sd.family(a) in ("recv", "send", "open") else "blocking"
                callers.append((a, m, rnd.choice(["before", "race", "race", "after"])))
            cl = rnd.choice(["Transport", "SRT"])
        jit = [rnd.choice([0.0, 0.0005, 0.002, 0.005]) for _ in range(len(callers) + 1)]
        kw_ = {"jitter": jit}
        if callers[0][0] == "accept":
            kw_["role"] = frole
        tasks.append([{"id": ("free", j, tuple(callers), cl), "fn": sd.run_case,
                       "args": (callers, rnd.choice(KINDS), "free", cl), "kw": kw_, "pred": None}])
    for t in tasks:
        for case in t:
            if "kw" in case:
                kw = case.pop("kw")
                case["fn"] = (lambda f, kw_: (lambda *a, D: f(*a, D=D, **kw_)))(case["fn"], kw)
    rnd.shuffle(tasks)
    runner = Runner(c, D)
    t0 = time.time()
    runner.run(tasks, workers=12)
    exec_wall = time.time() - t0
    if runner.errors and len(runner.errors) > max(2, len(runner.kept) // 20):
        raise Machinery("driver failed on %d cases, e.g. %r" % (len(runner.errors), runner.errors[:3]))
    if not runner.kept:
        raise Machinery("no case executed")

    # ------------------------------------------------------------------ validate every observation with TLC
    batch, meta = [], []
    not_est = 0
    matches = {"pinned": 0, "repaired": 0, "both": 0, "neither": 0}
    for case, obs in runner.kept:
        batch.append({"events": [norm_event(e) for e in obs["events"]], "labels": labels_of(obs),
                      "role": obs.get("role", "client"), "prior": obs.get("prior", "none")})
        meta.append((case, obs))
        for i, cl in enumerate(obs["callers"]):
            key = (cl[0], cl[1], obs["kind"], obs["plan"] if obs["plan"] != "free" else cl[2], obs["cls"], len(obs["callers"]),
                   obs.get("role", "client"), obs.get("prior", "none"))
            c.case(key=key, sample=({"callers": obs["callers"], "kind": obs["kind"], "plan": obs["plan"], "class": obs["cls"],
                                     "results": obs["results"],
                                     "events": [[e["ev"], e.get("name") or e.get("kind") or e.get("w")] for e in obs["events"]]}
                                    if i == 0 and obs["plan"] in ("mid", "at_pclose") else None))
        if any(x.startswith("unrealisable") for x in obs["notes"]):
            c.conformance("unrealisable:%s:%s" % (obs["callers"][0][0], obs["plan"]), "; ".join(obs["notes"]))
        elif not obs.get("established", True):
            not_est += 1
            c.conformance("not_established:%s:%s:%s" % (obs["callers"][0][0], obs["plan"], obs["kind"]),
                          "schedule not established: %s" % "; ".join(obs["notes"]))
        pf, pr = case.get("pred") or (None, None)
        if pf is not None and len(obs["callers"]) == 1:
            out = "stuck" if obs["blocked"] else obs["results"][0]["how"]
            in_f, in_r = out in pf, (pr is not None and out in pr)
            matches["both" if in_f and in_r else "pinned" if in_f else "repaired" if in_r else "neither"] += 1
            if not in_f and not in_r:
                c.conformance("outcome:%s:%s:%s" % (obs["callers"][0][0], obs["plan"], obs["kind"]),
                              "%s %s/%s (%s): the code %s, the model allows %s (pinned) / %s (repaired)" % (
                                  obs["callers"][0][0], obs["plan"], obs["kind"], obs["cls"], out, sorted(pf), sorted(pr or [])))
    for (cid, blocked, active) in runner.unrepro:
        c.conformance("timing_miss:%s" % (cid[0] if isinstance(cid[0], str) else "session"),
                      "a miss at deadline %.0f s (blocked %r, active %r) did not reproduce with %.0f s: %r" % (D, blocked, active, 2 * D, cid))
    for (cid, err) in runner.errors:
        c.conformance("driver_error:%s" % (cid[0] if isinstance(cid[0], str) else "session"), "%r: %s" % (cid, err))
    for j_ in later:
        j_.settle()
    tconst = consts(["recv"], n=NTRACE, kinds=KINDS + ["proxy_exit", "proxy_eof"])
    res, _ = c.trace("Shutdown_Trace", batch, cfg_text(spec="TSpec", constants=tconst, invariants=["Report"]))
    if len(res["DONE"]) != len(batch):
        raise Machinery("trace validation consumed %d of %d traces" % (len(res["DONE"]), len(batch)))
    c.traces += len(batch)

    def describe(tid, clause, row):
        case, obs = meta[tid - 1]
        name = clause[0]
        rest = [str(x) for x in clause[1:]]
        if name == "P_inactive":
            key = "P_inactive:%s" % obs["kind"]
            what = "%s after the loss (%s) and %.0f s (re-run once with the doubled deadline) the transport is still active; callers %r -> %r" % (
                obs["cls"], obs["kind"], obs["D"], obs["callers"], [r["how"] for r in obs["results"]])
        elif name == "P_returns":
            who = rest[0] + ("@client" if rest[0] == "accept" and rest[2] == "client" else "")
            who += ("" if rest[3] == "none" else "+" + rest[3])
            key = "P_returns:%s:%s:%s" % (who, rest[1], obs["kind"])
            what = "%s() %s the loss (%s; plan %s, %s, callers %r): the transport is inactive but the call has neither returned nor raised %.0f s later (re-run once with the doubled deadline)" % (
                rest[0], {"before": "blocked before", "racing": "racing with", "after": "made after"}.get(rest[1], rest[1]),
                obs["kind"], obs["plan"], "%s, %s end" % (obs["cls"], obs.get("role", "client")), obs["callers"], obs["D"])
        else:
            key = "%s:%s:%s" % (name, ":".join(rest), obs["kind"])
            what = "%s %r in %s/%s (%s)" % (name, rest, obs["plan"], obs["kind"], obs["cls"])
        return key, what, {"callers": obs["callers"], "kind": obs["kind"], "plan": obs["plan"], "class": obs["cls"],
                           "results": obs["results"], "events": obs["events"], "notes": obs["notes"]}
    c.verdicts(res["VERDICT"], describe)
    if not_est > max(3, len(batch) // 10):
        raise Machinery("%d of %d schedules could not be established" % (not_est, len(batch)))
    c.rule = ("planned cases = every (API, timeout mode, loss kind, plan) emitted by TLC from Shutdown_Gen that the driver can realise "
              "(quick: all cases the pinned model leaves stuck + a seeded cover of (family, plan), (family, kind), API; thorough: all, both transport classes), "
              "two concurrent accept callers, ProxyCommand recv/send directly and under a client transport, and seeded free-running sessions with 1-3 "
              "concurrent callers started before / together with / after the loss; distinct = (api, mode, loss kind, plan, class, callers)")
    c.assumptions = ["real time: deadline %.0f s after the last stimulus, a miss re-run once with %.0f s before it is reported" % (D, 2 * D),
                     "'timeout set' = 60 s (recv/send: settimeout, open_channel/accept: timeout argument, auth: auth_timeout); a call that only ends by that timeout is reported",
                     "the peer's answers are withheld by holding the victim's outbound direction of the in-memory link",
                     "a hang of the transport itself (P_inactive) is reported once per loss kind, not once per blocked API"]
    c.extra["code_matches_model"] = matches
    c.extra["cases_skipped_after_confirmed_miss"] = runner.skipped
    c.extra["timing_misses_not_reproduced"] = len(runner.unrepro)
    c.extra["execution_wall_s"] = round(exec_wall, 1)
