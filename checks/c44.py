META = {
    "level": "model_checking",
    "technique": "TLA+ state machine of the authenticate() loop (AuthStrategy.tla: NextSource/Attempt/Record/Finish) model-checked by TLC over every source list up to a bound; each TLC-emitted program replayed on the real AuthStrategy.authenticate with recording stub sources; recorded call/result traces of random longer programs validated by TLC against the same clause operators (AuthStrategy_Trace.tla)",
    "text": "TLC enumerates every list of source outcomes (a returned value - empty list, non-empty list, None - or an exception kind) up to the bound, checks on the model that calls happen in production order, stop at the first success, that the result lists exactly the attempted sources with their outcomes and that AuthFailure is raised iff none succeeded, and emits each program with the expected calls/result; every program is run on the real class (generator, list and iterator get_sources) and the observed call order, outcome and AuthResult entries (object identity of sources, return values and exception instances) are judged by TLC; fixed and seeded random sequences of 2-3 authenticate() calls on ONE strategy object (each call with its own sources, judged against those only; the model has NextCall and a shared_result mutation TLC refutes) are judged the same way; seeded random programs of length 0..8 over 11 kinds of returned value ([], non-empty list, None, strings, object, 0, False, True, (), dict) and 17 exception kinds are judged the same way",
    "note": "trusted: TLC, the stub sources and the identity look-ups that turn AuthResult entries into (source index, kind, origin) records; exceptions are subclasses of Exception (BaseException such as KeyboardInterrupt is outside the statement); a success is a source whose authenticate() returns, whatever the value; the AuthResult must hold that very object unchanged",
}
import random
from harness.core import cfg_text, Machinery
from harness.drivers import codec

MODEL_OUTCOMES = ["ok", "ok_list", "ok_none", "AuthenticationException", "OSError"]
MODEL_RETURNS = {"ok", "ok_list", "ok_none"}
MUTATIONS = {"nonempty_list_not_success": "FinalOK", "no_break": "CallsLegal", "drop_failures": "ResultTracksCalls", "never_raises": "FinalOK",
             "reversed": "CallsLegal"}
KEEP = ("prog", "events", "final", "earlier_changed")

# the fixed part of the history dimension: two or three authenticate() calls on ONE strategy object, each with its own sources
CALL_SEQUENCES = [[a, b] for a in (["ok"], ["AuthenticationException"], ["OSError", "ok_list"], [])
                  for b in (["ok_none"], ["ValueError", "ok"], ["SSHException", "AuthenticationException"], [])] + [
    [["AuthenticationException"], ["AuthenticationException", "OSError"], ["ok"]],
    [["ok"], ["ok"], ["ok"]], [["EOFError"], [], ["BadAuthenticationType", "ok_str"]], [[], ["ok_false"], ["KeyError"]]]


def as_trace(rec):
    """a single call record or a sequence of calls, in the shape AuthStrategy_Trace.tla reads"""
    return {"calls": [{k: x[k] for k in KEEP} for x in (rec["calls"] if "calls" in rec else [rec])]}


def describe(rec, call=None):
    if "calls" in rec:
        n = call or len(rec["calls"])
        return "call %d of %d on one strategy object (earlier calls had sources %s): %s" % (
            n, len(rec["calls"]), rec["progs"][:n - 1], describe(rec["calls"][n - 1]))
    return "sources %s via %s: calls %s, %s, result %s" % (
        rec["prog"], rec["style"], [e["src"] for e in rec["events"]], rec["final"]["status"],
        [(e["src"], e["kind"], e["of"]) for e in rec["final"]["result"]])


def replay(c, rp):
    """bin/check C44 --replay replays/C44/<key>.json : run that one program again and let TLC judge it"""
    rec = codec.run_auth_calls(rp["progs"], rp.get("style", "generator")) if "progs" in rp else codec.run_auth_program(rp["prog"], rp.get("style", "generator"))
    c.case(key=repr((rec["style"], rp.get("progs", rp.get("prog")))), sample=rec)
    res, _ = c.trace("AuthStrategy_Trace", [as_trace(rec)],
                     cfg_text(spec="TSpec", constants={"Outcomes": set(codec.exception_factories()) | set(codec.RETURN_FACTORIES),
                                                 "Returns": set(codec.RETURN_FACTORIES), "MaxLen": 8, "MaxCalls": 3, "Mutation": "none"},
                              invariants=["Report"]))
    if len(res["DONE"]) != 1:
        raise Machinery("trace validation did not consume the replayed trace")
    c.traces += 1
    c.verdicts(res["VERDICT"], lambda tid, clause, row: (clause[0], "%s fails for %s" % (clause[0], describe(rec, clause[1]) if "calls" in rec else describe(rec)), rec))
    c.rule = "replay of one recorded program"


def run(c):
    if getattr(c, "replay_file", None):
        import json
        return replay(c, json.load(open(c.replay_file))["replay"])
    maxlen = 4 if c.quick else 6
    consts = {"Outcomes": set(MODEL_OUTCOMES), "Returns": MODEL_RETURNS, "MaxLen": maxlen, "MaxCalls": 1, "Mutation": "none"}
    invs = ["TypeOK", "ResultTracksCalls", "FinalOK", "LoopAgrees"]
    # ---- M: the loop satisfies the statement for every program up to the bound; emits the programs
    r = c.mc_holds("AuthStrategy", cfg_text(constants=consts, invariants=invs + ["Emit"], properties=["CallsLegal"]),
                   name="all programs", workers=1)
    cases = r.printed("CASE")
    nprog = sum(len(MODEL_OUTCOMES) ** n for n in range(maxlen + 1))
    if len(cases) != nprog:
        raise Machinery("expected %d emitted programs, got %d" % (nprog, len(cases)))
    # successive calls on one strategy object: every call is judged against its own sources, earlier results stay as they were
    c.mc_holds("AuthStrategy", cfg_text(constants=dict(consts, MaxLen=2, MaxCalls=3), invariants=invs + ["EarlierResultKept"], properties=["CallsLegal"]),
               name="three successive calls on one strategy object", workers=4)
    # one AuthResult kept on the strategy and reused by every call: the second call lists the first call's sources as well
    c.mc("AuthStrategy", cfg_text(constants=dict(consts, MaxLen=2, MaxCalls=2, Mutation="shared_result"), invariants=["FinalOK"]),
         expect="FinalOK", name="mutation shared_result", workers=4)
    # sensitivity: each mutation of the loop must violate the invariant that states the clause it breaks
    small = dict(consts, MaxLen=3)
    # (only the invariant / action property that states the broken clause is checked: which of several violated ones
    #  TLC reports first is not deterministic)
    for mut, inv in list(MUTATIONS.items())[:1 if c.quick else None]:
        c.mc("AuthStrategy", cfg_text(constants=dict(small, Mutation=mut), invariants=[inv] if inv != "CallsLegal" else [],
                                      properties=["CallsLegal"] if inv == "CallsLegal" else []),
             expect=inv, name="mutation " + mut, workers=4)

    # ---- RP: spec -> code.  Every emitted program on the real class
    batch, expect = [], []
    for n, (_, prog, calls, status, result) in enumerate(cases):
        styles = codec.AUTH_STYLES if c.quick or len(prog) <= 4 else (codec.AUTH_STYLES[n % 3],)
        for style in styles:
            rec = codec.run_auth_program(prog, style)
            batch.append(rec)
            expect.append((calls, status, result))
            c.case(key=(style,) + tuple(prog), sample=rec if len(prog) == maxlen and status == "returned" else None)
    n_rp = len(batch)
    # ---- TV input: seeded random programs, longer, more exception kinds
    rnd = random.Random(c.seed)
    kinds, rets = sorted(codec.exception_factories()), sorted(codec.RETURN_FACTORIES)
    for _ in range(400 if c.quick else 20000):
        n = rnd.randint(0, 8)
        p_ok = rnd.choice([0.0, 0.1, 0.3, 0.6])
        prog = [rnd.choice(rets) if rnd.random() < p_ok else rnd.choice(kinds) for _ in range(n)]
        rec = codec.run_auth_program(prog, rnd.choice(codec.AUTH_STYLES))
        batch.append(rec)
        c.case(key=(rec["style"],) + tuple(prog))
    # ---- the history of one strategy object: the fixed sequences of calls (all three styles), then seeded random ones
    for n, progs in enumerate(CALL_SEQUENCES):
        for style in codec.AUTH_STYLES:
            batch.append(codec.run_auth_calls(progs, style))
            c.case(key=repr((style, progs)), n=len(progs))
    for _ in range(60 if c.quick else 3000):
        progs = [[rnd.choice(rets) if rnd.random() < 0.3 else rnd.choice(kinds) for _ in range(rnd.randint(0, 4))] for _ in range(rnd.randint(2, 3))]
        batch.append(codec.run_auth_calls(progs, rnd.choice(codec.AUTH_STYLES)))
        c.case(key=repr(progs), n=len(progs))
    tv_consts = dict(consts, Outcomes=set(kinds) | set(rets), Returns=set(rets), MaxLen=8, MaxCalls=3)
    res, _ = c.trace("AuthStrategy_Trace", [as_trace(rec) for rec in batch],
                     cfg_text(spec="TSpec", constants=tv_consts, invariants=["Report"]))
    if len(res["DONE"]) != len(batch):
        raise Machinery("trace validation consumed %d of %d traces" % (len(res["DONE"]), len(batch)))
    c.traces += len(batch)
    flagged = {row[1] for row in res["VERDICT"]}
    # the direct comparison with what TLC emitted must agree with TLC's verdict on the recorded trace
    for tid in range(1, n_rp + 1):
        rec, (calls, status, result) = batch[tid - 1], expect[tid - 1]
        same = ([e["src"] for e in rec["events"]] == calls and rec["final"]["status"] == status
                and rec["final"]["result"] == result)
        # TLC (the oracle) has the last word: only "equals what TLC emitted, yet flagged by TLC" is a harness inconsistency
        if same and tid in flagged:
            raise Machinery("TLC flags a trace that equals what TLC emitted: %s" % describe(rec))
        if not same and tid not in flagged:
            c.conformance("differs_from_emitted_unflagged", "differs from the emitted case in a way no clause covers: " + describe(rec))
    size = lambda rec: sum(len(p) for p in rec["progs"]) + 100 if "calls" in rec else len(rec["prog"])
    order = sorted(res["VERDICT"], key=lambda row: (size(batch[row[1] - 1]), row[1]))   # shortest program first
    def one(tid, clause, row):
        rec = batch[tid - 1]
        name, k = clause
        if "calls" in rec:
            return name, "%s fails for %s" % (name, describe(rec, k)), {"progs": rec["progs"][:k], "style": rec["style"]}
        return name, "%s fails for %s%s" % (name, describe(rec), " [%s]" % rec["error"] if rec["error"] else ""), rec
    c.verdicts(order, one)
    if flagged and not (c.violations or c.known_hits or c.conf):
        raise Machinery("TLC flagged %d traces but no verdict was registered" % len(flagged))
    for rec in [x for r in batch for x in (r["calls"] if "calls" in r else [r])]:
        if not rec["transport_ok"]:
            c.conformance("transport_not_passed", "a source was not given the transport: " + describe(rec))
        if rec["style"] == "generator" and rec["produced"] > len(rec["events"]):
            c.conformance("sources_produced_ahead", "the generator was advanced past the last attempted source: " + describe(rec))
    c.rule = ("every list of outcomes over %s up to length %d (TLC-enumerated; generator/list/iterator get_sources) + seeded "
              "random lists of length 0..8 over %d kinds of returned value and %d exception kinds; distinct = distinct (style, outcome list)"
              % (MODEL_OUTCOMES, maxlen, len(rets), len(kinds))
              + "; + %d fixed sequences of 2-3 authenticate() calls on one strategy object (x 3 styles) and seeded random ones" % len(CALL_SEQUENCES))
    c.extra["exhaustive"] = True
    c.assumptions = ["sources raise subclasses of Exception; a source succeeds when its authenticate() returns",
                     "successive calls on one strategy object each get their own list of sources; each call is judged against its own sources only (a changed earlier result is a conformance clause)",
                     "AuthResult entries are identified by object identity with the stub sources, their return values and raised instances"]
