META = {
    "level": "model_checking",
    "technique": "TLA+ model of both ends of one channel at critical-section grain (Channel.tla) with sendall as the loop the code has, model-checked by TLC for outcome and termination over calls before/after shutdown_write, close, peer EOF/CLOSE and transport loss in blocking, timed and non-blocking mode (safety form 'no progress-free iteration' and liveness under weak fairness); the TLC counterexample of the pinned loop and TLC-simulated behaviours (Channel_Gen) replayed step by step on two real Channel objects under a deterministic thread scheduler (linesched); schedules of the real code logged and judged by TLC with the design spec's invariants (Channel_Trace.tla)",
    "text": "TLC checks: sendall/sendall_stderr that returns has handed every byte to the transport; a call started after EOF or CLOSE went out never returns normally; the only outcomes are return and raise; the loop has no iteration without progress (and, with fairness, every call ends). The model of the pinned loop (send() returning 0 is not an exit) must give the spin counterexample, which is then driven on the real code. Real sendall calls are run against shutdown_write / close / peer close / peer EOF / transport loss / exhausted windows in the three timeout modes under explored schedules; a call that is still iterating without any hand-over when the step budget ends is reported as non-termination",
    "note": "trusted: TLC, linesched (virtual clock: a timed wait may expire at any scheduler step), the fake transport, harness dispatch. Non-termination on the real code is observed as: step budget exhausted while the thread is inside sendall (each iteration of the loop passes two switch points, so the budget bounds iterations, not wall time)",
}
import random
import time
from harness.core import cfg_text, Machinery
from harness.drivers import channel as dc

INVS = ["ReturnedMeansAll", "RaiseIfShut", "SendallOutcome", "SendallNoSpin"]
MINVS = INVS + ["HangFree", "TimedSendEndsInTime"]                    # model form of "never parked for good in the window wait"
TINVS = INVS + ["NoHangInWindowWait", "TimedSendEndsInTime"]          # its at-rest form, judged when a schedule of the real code has ended
BASE = dict(UsersA={"a1", "a2"}, UsersB={"b1"}, Daemons="@{}", OpsA="@{}", OpsB="@{}", MaxCalls=1, W0=3, MaxPkt=2, PeerMax=2,
            Thresh=0, SendN=4, Codes={1}, ReadSizes={2}, Modes={"block"}, Loss=False,
            FixRace=True, FixSendall=True, FixCredit=True, Mut="none", SpinCap=3, HoldBack=False)
U = 4032
GEN = dict(BASE, OpsA={"sendall", "sendall_err", "send", "close", "shutdown_write"}, OpsB={"recv", "recv_err", "close", "shutdown_write"},
           MaxCalls=2, W0=10, Thresh=1, SendN=7, ReadSizes={1, 3, 12}, Modes={"block", "nonblock"},
           FixRace=False, FixSendall=False, FixCredit=False)
SPIN = "pinned loop: send() == 0 is not an exit (sendall after shutdown_write)"
LIVE = dict(spec="FairSpec", properties=["Progress"])
SHUT = dict(spec="FairSpec", properties=["ShutEndsSends"])     # needs no reader: once closed / shut down for writing, sends in progress end


def model(c, runs):
    m3 = {"block", "timed", "nonblock"}
    small = dict(BASE, W0=2, SendN=3)
    jobs = [dict(name="sendall raises on send() == 0: 2+1 threads (sendall, shutdown_write, close | peer close), three timeout modes", module="Channel",
                 cfg=cfg_text(constants=dict(small, OpsA={"sendall", "shutdown_write", "close"}, OpsB={"close"}, Modes=m3), invariants=MINVS)),
            dict(name=SPIN, module="Channel", expect="SendallNoSpin",
                 cfg=cfg_text(constants=dict(BASE, UsersA={"a1"}, UsersB="@{}", OpsA={"sendall", "shutdown_write"}, MaxCalls=2,
                                             FixSendall=False, SendN=2), invariants=["SendallNoSpin"])),
            dict(name="sensitivity: no packet floor (chunk of 0 bytes: every iteration of sendall without progress)", module="Channel",
                 expect="SendallNoSpin",
                 cfg=cfg_text(constants=dict(small, UsersA={"a1"}, UsersB="@{}", OpsA={"sendall"}, MaxPkt=0), invariants=MINVS)),
            dict(name="sensitivity: early_return", module="Channel", expect="ReturnedMeansAll",
                 cfg=cfg_text(constants=dict(small, UsersA={"a1"}, OpsA={"sendall", "sendall_err"}, OpsB={"recv"}, Mut="early_return"), invariants=MINVS)),
            dict(name="sensitivity: wait_window_only (the window wait re-tests only the window: a close wakes nobody)", module="Channel",
                 expect="HangFree",
                 cfg=cfg_text(constants=dict(small, UsersA={"a1"}, OpsA={"sendall"}, OpsB={"close"}, Mut="wait_window_only"), invariants=MINVS)),
            dict(name="pinned _send_eof without notify: a writer parked at window 0 sleeps on after shutdown_write from another thread", module="Channel",
                 expect="HangFree",
                 cfg=cfg_text(constants=dict(small, UsersB="@{}", OpsA={"sendall", "shutdown_write"}, Mut="no_eof_notify"), invariants=MINVS)),
            dict(name="sensitivity: set_closed_no_notify (transport loss: _unlink -> _set_closed wakes nobody, the parked sendall sleeps on)", module="Channel",
                 expect="HangFree",
                 cfg=cfg_text(constants=dict(small, UsersA={"a1"}, UsersB="@{}", OpsA={"sendall", "sendall_err"}, Loss=True, Mut="set_closed_no_notify"),
                              invariants=MINVS)),
            dict(name="sensitivity: adjust_notify_one (_window_adjust wakes one of two parked writers)", module="Channel", expect="HangFree",
                 cfg=cfg_text(constants=dict(small, OpsA={"sendall", "sendall_err"}, OpsB={"recv"}, ReadSizes={4}, Mut="adjust_notify_one"),
                              invariants=MINVS)),
            dict(name="two writers parked at window 0, one adjust for both; transport loss while parked", module="Channel",
                 cfg=cfg_text(constants=dict(small, OpsA={"sendall", "sendall_err"}, OpsB={"recv"}, ReadSizes={4}, Loss=True), invariants=MINVS)),
            dict(name="timed sendall parked at window 0 while the peer sends zero-byte window adjustments (futile wake-ups)", module="Channel",
                 cfg=cfg_text(constants=dict(small, UsersA={"a1"}, OpsA={"sendall"}, OpsB={"zero_adjust"}, MaxCalls=2, Modes={"timed"}), invariants=MINVS)),
            dict(name="sensitivity: wake_restarts_timer (every wake-up of the timed wait restarts the full timeout)", module="Channel",
                 expect="TimedSendEndsInTime",
                 cfg=cfg_text(constants=dict(small, UsersA={"a1"}, OpsA={"sendall"}, OpsB={"zero_adjust"}, MaxCalls=2, Modes={"timed"},
                                             Mut="wake_restarts_timer"), invariants=MINVS)),
            dict(name="liveness: every sendall ends (reader keeps reading; shutdown_write from a second thread)", module="Channel",
                 cfg=cfg_text(constants=dict(BASE, UsersB="@{}", Daemons={"dB_out"}, OpsA={"sendall", "shutdown_write"}, SendN=3), invariants=[], **LIVE)),
            dict(name="simulate (spec -> code)", module="Channel_Gen", simulate=True, expect="behaviours",
                 cfg=cfg_text(spec="GSpec", constants=dict(GEN, **dc.gen_variant()), invariants=["GenEmit"]),
                 kw=dict(workers=1, simulate="num=%d" % (60 if c.quick else 500), extra=["-depth", "150", "-seed", str(c.seed + 1)]))]
    if not c.quick:
        jobs += [
            dict(name="liveness, pinned _send_eof without notify: the parked sendall never ends (nobody reads)", module="Channel",
                 expect="<liveness>",
                 cfg=cfg_text(constants=dict(small, UsersB="@{}", OpsA={"sendall", "shutdown_write"}, Mut="no_eof_notify"),
                              invariants=[], **SHUT)),
            dict(name="liveness: the parked sendall ends after shutdown_write / close from another thread although nobody reads", module="Channel",
                 cfg=cfg_text(constants=dict(small, UsersB="@{}", OpsA={"sendall", "shutdown_write", "close"}), invariants=[], **SHUT)),
            dict(name="liveness, wait_window_only: a parked sendall never ends after close / peer close / loss", module="Channel",
                 expect="<liveness>",
                 cfg=cfg_text(constants=dict(small, UsersB="@{}", Daemons={"dB_out"}, OpsA={"sendall", "close"}, Mut="wait_window_only"),
                              invariants=[], **LIVE)),
            dict(name="liveness, pinned loop: a sendall never ends", module="Channel", expect="<liveness>",
                 cfg=cfg_text(constants=dict(BASE, UsersB="@{}", Daemons={"dB_out"}, OpsA={"sendall", "shutdown_write"},
                                             SendN=3, FixSendall=False), invariants=[], **LIVE)),
            dict(name="liveness: sendall vs shutdown_write / close, blocking and timed mode", module="Channel",
                 kw={"timeout": 850, "workers": 4},
                 cfg=cfg_text(constants=dict(small, UsersB="@{}", Daemons={"dB_out"}, OpsA={"sendall", "shutdown_write", "close"},
                                             Modes={"block", "timed"}), invariants=[], **LIVE)),
            dict(name="transport loss, peer EOF / CLOSE, 1 thread x 2 calls (stdout and stderr variant), three modes", module="Channel",
                 kw={"timeout": 850, "workers": 4},
                 cfg=cfg_text(constants=dict(small, UsersA={"a1"}, OpsA={"sendall", "sendall_err"}, OpsB={"close", "shutdown_write", "recv"},
                                             MaxCalls=2, Modes=m3, Loss=True), invariants=MINVS)),
            dict(name="2+1 threads x 2 calls (calls before and after shutdown_write / close / peer close)", module="Channel",
                 kw={"timeout": 850, "workers": 4},
                 cfg=cfg_text(constants=dict(small, OpsA={"sendall", "shutdown_write", "close"}, OpsB={"close"}, MaxCalls=2, SendN=2),
                              invariants=MINVS)),
        ]
    res = dc.mc_batch(c, jobs, parallel=12)
    gen = dict(GEN, **dc.gen_variant())
    # RP 1: the spin counterexample on the real code
    prog, plan = dc.plan_from_counterexample(res[SPIN], dict(BASE, SendN=2), U)
    ex = dc.replay_plan(prog, plan, max_steps=1500)
    if ex.drift:
        c.conformance("counterexample_not_followed:spin", "the schedule of the TLC counterexample could not be followed on this tree: %s" % ex.drift)
    runs.add(prog, "tlc-counterexample", ex, plan)
    c.case(key=("cex", "spin"), sample={"program": prog, "plan": plan})
    # RP 2: TLC-simulated behaviours
    behs = res["simulate (spec -> code)"].printed("BEH")
    if not behs:
        raise Machinery("Channel_Gen produced no behaviour\n%s" % res["simulate (spec -> code)"].out[-2000:])
    differ = 0
    for b in behs:
        diffs, ex, prog, plan = dc.replay_behaviour(b, gen, U)
        runs.add(prog, "tlc-behaviour", ex, plan)
        c.case(key=("beh", repr(b[1])))
        if diffs:
            differ += 1
            c.conformance("replay_differs:" + diffs[0].split(":")[0], "real channels diverge from a Channel_Gen behaviour: %s; program %r plan %r" % (diffs[0], prog["threads"], plan))
    return len(behs), differ


FIXED = [
    # a TIMED writer parked at window 0 while futile wake-ups keep arriving (zero-byte WINDOW_ADJUSTs on the virtual clock):
    # it must give up one timeout after it stalled, however often it is woken
    {"threads": {"a1": [("sendall", 40000)], "b1": [("zero_adjusts", 4, 200)]}, "tmo": "timed"},
    {"threads": {"a1": [("send", 32768), ("send_err", 10)], "b1": [("zero_adjusts", 8, 100)]}, "tmo": "timed", "pktA": 65536},
    # transport loss (_unlink) while a blocking sendall / sendall_stderr is PARKED at window 0 - both streams, both roles
    {"threads": {"a1": [("sendall", 40000)]}, "lost": ["A"], "lost_when": {"A": "zero"}},
    {"threads": {"a1": [("sendall_err", 40000)]}, "lost": ["A"], "lost_when": {"A": "zero"}},
    {"threads": {"b1": [("sendall", 40000)]}, "lost": ["B"], "lost_when": {"B": "zero"}},
    {"threads": {"b1": [("sendall_err", 33000)], "a1": [("recv", 10)]}, "lost": ["B"], "lost_when": {"B": "zero"}},
    # two writers parked at window 0; ONE window adjustment reopens enough for both
    {"threads": {"a1": [("sendall", 32868)], "a2": [("sendall_err", 100)], "b1": [("recv", 65536)]}},
    {"threads": {"a1": [("send", 32768), ("send", 50)], "a2": [("send", 50)], "a3": [("send_err", 50)], "b1": [("recv", 65536)]}, "pktA": 65536},
    # peers advertising a maximum packet size below the 4096-byte floor
    {"threads": {"a1": [("sendall", 200)]}, "pkt": 32},
    {"threads": {"a1": [("sendall_err", 150)]}, "pkt": 1},
    {"threads": {"a1": [("sendall", 100), ("sendall", 1)]}, "pkt": 64},
    {"threads": {"a1": [("sendall", 130)], "b1": [("recv", 100)]}, "pkt": 65},
    {"threads": {"a1": [("sendall", 300)], "a2": [("sendall_err", 40)]}, "pkt": 100},
    {"threads": {"a1": [("sendall", 9000)]}, "pkt": 4095},
    {"threads": {"a1": [("shutdown_write",), ("sendall", 100)]}},
    {"threads": {"a1": [("shutdown_write",), ("sendall_err", 100)]}},
    {"threads": {"a1": [("sendall", 9000)], "a2": [("shutdown_write",)]}},
    {"threads": {"a1": [("close",), ("sendall", 100)]}},
    {"threads": {"a1": [("sendall", 40000)], "b1": [("close",)]}},
    {"threads": {"a1": [("sendall", 40000)], "b1": [("shutdown_write",), ("recv", 8192)]}},
    {"threads": {"a1": [("sendall", 9000), ("sendall_err", 100)]}, "lost": ["A"]},
    {"threads": {"a1": [("sendall", 40000)], "a2": [("close",)]}, "tmo": "timed"},
    {"threads": {"a1": [("sendall", 40000)]}, "tmo": "nonblock"},
    {"threads": {"a1": [("sendall", 40000)], "dB_out": [("recv_loop", 16384)]}, "tmo": "timed"},
    # a blocking sender parked in the window wait (window 32768 used up, nobody reads), and then:
    {"threads": {"a1": [("sendall", 40000)], "b1": [("close",)]}},                              # peer CLOSE (as above)
    {"threads": {"a1": [("sendall_err", 40000)], "a2": [("close",)]}},                          # local close() from another thread
    {"threads": {"a1": [("send", 32768), ("send", 5)], "a2": [("close",)]}},                    # plain send parked
    {"threads": {"a1": [("sendall", 40000)], "a2": [("shutdown_write",)]}},                      # shutdown_write from another thread, nobody reads
    {"threads": {"a1": [("send", 32768), ("send_err", 5)], "a2": [("shutdown_rw",)]}},          # plain send_stderr parked, shutdown(2)
    {"threads": {"a1": [("sendall", 40000)], "a2": [("shutdown_write",)], "b1": [("recv", 65536)]}},   # shutdown_write, then a window adjust
    {"threads": {"a1": [("sendall", 40000)]}, "lost": ["A"]},                                    # transport loss (_unlink)
    {"threads": {"a1": [("sendall", 40000)], "b1": [("recv", 65536), ("recv", 65536)]}},        # window adjust: completes
    {"threads": {"a1": [("sendall", 40000)], "a2": [("sendall_err", 40000)], "b1": [("close",)]}},   # two parked senders
]


def programs(rnd, n):
    progs = []
    for _ in range(n):
        win = rnd.choice([32768, 32768, 50000, 2 ** 32 - 1])
        pkt = rnd.choice([4096, 16384, 32768, rnd.choice([1, 32, 64, 65, 100, 4095])])
        par = {"win": {"A": win, "B": win}, "pkt": {"A": pkt, "B": pkt},
               "tmo": {"A": rnd.choice(["block", "timed", "nonblock"]), "B": "block"}}
        th = {}
        k = rnd.choice(["sendall", "sendall", "sendall_err"])
        size = rnd.choice([1, pkt - 64, pkt, 3 * pkt, 40000]) if pkt >= 4095 else rnd.choice([1, 33, 64, 200])
        pre = rnd.choice([[], [], [("shutdown_write",)], [("close",)], [("send", 10)], [("shutdown_rw",)]])
        th["a1"] = pre + [(k, size)] + rnd.choice([[], [(k, 5)]])
        other = rnd.choice([[], [("shutdown_write",)], [("close",)], [("sendall", min(pkt, 8192))], [("shutdown_write",), ("close",)]])
        if other:
            th["a2"] = other
        peer = rnd.choice([[], [("close",)], [("shutdown_write",)], [("recv", 65536), ("recv", 65536)], [("recv", 4096), ("close",)]])
        if peer:
            th["b1"] = peer
        if rnd.random() < 0.3:
            th["dB_out"] = [("recv_loop", 32768)]
            th["dB_err"] = [("recv_err_loop", 32768)]
        prog = {"par": par, "threads": th}
        if rnd.random() < 0.2:
            prog["lost"] = ["A"]
        progs.append(prog)
    return progs


def describe(clause, it, evs, l):
    fin = it["verdict"]["final"]
    if clause == "P_TimedSendEndsInTime":
        e = evs[l - 1]
        what = ("a timed send/sendall (timeout 0.5 s) that stalled at virtual time %d ms started another wait on the window condition with "
                "deadline %d ms: every wake-up that does not open the window restarts the full timeout, so it never raises socket.timeout "
                "while such wake-ups keep arriving. Last events: %s | program %r" % (e["now"], e["dl"], dc.brief(evs, l), it["prog"]["threads"]))
        return clause, what, dc.replay_record(it)
    if clause == "P_NoHangInWindowWait":
        s = fin["sides"]
        if s["A"]["eofSent"] and not s["A"]["closed"]:
            key = "P_NoHangInWindowWait:shutdown_write"
            what = ("send/sendall parked in the window wait for good after shutdown_write()/shutdown() from another thread: when the schedule ended "
                    "%s was still blocked in Channel._wait_for_send_window (window %d) although the channel is shut down for writing - "
                    "_send_eof sets eof_sent without notifying out_buffer_cv, so the writer neither returns nor raises until the peer happens "
                    "to adjust the window. Last events: %s | program %r" % ([w["th"] for w in fin["waiting"] if w["at"] == "send_wait"],
                                                                          s["A"]["outwin"], dc.brief(evs, len(evs)), it["prog"]["threads"]))
            return key, what, dc.replay_record(it)
        what = ("send/sendall parked in the window wait for good: when the schedule ended %s was still blocked in Channel._wait_for_send_window "
                "although the channel is closed (A closed=%s, window %d) - woken by the close, it went back to sleep; it neither returns nor "
                "raises. Last events: %s" % ([w["th"] for w in fin["waiting"] if w["at"] == "send_wait"], s["A"]["closed"], s["A"]["outwin"],
                                            dc.brief(evs, len(evs))))
    elif clause == "P_SendallNoSpin":
        what = ("sendall never returns: thread(s) %s still looping on send() == 0 when the step budget ended, nothing handed to the transport. "
                "Last events: %s" % (", ".join(fin["spinning"]), dc.brief(evs, len(evs))))
    else:
        what = "%s fails after event %d (%s): %s" % (clause, l, it["how"], dc.brief(evs, min(l, len(evs))))
    return clause, what + " | program %r tmo %s" % (it["prog"]["threads"], it["prog"]["par"]["tmo"]["A"]), dc.replay_record(it)


def run(c):
    rnd = random.Random(c.seed)
    runs = dc.Runs()
    t0 = time.time()
    nb, differ = model(c, runs)
    laps = {"model+replay_s": round(time.time() - t0, 1)}
    progs = []
    for p in FIXED:
        prog = {"par": {"win": {"A": 32768, "B": 32768}, "pkt": {"A": 4096, "B": p.get("pkt", 4096)}, "tmo": {"A": p.get("tmo", "block"), "B": "block"}},
                "threads": p["threads"]}
        if "lost" in p:
            prog["lost"] = p["lost"]
            prog["lost_when"] = p.get("lost_when", {})
        if "pktA" in p:
            prog["par"]["pkt"]["B"] = p["pktA"]        # what B allows A to send in one message
        progs.append(prog)
    progs += programs(rnd, 6 if c.quick else 150)
    deadline = time.time() + (120 if c.quick else 600)   # safety net only: the schedule counts bound the exploration, so the result does not depend on machine load
    explored = dc.explore_into(runs, c, progs, 8 if c.quick else 150, 3 if c.quick else 40, deadline, bound=1 if c.quick else 2,
                               max_steps=1500, gap_runs=6)
    laps["explore_s"] = round(time.time() - t0 - laps["model+replay_s"], 1)
    dc.validate(c, runs, TINVS, describe)
    laps["validate_s"] = round(time.time() - t0 - laps["model+replay_s"] - laps["explore_s"], 1)
    c.extra["laps"] = laps
    c.rule = ("M: all interleavings of sendall / sendall_stderr with shutdown_write, close, shutdown(2), peer EOF/CLOSE, transport loss, "
              "blocking / timed / non-blocking, 2-3 user threads per side x 1-2 calls, incl. senders parked in the window wait when the close / loss / adjust arrives; liveness under weak fairness. RP: the TLC spin "
              "counterexample and %d TLC-simulated behaviours (%d differing) driven on real channels. TV: %d of %d programs (sendall before / "
              "after / concurrent with shutdown_write, close, peer close, peer EOF, loss; windows 32768..2^32-1; three timeout modes) under DFS "
              "with bounded preemptions (capped) + seeded random schedules; distinct = (program, schedule)" % (nb, differ, explored, len(progs)))
    c.assumptions = ["'handed to the transport' = Transport._send_user_message was called with the bytes (a dead transport drops them there)",
                     "'shut down for writing / closed' is judged from the wire: the side's EOF or CLOSE had been handed over before the call started",
                     "non-termination is observed as a bounded number (step budget 1500) of iterations without any hand-over, or as a schedule that ends (no thread can run, no timeout pending) with a sender still parked in the window wait of a closed channel"]
