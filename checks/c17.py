META = {
    "level": "model_checking",
    "technique": "TLA+ model of the client connection lifecycle (key-exchange packets as Transport.run() accepts them, _verify_key, initial_kex_done, the auth_* guard, the point where an armed request is transmitted) under an arbitrary peer, composed with the host-key decision of Transport.connect(hostkey=) and SSHClient.connect (known_hosts lookup by host / [host]:port, hashed entries, system-before-user tables, key-type preference, missing-host-key policies, a second connection through the same SSHClient object, the gss_kex / gss_auth arguments against a peer that does no GSS) (HostKeyGate.tla), model-checked by TLC with mutated models; TLC enumerates the decision table, every case is rendered to known_hosts files / arguments and run as a real connection over netsched against a real server Transport whose tap keeps every decrypted payload; auth_* calls are made at every lifecycle point with the handshake frozen by the link; all observations are judged by TLC (HostKeyGate_Trace.tla)",
    "text": "TLC checks that a credential leaves the client only encrypted, after a verified host-key signature and completed initial key exchange, never as the delayed effect of an authentication attempt made earlier, never to a server whose key differs from the one given / known, and to an unknown server only after the policy accepted it; seven mutated models (hashed names cached per salt across lookups, known_hosts lookups remembered across table changes, no kex guard, no kex guard and no expected-packet enforcement, type-only key comparison, fallback to password after a merely requested GSS key exchange, policy skipped) break it. The TLC-enumerated table (known_hosts entries x port form x policy x server key set x expected key) and seeded larger configurations are executed with real SSHClient / Transport.connect calls; every auth_* method of Transport and ServiceRequestingTransport is called before start, at four frozen mid-handshake points, in the open session, after local / peer close and after a handshake whose host-key signature was corrupted in transit; the server-side tap (USERAUTH_REQUEST / INFO_RESPONSE payloads), the wire log (plaintext packets, secret strings) and the policy's view are validated by TLC",
    "note": "trusted: TLC, netsched link + payload tap, the renderer that writes known_hosts lines (hashed names computed with hmac-sha1 independently of paramiko), the bundled test keys standing for the model's key identities. Reading of the lifecycle quantifier: an auth_* call made before the initial key exchange completed must not lead to a credential being transmitted, even later (the literal 'only after' is also checked); auth-protocol messages without a credential (SERVICE_REQUEST, method none) sent to a server that must be refused are reported as conformance only. GSS-API methods are only exercised at points where they must be refused; re-keying is not a lifecycle point here.",
}
import random
from harness.core import cfg_text, Machinery
from harness.drivers import client as cl

POLICIES = ["Reject", "AutoAdd", "Warning", "CustomAccept", "CustomReject"]
GSS = ["none", "kex", "auth", "both"]


def consts(**kw):
    d = {"KeyTypes": {"ed", "rsa"}, "DefaultOrder": "<-Order2", "KeyIds": "@{1, 2}", "Names": {"h", "[h]:p", "other"},
         "Policies": set(POLICIES), "MaxEntries": 1, "Apis": {"raw", "connect", "sshclient"}, "ServerSets": "<-Srv2",
         "Methods": {"password", "publickey", "interactive"},
         "GuardKex": True, "EnforceExpected": True, "CompareFullKey": True, "AskPolicy": True,
         "ConGss": set(GSS), "SshGss": {"none"}, "GssFallback": False,
         "HashCachedPerSalt": False, "LookupCached": False, "SeqTargets": "@{}", "SeqKeyTypes": {"ed"}}
    d.update(kw)
    return d


def label(cfg):
    """stable name of a configuration class (for violation keys only)"""
    if cfg["api"] == "connect":
        return "connect:expect=%s%d:gss=%s" % (cfg["expect"]["t"], cfg["expect"]["id"], cfg["gss"])
    if cfg["api"] == "raw":
        return "raw"
    want = {"default": "h", "other": "[h]:p"}.get(cfg["port"], "other")
    hit = [e for e in cfg["sys"] + cfg["usr"] if e["name"] == want]
    return "sshclient:%s:%s%s%s%s" % (cfg["port"], "known" if hit else "unknown:" + cfg["policy"],
                                      ":hashed" if any(e["hashed"] for e in hit) else "",
                                      "" if cfg["gss"] == "none" else ":gss=" + cfg["gss"],
                                      "".join(":after_" + p["port"] for p in cfg.get("prev", [])))


def random_cfg(rnd):
    """larger configurations than the table: three key types, up to 4 entries over both tables"""
    K = lambda t, i: {"t": t, "id": i}
    types = ["ed", "ecdsa", "rsa"]
    server = [K(t, 1) for t in types if rnd.random() < 0.6] or [K(rnd.choice(types), 1)]
    if rnd.random() < 0.2:
        return {"api": "connect", "expect": rnd.choice([dict(cl.NOKEY)] + [K(t, i) for t in types for i in (1, 2)]),
                "sys": [], "usr": [], "policy": "Reject", "port": "default", "server": server,
                "gss": rnd.choice(GSS), "prev": [], "loaded": True}
    ents = []
    for _ in range(rnd.choice([0, 1, 1, 2, 2, 3, 4])):
        ents.append({"name": rnd.choice(["h", "h", "[h]:p", "[h]:p", "other"]), "hashed": rnd.random() < 0.4,
                     "key": K(rnd.choice(types), rnd.choice([1, 1, 2]))})
    # no two entries of one table with the same (name, type): HostKeys.load merges those (C41's subject)
    seen, sys_, usr = set(), [], []
    for e in ents:
        tab = rnd.choice(["sys", "usr"])
        k = (tab, e["name"], e["key"]["t"])
        if k in seen:
            continue
        seen.add(k)
        (sys_ if tab == "sys" else usr).append(e)
    return {"api": "sshclient", "expect": dict(cl.NOKEY), "sys": sys_, "usr": usr, "policy": rnd.choice(POLICIES),
            "port": rnd.choice(["default", "other"]), "server": server,
            "gss": rnd.choice(["none", "none", "kex", "auth", "both"]), "prev": [], "loaded": True}


def run(c):
    rnd = random.Random(c.seed)
    seq = dict(SeqTargets={"otherhost"}) if c.quick else dict(SeqTargets={"otherhost", "other"}, SeqKeyTypes={"ed", "rsa"})
    small = dict(Names={"h", "[h]:p"}, Policies={"Reject", "AutoAdd", "CustomReject"}, SshGss={"none", "both"}, **seq) if c.quick \
        else dict(SshGss=set(GSS), **seq)
    jobs = [dict(name="lifecycle x callers, arbitrary peer (C17)", module="HostKeyGate", kw={"workers": 4},
                 cfg=cfg_text(constants=consts(**small), invariants=["C17"])),
            dict(name="sensitivity: auth_* without the initial_kex_done guard", module="HostKeyGate", expect="NoEarlyAttempt",
                 cfg=cfg_text(constants=consts(Apis={"raw"}, GuardKex=False), invariants=["NoEarlyAttempt"])),
            dict(name="sensitivity: no guard and no expected-packet enforcement -> plaintext credential", module="HostKeyGate",
                 expect="SecretSecure",
                 cfg=cfg_text(constants=consts(Apis={"raw"}, GuardKex=False, EnforceExpected=False), invariants=["SecretSecure"])),
            dict(name="sensitivity: Transport.connect compares the key type only", module="HostKeyGate", expect="Gate",
                 cfg=cfg_text(constants=consts(Apis={"connect"}, CompareFullKey=False), invariants=["Gate"])),
            dict(name="sensitivity: Transport.connect falls back to password after a GSS kex that was only requested", module="HostKeyGate",
                 expect="Gate", cfg=cfg_text(constants=consts(Apis={"connect"}, GssFallback=True), invariants=["Gate"])),
            dict(name="sensitivity: hashed known_hosts names cached per salt across lookups of one SSHClient", module="HostKeyGate",
                 expect="Gate", cfg=cfg_text(constants=consts(Apis={"sshclient"}, MaxEntries=0, HashCachedPerSalt=True, **seq),
                                             invariants=["Gate"])),
            dict(name="sensitivity: SSHClient remembers known_hosts lookups across table changes", module="HostKeyGate",
                 expect="Gate", cfg=cfg_text(constants=consts(Apis={"sshclient"}, MaxEntries=0, LookupCached=True, **seq),
                                             invariants=["Gate"])),
            dict(name="sensitivity: SSHClient skips the missing-host-key policy", module="HostKeyGate", expect="Gate",
                 cfg=cfg_text(constants=consts(Apis={"sshclient"}, MaxEntries=0, AskPolicy=False), invariants=["Gate"])),
            dict(name="decision table", module="HostKeyGate", kw={"workers": 1},
                 cfg=cfg_text(spec="TableSpec", constants=consts(Apis={"connect", "sshclient"}, **seq), invariants=["EmitCase"]))]
    if not c.quick:
        jobs.append(dict(name="without the guard the credential still never leaves in plaintext (expected-packet enforcement)",
                         module="HostKeyGate", cfg=cfg_text(constants=consts(Apis={"raw"}, GuardKex=False), invariants=["SecretSecure"])))
    # the TLC runs (seconds of JVM start each on a busy machine) proceed while the connections that do not need their
    # output are driven
    import threading
    box = {}

    def tlc(tag, which):
        try:
            box[tag] = cl.mc_batch(c, which)
        except BaseException as e:      # noqa
            box["exc"] = e
    th = threading.Thread(target=tlc, args=("first", jobs), daemon=True)
    th.start()
    batch, info = [], []
    universe = [(t, i) for t in ("ed", "rsa", "ecdsa") for i in (1, 2)]
    try:
        # ---- TV: seeded larger configurations
        for n in range(15 if c.quick else 1500):
            cfg = random_cfg(rnd)
            cred = rnd.choice(["password", "password", "pkey"])
            obs = cl.run_gate(cfg, str(c.work / "kh"), rnd, cred, universe)
            batch.append({"kind": "gate", "cfg": cfg, "badsig": False, "obs": obs})
            info.append(("random", cred))
            c.case(key=("random", repr(cfg), cred), sample={"cfg": cfg, "observed": obs} if n == 0 else None)
        # ---- fixed: a host that IS known, but only with keys of other types than the one the server presents (the statement's
        #      "only other key types"): refused whatever the missing-host-key policy would say (it must not even be asked)
        K = lambda t, i: {"t": t, "id": i}
        for pol in ("AutoAdd", "Warning", "CustomAccept", "Reject"):
            for tab, hashed, port in (("usr", False, "default"), ("sys", False, "default"), ("usr", True, "default"), ("usr", False, "other")):
                ent = {"name": "h" if port == "default" else "[h]:p", "hashed": hashed, "key": K("rsa", 1)}
                cfg = {"api": "sshclient", "expect": dict(cl.NOKEY), "sys": [ent] if tab == "sys" else [], "usr": [ent] if tab == "usr" else [],
                       "policy": pol, "port": port, "server": [K("ed", 1)], "gss": "none", "prev": [], "loaded": True}
                obs = cl.run_gate(cfg, str(c.work / "kh"), rnd, "password", universe)
                batch.append({"kind": "gate", "cfg": cfg, "badsig": False, "obs": obs})
                info.append(("other-type-only", "password"))
                c.case(key=("othertype", pol, tab, hashed, port))
        # ---- the callers against a handshake whose host-key signature does not verify
        base = {"api": "sshclient", "expect": dict(cl.NOKEY), "sys": [], "usr": [], "policy": "Reject", "port": "default",
                "server": [K("ed", 1)], "gss": "none", "prev": [], "loaded": True}
        for upd in ({"api": "connect", "expect": K("ed", 1)}, {"api": "connect"}, {"usr": [{"name": "h", "hashed": False, "key": K("ed", 1)}]},
                    {"policy": "AutoAdd"}, {"policy": "CustomAccept", "port": "other"}):
            cfg = dict(base, **upd)
            obs = cl.run_gate(cfg, str(c.work / "kh"), rnd, "password", universe, badsig=True)
            batch.append({"kind": "gate", "cfg": cfg, "badsig": True, "obs": obs})
            info.append(("corrupted-signature", "password"))
            c.case(key=("badsig", repr(cfg)))
        # ---- lifecycle: every auth method at every point
        raw = {"api": "raw", "expect": dict(cl.NOKEY), "sys": [], "usr": [], "policy": "Reject", "port": "default",
               "server": [{"t": "ed", "id": 1}], "gss": "none", "prev": [], "loaded": True}
        for cls in ("Transport", "ServiceRequestingTransport"):
            for point in cl.POINTS:
                for m in cl.METHODS:
                    if cls != "Transport" and m.endswith("_event"):
                        continue
                    if point == "open" and m.startswith("gssapi"):
                        continue          # needs a GSS-API library; the guard is what is examined
                    obs = cl.run_life(point, m, cls)
                    batch.append({"kind": "life", "cfg": raw, "point": "closed" if point.startswith("closed") else point,
                                  "positive": m in cl.POSITIVE, "obs": obs})
                    info.append(("life", "%s:%s:%s" % (point, m, cls)))
                    c.case(key=("life", point, m, cls), sample={"point": point, "method": m, "class": cls, "observed": obs}
                           if (point == "newkeys" and m == "password" and cls == "Transport") else None)
    except cl.DriverError as e:
        raise Machinery("driver: %s" % e)
    th.join()
    if "exc" in box:
        raise box["exc"]
    res = box["first"]
    table = res["decision table"]
    cases = table.printed("CASE")
    if len(cases) != table.distinct or len(cases) < 500:   # (includes the two-connection sequences)
        raise Machinery("decision table: %d cases for %d configurations" % (len(cases), table.distinct))

    # ---- RP: the table on real connections (quick: seeded stratified sample; thorough: every case)
    seqs = [cs for cs in cases if cs[1]["prev"]]
    cases = [cs for cs in cases if not cs[1]["prev"]]
    if len(seqs) < 48:
        raise Machinery("only %d two-connection sequences in the table" % len(seqs))
    chosen = []
    if c.quick:
        # fixed stratum: every single-connection case whose table has a hashed line for the name that is looked up
        def hashed_hit(cfg):
            want = {"default": "h", "other": "[h]:p"}.get(cfg["port"], "other")
            return any(e["hashed"] and e["name"] == want for e in cfg["sys"] + cfg["usr"])
        chosen = [cs for cs in cases if cs[1]["api"] == "sshclient" and hashed_hit(cs[1])]
        fixed = set(repr(cs[1]) for cs in chosen)
        strata = {}
        for cs in cases:
            if repr(cs[1]) in fixed:
                continue
            cfg = cs[1]
            ents = cfg["sys"] + cfg["usr"]
            k = (cfg["api"], cs[3], cs[4], cfg["port"], label(cfg), bool(cfg["sys"]), len(cfg["server"]),
                 ents[0]["name"] if ents else "")
            strata.setdefault(repr(k), []).append(cs)
        for k in sorted(strata):
            chosen.append(rnd.choice(strata[k]))
    else:
        chosen = list(cases)
    try:
        # ---- fixed stratum: two connections through ONE SSHClient object (tables loaded once), all of them in both tiers
        for n, cs in enumerate(seqs):
            cfg = dict(cs[1])
            cfg["server"] = list(cfg["server"])
            cfg["prev"] = [{"port": p["port"], "server": list(p["server"])} for p in cfg["prev"]]
            cred = "password" if n % 3 else "pkey"
            earlier = []
            obs = cl.run_gate(cfg, str(c.work / "kh"), rnd, cred, universe, earlier=earlier)
            first = dict(cfg, prev=[], port=cfg["prev"][0]["port"], server=cfg["prev"][0]["server"])
            batch.append({"kind": "gate", "cfg": first, "badsig": False, "obs": earlier[0]})
            info.append(("sequence, first connection", cred))
            batch.append({"kind": "gate", "cfg": cfg, "badsig": False, "obs": obs})
            info.append(("sequence, second connection", cred))
            c.case(key=("seq", repr(cs[1]), cred), n=2,
                   sample={"cfg": cfg, "model": {"shown": cs[2], "decision": cs[3], "must_refuse": cs[4]}, "first": earlier[0],
                           "second": obs} if n == 5 else None)
        for n, cs in enumerate(chosen):
            cfg = dict(cs[1])
            cfg["server"] = list(cfg["server"])
            cfg["prev"] = []
            cred = "password" if n % 3 else "pkey"
            obs = cl.run_gate(cfg, str(c.work / "kh"), rnd, cred, universe)
            batch.append({"kind": "gate", "cfg": cfg, "badsig": False, "obs": obs})
            info.append(("table", cred))
            c.case(key=("table", repr(cs[1]), cred),
                   sample={"cfg": cfg, "model": {"shown": cs[2], "decision": cs[3], "must_refuse": cs[4]}, "observed": obs}
                   if (cs[3] == "badhostkey" and cfg["api"] == "sshclient" and len(c.samples) < 2) else None)
    except cl.DriverError as e:
        raise Machinery("driver: %s" % e)

    th.join()
    if "exc" in box:
        raise box["exc"]
    tc = consts(KeyTypes={"ed", "ecdsa", "rsa"}, DefaultOrder="<-Order3", ServerSets="<-AnySrv", MaxEntries=0)
    out, _ = c.trace("HostKeyGate_Trace", batch, cfg_text(spec="TSpec", constants=tc, invariants=["Report"]))
    if len(out["DONE"]) != len(batch):
        raise Machinery("trace validation consumed %d of %d records" % (len(out["DONE"]), len(batch)))
    c.traces += len(batch)

    def describe(tid, clause, row):
        r, (src, extra) = batch[tid - 1], info[tid - 1]
        if r["kind"] == "life":
            return ("%s:%s" % (clause, extra),
                    "%s: auth call at lifecycle point %s: %r" % (clause, extra, r["obs"]), r)
        return ("%s:%s" % (clause, label(r["cfg"])),
                "%s: %s configuration %r with %s credential: %r" % (clause, src, r["cfg"], extra, r["obs"]), r)
    c.verdicts(out["VERDICT"], describe)
    n_life = sum(1 for x in info if x[0] == "life")
    c.rule = ("table: TLC enumerates {0 or 1 known_hosts entry (name h / [h]:p / other x hashed x key type ed,rsa x key id 1,2 x "
              "system or user table)} x port form x policy (5, when nothing matches) x server key set, and Transport.connect "
              "expected key (none + 4) x server key set x GSS flags requested (none / gss_kex / gss_auth / both; the peer never "
              "does GSS) = %d cases; %s executed as real connections (password or public-key "
              "credential); + %d two-connection sequences through one SSHClient object (a host with its right key in a plain / "
              "hashed line, and - before or after it - another name that is unknown or known with another key, whose server presents "
              "the first host's key; Reject / AutoAdd; system / user table), all executed in both tiers, as is in quick every "
              "single-connection case with a hashed line for the looked-up name; + %d seeded configurations with 3 key types, up "
              "to 4 entries and gss_* arguments on both callers; + %d auth_* calls (9 entry points x "
              "9 lifecycle points x Transport / ServiceRequestingTransport); distinct = (configuration, credential) and "
              "(point, method, class)" % (len(cases), "a stratified seeded sample of %d" % len(chosen) if c.quick else "all", len(seqs),
                                          sum(1 for x in info if x[0] == "random"), n_life))
    c.extra["exhaustive"] = not c.quick
    c.assumptions = ["the peer in real runs is an honest paramiko server holding the configured keys (arbitrary peers are explored in the model only)",
                     "no GSS-API library: a GSS key exchange / authentication never takes place; what is examined is what the callers do with gss_kex / gss_auth / gss_deleg_creds when the peer negotiates an ordinary key exchange (SSHClient's transport is built without gss_kex for that reason)",
                     "known_hosts tables do not hold two entries for the same (name, key type) within one table"]
