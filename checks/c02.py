META = {
    "level": "fault_enumeration",
    "technique": "TLA+ model of the packet layer with an attacker on the ciphertext stream (PacketLayer.tla: Flip per region, DelByte, InsByte, Drop, Replay, Swap, Cut) model-checked by TLC; every single attack (and sampled double attacks) enumerated by TLC rendered to byte edits of recorded ciphertext of every framing class and run through the real read_message; every byte position of recorded streams flipped / deleted / inserted / truncated; random multi-fault edits; all runs judged by the trace spec",
    "text": "TLC proves on the model that with MAC/tag verification over (keys, sequence number, whole packet) the delivered messages are always an alien-free prefix of the sent ones and that nothing is delivered after the first bad packet, for all placements of <= 2 attacker actions and every sequence of verification modes (MAC compared after / before decryption) of the key epochs, and that dropping the MAC check, the sequence number from the MAC, or deciding the verification mode from an earlier epoch breaks this; real encrypted streams (6 packets incl. a key switch that changes the algorithms - etm -> classic, aead -> classic, classic -> etm ... - on the same pair of Packetizers, recorded from a real sender for each of the 44 framing classes: CTR/CBC/3DES x full, truncated, encrypt-then-MAC x AES-GCM x zlib) are edited - TLC-enumerated (packet, region) attacks, every byte position (flip with mask 01, 80 or FF - all three for every fifth class -, delete, insert, cut), packet drop/replay/swap and seeded multi-fault edits - and fed to a fresh real receiver; TLC checks each run: property clause = what was handed up is an unmodified prefix of what was sent; conformance clause = exactly the model's outcome",
    "note": "trusted: TLC, the in-memory socket, message identification by byte equality, the independent packet reader used only to name the region an edited byte lies in; edits of the plaintext first NEWKEYS are outside 'once encryption is active'; how the receiver fails (exception class) is recorded but not judged here (C38)",
}
import collections
import random

from harness.core import cfg_text, Machinery, run_tlc
from harness.drivers import packet as P

BASE = {"SeqMod": 4, "MaxSwitch": 1, "MaxChunk": 4, "Stricts": "@{TRUE, FALSE}", "Zlibs": "@{TRUE, FALSE}", "Mutations": set(),
        "Modes": {"classic", "etm"}, "Partial": False, "SThreads": set()}
ALL_MODES = {"classic", "etm", "aead"}
INV = ["TypeOK", "PrefixOnly", "NoAlien", "AllDelivered", "NeverFailsHonest", "Caught"]
# receiver without MAC check / MAC without the sequence number / "MAC compared after decryption" decided in an earlier epoch
MUTANTS = {"nomac", "noseq", "stalemode"}
SCRIPTS = {1: "SSKSS", 2: "SKSKS", 3: "SSSS", 4: "KSSSKS"}
MASKS = (0x01, 0x80, 0xFF)


def vkey(clause, suite, op):
    fam, bsize, mode, macsize, z = P.framing_class(suite)
    return "%s:%s:%s%d/%s/mac%d/%s" % (clause, op, fam, bsize, mode, macsize, "zlib" if z else "none")


def semantic_region(rec, pk, off):
    """the leftmost plaintext field whose value an edit of ciphertext byte `off` changes.  With a CBC cipher and
    an encrypted length field (classic framing) any change in the first cipher block changes the length."""
    info = P.suite_info(pk.suite)
    if info["mode"] == "classic" and "-cbc" in pk.suite[0] and off < info["bsize"]:
        return "length"
    return pk.region_of(off)


def offsets_in(rec, pk, region):
    return [o for o in range(len(pk.raw)) if semantic_region(rec, pk, o) == region]



def mac_pairs(R, rec):
    """directed: two bytes of one packet's MAC / tag changed by the SAME mask (a comparison that accumulates the byte
    differences with xor instead of or would see them cancel) - deterministic, does not rely on random MAC values"""
    for i, p_ in enumerate(rec.pkts, 1):
        offs = offsets_in(rec, p_, "mac")
        if len(offs) >= 2:
            for (o1, o2, mask) in ((offs[0], offs[-1], 0x01), (offs[0], offs[1], 0xFF), (offs[len(offs) // 2], offs[-1], 0x80)):
                if o1 != o2:
                    R.run(rec, [("Flip", i, "mac"), ("Flip", i, "mac")], [("FlipAt", i, (o1, mask)), ("FlipAt", i, (o2, mask))], "mac-pair")


class Runner:
    def __init__(self, c):
        self.c = c
        self.batch = []          # traces waiting for TLC
        self.meta = []
        self.terminals = collections.Counter()
        self.ops = collections.Counter()
        self.regions_hit = collections.defaultdict(set)
        self.skipped = 0
        self.done = 0

    def run(self, rec, spec_edits, concrete_ops, stage):
        """spec_edits: [(op, i, region)] in the model's terms; concrete_ops: what apply_edits executes"""
        if rec.reader_error:
            self.c.conformance("independent_reader:" + "/".join(map(str, P.framing_class(rec.suite))),
                               "the independent packet reader cannot open what the sender wrote (%s): %s"
                               % ("/".join(rec.suite), rec.reader_error))
        body, concrete = P.apply_edits(rec, concrete_ops, self.rnd)
        if body is None:          # the byte edits cancelled each other
            self.skipped += 1
            return
        # a byte deletion / insertion is attributed to the packet in which the stream first differs
        # (an insertion that amounts to a byte appended behind the last packet touches no packet at all)
        spec_edits = [(op, cx[1], r) if op in ("DelByte", "InsByte") and cx[0] == op else (op, i, r)
                      for (op, i, r), cx in zip(spec_edits, concrete) if cx[0] != "Append"]
        ev_r, delivered, term = P.run_receiver(rec, body)
        ev = rec.events() + [{"a": op, "i": i, "r": r, "got": 0, "seq": -1} for op, i, r in spec_edits] + ev_r \
            + [{"a": "End", "i": 0, "r": "", "got": 0, "seq": -1}]
        self.batch.append({"strict": rec.strict, "zlib": rec.info["zlib"], "mode0": P.mode_of(rec.suite), "ev": ev})
        # the packet the first edit lands in tells which algorithms were attacked, and after which earlier epochs
        hit = rec.pkts[min(spec_edits[0][1], len(rec.pkts)) - 1] if spec_edits else rec.pkts[-1]
        earlier = [P.mode_of(x) for x in rec.suites[:hit.epoch - 1]]
        m = {"stage": stage, "suite": "/".join(hit.suite), "epoch": hit.epoch, "after": "+".join(earlier) or "-",
             "epochs": ["/".join(x) for x in rec.suites], "strict": rec.strict, "script": "".join(rec.script),
             "edits": [list(e) for e in spec_edits], "bytes": [list(x) for x in concrete], "delivered": delivered, "terminal": term}
        self.meta.append(m)
        self.terminals[term] += 1
        for op, i, r in spec_edits:
            self.ops[op] += 1
            if op == "Flip":
                pk_hit = rec.pkts[min(i, len(rec.pkts)) - 1] if len(spec_edits) == 1 else hit
                self.regions_hit[P.framing_class(pk_hit.suite)].add(r)
                self.regions_hit[P.mode_of(pk_hit.suite)].add(r)
        cls = (P.framing_class(hit.suite), m["after"])
        self.c.case(key=(stage, cls, rec.strict, "".join(rec.script), tuple(map(tuple, concrete))),
                    sample=m if len(self.c.samples) < 6 and len(self.batch) % 977 == 1 else None)
        if len(self.batch) >= 9000:
            self.flush()

    def flush(self):
        if not self.batch:
            return
        c = self.c
        consts = dict(BASE, NMsgs=100000, SeqMod=1073741824, MaxSwitch=1000, MaxChunk=1000, MaxTamper=1000, Modes=ALL_MODES)
        res, _ = c.trace("PacketLayer_Trace", self.batch, cfg_text(spec="TSpec", constants=consts, invariants=["Report"]))
        if {d[1] for d in res["DONE"]} != set(range(1, len(self.batch) + 1)):
            raise Machinery("trace validation consumed %d of %d traces" % (len({d[1] for d in res["DONE"]}), len(self.batch)))
        meta = self.meta

        def describe(tid, clause, row):
            m = meta[tid - 1]
            suite = tuple(m["suite"].split("/"))
            ops = "+".join(sorted({e[0] + ("." + e[2] if e[2] else "") for e in m["edits"]}))
            key = vkey(clause, suite, ops)
            if m["epoch"] > 1 and m["after"].split("+")[-1] != P.mode_of(suite):
                key += ":after-" + m["after"].split("+")[-1]
            return (key,
                    "%s (key epoch %d of this Packetizer, earlier epochs: %s) strict=%s stream %s: after %s (bytes %s) the receiver delivered %s and ended with %s: clause %s fails at event %d"
                    % (m["suite"], m["epoch"], m["after"], m["strict"], m["script"], m["edits"], m["bytes"], m["delivered"], m["terminal"],
                       clause, row[2]), m)
        c.verdicts(res["VERDICT"], describe)
        c.traces += len(self.batch)
        self.done += len(self.batch)
        self.batch, self.meta = [], []


def attack_cases(c, script_id, max_tamper):
    consts = dict(BASE, NMsgs=6, MaxSwitch=2, MaxTamper=max_tamper, MaxChunk=100, SeqMod=1000, ScriptId=script_id, Modes=ALL_MODES)
    r = run_tlc("PacketLayer_Att", cfg_text(spec="ASpec", constants=consts, invariants=["EmitAtt", "PrefixOnly", "NoAlien"]),
                c.work / "att", workers=1)
    if r.error or r.violated:
        raise Machinery("attack enumeration failed: %s %s\n%s" % (r.error, r.violated, r.out[-2000:]))
    c.states += r.distinct
    c.transitions += r.generated
    c.mc_runs.append({"module": "PacketLayer_Att", "name": "script %s, <= %d attacks" % (SCRIPTS[script_id], max_tamper),
                      "distinct": r.distinct, "generated": r.generated, "depth": r.depth, "wall_s": round(r.wall, 1),
                      "expect": "holds", "violated": []})
    cases = {}
    for _, strict, zl, modes, atts, delivered, rstate in r.printed("ATT"):
        cases.setdefault((strict, zl, tuple(modes), tuple(tuple(a) for a in atts)), set()).add((tuple(delivered), rstate))
    return cases


def render(rec, atts, rnd):
    """model attacks -> concrete ops for apply_edits; None if a region cannot be hit in this framing"""
    out = []
    pk = [p for p in rec.pkts]
    for op, i, r in atts:
        if op == "Flip":
            p = pk[i - 1]
            offs = offsets_in(rec, p, r)
            if not offs:
                return None
            out.append(("FlipAt", i, (rnd.choice(offs), rnd.choice(MASKS + (rnd.randint(1, 255),)))))
        else:
            out.append((op, i, r))
        # keep a shadow of the packet list so that later indices refer to the right packet
        if op == "Drop":
            del pk[i - 1]
        elif op == "Replay":
            pk.insert(i, pk[i - 1])
        elif op == "Swap":
            pk[i - 1], pk[i] = pk[i], pk[i - 1]
        elif op == "Cut":
            del pk[i:]
    return out


def run(c):
    rnd = random.Random(c.seed)
    # ---- M: all placements of the attacker's actions; the same exploration also starts behaviours with a seeded
    # defect (no MAC check; MAC without sequence number), each of which must be noticed by a property
    # (key epochs have a verification mode: classic = MAC compared after decryption, etm = before; a key switch may change it)
    if c.quick:
        c.mc_holds("PacketLayer", cfg_text(constants=dict(BASE, NMsgs=3, MaxTamper=1, Zlibs="@{FALSE}"), invariants=INV,
                                           properties=["StopsAtFirstBad"]),
                   name="1 attack, 3 messages, 1 key switch, modes classic/etm")
    else:
        c.mc_holds("PacketLayer", cfg_text(constants=dict(BASE, NMsgs=3, MaxTamper=2, Zlibs="@{FALSE}"), invariants=INV,
                                           properties=["StopsAtFirstBad"]),
                   name="2 attacks, 3 messages, 1 key switch, modes classic/etm", timeout=1500)
        c.mc_holds("PacketLayer", cfg_text(constants=dict(BASE, NMsgs=3, MaxTamper=2, Modes={"classic"}), invariants=INV,
                                           properties=["StopsAtFirstBad"]),
                   name="2 attacks, 3 messages, 1 key switch, with compression", timeout=1500)
    r = c.mc_holds("PacketLayer", cfg_text(constants=dict(BASE, NMsgs=1, MaxTamper=1, Zlibs="@{FALSE}", Stricts="@{TRUE}", Mutations=MUTANTS),
                                           invariants=INV),
                   name="seeded defects %s" % sorted(MUTANTS), workers=1)
    caught = {}
    for x in r.printed("CAUGHT"):
        caught.setdefault(x[1], set()).update(n for n, v in zip(("PrefixOnly", "NoAlien"), x[2:4]) if v)
    if set(caught) != MUTANTS or not all(caught.values()):
        raise Machinery("seeded defects not all noticed by PrefixOnly / NoAlien: %s" % caught)

    # ---- framing classes and their representative suites
    classes = collections.OrderedDict()
    for s in P.suites(["none", "zlib"]):
        classes.setdefault(P.framing_class(s), []).append(s)
    R = Runner(c)
    R.rnd = rnd

    # ---- RP: attacks enumerated by TLC (incl. the framing mode of every key epoch), rendered on suites of those modes
    by_mode = {}
    for s_ in P.suites(["none", "zlib"]):
        by_mode.setdefault((P.mode_of(s_), s_[2] != "none"), []).append(s_)
    plans = [(1, 1)] if c.quick else [(1, 1), (2, 1), (4, 1), (1, 2)]
    n_rp = 0
    for script_id, k in plans:
        cases = attack_cases(c, script_id, k)
        keys = sorted(cases)
        if c.quick:
            keys = [x for x in keys if x[0] == ((hash(x[2]) + x[1] + c.seed) % 2 == 0)]     # one strict-kex setting per mode sequence
        elif k > 1:
            keys = rnd.sample(keys, min(len(keys), 9000))
        recs = {}
        for strict, zl, modes, atts in keys:
            rk = (strict, zl, modes)
            if rk not in recs or recs[rk][1] >= 18:        # a fresh recording (other suites of these modes) every 18 attacks
                su = [rnd.choice(by_mode[(m, zl)]) for m in modes]
                su = [su[0]] + [x[:2] + (su[0][2],) for x in su[1:]]          # compression stays what it is
                # payloads long enough for every region to extend beyond the first cipher block
                recs[rk] = [P.Recorded(su[0], rnd, SCRIPTS[script_id], strict, lengths=[rnd.randint(13, 70) for _ in SCRIPTS[script_id]],
                                       later=su[1:]), 0]
            recs[rk][1] += 1
            rec = recs[rk][0]
            ops = render(rec, atts, rnd)
            if ops is None:
                R.skipped += 1
                continue
            R.run(rec, list(atts), ops, "tlc-attack")
            n_rp += 1

    # ---- TV 1: every byte position
    order = list(classes)
    rnd.shuffle(order)
    chosen = order[:2] if c.quick else order
    n_bytes = 0
    for cls in chosen:
        # the class under test is the epoch AFTER a key switch on the same Packetizer from a suite of another mode
        suite = rnd.choice(classes[cls])
        first = rnd.choice([x for x in P.suites([suite[2]]) if P.mode_of(x) != P.mode_of(suite)])
        rec = P.Recorded(first, rnd, "SSKSSS", rnd.random() < 0.5, lengths=[rnd.randint(1, 24), rnd.randint(1, 24), 40, 1, rnd.randint(1, 24)],
                         later=[suite])
        for i, p in enumerate(rec.pkts, 1):
            for off in range(len(p.raw)):
                reg = semantic_region(rec, p, off)
                masks = MASKS if (not c.quick and chosen.index(cls) % 5 == 0) else (MASKS[(off + i) % 3],)
                for mask in masks:
                    R.run(rec, [("Flip", i, reg)], [("FlipAt", i, (off, mask))], "every-byte")
                R.run(rec, [("DelByte", i, "")], [("DelAt", i, off)], "every-byte")
                R.run(rec, [("InsByte", i, "")], [("InsAt", i, off)], "every-byte")
                if off >= 1:
                    R.run(rec, [("Cut", i, "")], [("CutAt", i, off)], "every-byte")
                n_bytes += 1
        # packet-level: every drop / replay / swap
        for i in range(1, len(rec.pkts) + 1):
            R.run(rec, [("Drop", i, "")], [("Drop", i, "")], "packet-level")
            R.run(rec, [("Replay", i, "")], [("Replay", i, "")], "packet-level")
            if i < len(rec.pkts):
                R.run(rec, [("Swap", i, "")], [("Swap", i, "")], "packet-level")
        mac_pairs(R, rec)
        # the unedited stream must be delivered completely (the edits are what makes the receiver stop)
        R.run(rec, [], [], "control")

    # ---- fixed stratum: the directed MAC-pair edits on MAC-based suites of both verification modes (whatever classes the seed chose above)
    per_mode = {}
    for su in sorted(P.suites()):
        if P.mode_of(su) in ("classic", "etm") and len(per_mode.setdefault(P.mode_of(su), [])) < (2 if c.quick else 6):
            per_mode[P.mode_of(su)].append(su)
    for mode in sorted(per_mode):
        for su in per_mode[mode]:
            mac_pairs(R, P.Recorded(su, rnd, "SSKS", False, lengths=[3, 40, 17]))

    # ---- fixed stratum: every ordered pair of verification modes across a key switch on the same pair of Packetizers (after
    #      the switch the receiver's own sending direction is still in the old mode): the untouched stream must be delivered,
    #      one flipped bit in the payload / MAC of each later packet must be refused
    by_mode = {}
    for su in sorted(P.suites()):
        by_mode.setdefault(P.mode_of(su), su)
    for m1 in sorted(by_mode):
        for m2 in sorted(by_mode):
            if m1 == m2:
                continue
            s1, s2 = by_mode[m1], by_mode[m2]
            rec = P.Recorded(s1, rnd, "SSKSS", False, lengths=[5, 33, 20, 7], later=[s2[:2] + (s1[2],)])
            R.run(rec, [], [], "control")
            switched = False
            for i, p_ in enumerate(rec.pkts, 1):
                if p_.kind != "data":
                    switched = True
                    continue
                if not switched or not p_.raw:
                    continue
                for region in ("payload", "mac"):
                    offs = offsets_in(rec, p_, region)
                    if offs:
                        R.run(rec, [("Flip", i, region)], [("FlipAt", i, (offs[len(offs) // 2], 0x01))], "mode-switch")

    # ---- TV 2: seeded multi-fault edits over all suites
    n_multi = 300 if c.quick else 3000
    all_suites = P.suites()
    for k in range(n_multi):
        suite = all_suites[(k * 7 + c.seed) % len(all_suites)]
        script = "".join(rnd.choice("SSSK") for _ in range(rnd.randint(3, 7)))
        if "S" not in script:
            script += "S"
        # every key switch may move to other algorithms (compression stays)
        later = [rnd.choice(all_suites)[:2] + (suite[2],) if rnd.random() < 0.7 else None for _ in range(script.count("K"))]
        prev = suite
        for j, x in enumerate(later):
            later[j] = prev = x or prev
        rec = P.Recorded(suite, rnd, script, rnd.random() < 0.5, later=later)
        cur = list(range(len(rec.pkts)))      # which recorded packet sits at each position of the edited stream
        spec_e, conc = [], []
        for _ in range(rnd.randint(2, 4)):
            op = rnd.choice(["Flip", "Flip", "Flip", "DelByte", "InsByte", "Drop", "Replay", "Swap", "Cut"])
            if len(cur) < 1 or (op == "Swap" and len(cur) < 2):
                continue
            i = rnd.randint(1, len(cur) - (1 if op == "Swap" else 0))
            orig = rec.pkts[cur[i - 1]]
            if op == "Flip":
                off = rnd.randrange(len(orig.raw))
                spec_e.append(("Flip", i, semantic_region(rec, orig, off)))
                conc.append(("FlipAt", i, (off, rnd.randint(1, 255))))
            elif op in ("DelByte", "InsByte"):
                spec_e.append((op, i, ""))
                conc.append(("DelAt" if op == "DelByte" else "InsAt", i, rnd.randrange(len(orig.raw))))
            elif op == "Cut":
                spec_e.append((op, i, ""))
                conc.append(("CutAt", i, rnd.randrange(1, len(orig.raw))))
                del cur[i:]
            else:
                spec_e.append((op, i, ""))
                conc.append((op, i, ""))
                if op == "Drop":
                    del cur[i - 1]
                elif op == "Replay":
                    cur.insert(i, cur[i - 1])
                else:
                    cur[i - 1], cur[i] = cur[i], cur[i - 1]
        if spec_e:
            R.run(rec, spec_e, conc, "multi-fault")
    R.flush()

    # every region of every class must have been hit (quick: by the TLC-enumerated attacks)
    for cls in (list(classes) if not c.quick else []) + sorted(ALL_MODES):      # quick: every region of every mode
        missing = {"length", "padlen", "payload", "padding", "mac"} - R.regions_hit[cls]
        if isinstance(cls, tuple) and cls[0] == "cbc" and cls[2] == "classic":
            missing -= {"padlen"}          # cannot be changed without changing the (encrypted) length block
        if missing:
            raise Machinery("no edit hit region(s) %s of %s" % (sorted(missing), cls))
    if R.terminals.get("EOF", 0) == 0 or sum(v for k, v in R.terminals.items() if k != "EOF") == 0:
        raise Machinery("terminal conditions not exercised: %s" % dict(R.terminals))
    c.extra["framing_classes"] = len(classes)
    c.extra["terminal_conditions"] = dict(R.terminals)
    c.extra["edit_operations"] = dict(R.ops)
    c.extra["byte_positions_enumerated"] = n_bytes
    c.extra["tlc_attacks_rendered"] = n_rp
    c.extra["tlc_attacks_not_renderable"] = R.skipped
    c.extra["exhaustive"] = not c.quick
    c.rule = ("(1) every attack sequence TLC enumerates on a scripted stream with a key switch, for every sequence of framing modes of the key "
              "epochs (1 attack: Flip x 5 regions, DelByte, InsByte, Drop, Replay, Swap, Cut x every packet; thorough: 3 scripts + sampled "
              "2-attack sequences) rendered on random suites of those modes out of the %d framing classes, strict kex on/off; "
              "(2) every byte offset of a recorded 6-packet stream (incl. an encrypted NEWKEYS that switches the same Packetizers from a suite of "
              "another mode to the class under test) x {flip, delete, insert, cut} for %s classes + every "
              "packet drop/replay/swap; (3) seeded 2-4 fault edits over all suites, algorithms changing at key switches.  distinct = distinct (stage, framing class, strict, script, "
              "concrete byte edit)" % (len(classes), "2 seed-chosen" if c.quick else "all"))
    c.assumptions = ["the attacker acts after encryption is active (the plaintext initial NEWKEYS is not edited)",
                     "sequence numbers do not wrap within a stream (2^32 packets)",
                     "an edit is judged by what read_message hands up; the class of the exception is not judged (C38)"]
