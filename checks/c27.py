META = {
    "level": "model_checking",
    "technique": "TLA+ reference semantics of a Python binary file (BinFile.tla, validated against real unbuffered local files on every run) and a model of SFTPFile/BufferedFile over a served file run in lockstep with it (BinFile_Impl.tla, TLC: pinned code yields counterexamples per defect class, repaired model agrees); TLC-generated programs and counterexamples replayed on a real SFTPClient/SFTPServer pair; seeded random programs (clean and unrestricted populations) on the real pair validated call by call and on final bytes by TLC",
    "text": "random programs of up to 40 read/readline/readlines/write/seek/tell/flush/truncate/close calls run on a local binary file (buffering=0) and through SFTPClient.open against a real SFTPServer over a temp directory, every mode and bufsize in {-1,0,1,2,7,512,65536}, pipelined or not; TLC checks every returned value and the final bytes against BinFile and computes a finding signature (clause, hazardous context, operation class, mode class) for the first divergence of a trace; clean programs avoid every known hazardous context, so any rejection there is a violation; BinFile_Impl model-checks the client's position/read-ahead/write-buffer bookkeeping against the reference for all programs of 3 calls",
    "note": "trusted: TLC, CPython's FileIO as the reference (the spec must accept its traces or the check stops), the in-process server interface (copy of the test-suite stub using SFTPHandle.read/write and set_file_attr); file contents stay below ~3 KiB so the 32 KiB request splitting is not exercised here (C28 covers large transfers); readlines(sizehint) and universal-newline mode are not generated",
}
import json
import os
import random
import re

from harness import tla
from harness.core import cfg_text, Machinery
from harness.drivers import files as drv

MODES = ["r", "r+", "w", "w+", "a", "a+", "x", "x+"]
BUFSIZES = [-1, 0, 1, 2, 7, 512, 65536]
OPNAMES = ["read", "readline", "readlines", "write", "seek", "tell", "truncate", "flush", "close"]
FIXES = ["FixHelper", "FixFlushFirst", "FixAppendSize", "FixReadahead", "FixNegSeek", "FixTruncRO", "FixClosedOps", "FixHandleTell"]
IMPL = {"Alphabet": {10, 97}, "InitLens": {3}, "ModesUsed": {"r", "r+", "w", "w+", "a", "a+"}, "Bufs": {0, 1, 2},
        "MaxOps": 3, "ReadNs": {0, 1, 2}, "MaxWrite": 2, "MaxSeek": 2, "TruncNs": {0, 1, 4}}
# the server-side position cache needs 5 calls (seek, read, write, seek, read) on an append+read handle
APPEND5 = {"ModesUsed": {"a+"}, "Bufs": {0}, "MaxOps": 5, "ReadNs": {1}, "MaxWrite": 1, "MaxSeek": 2, "TruncNs": "@{}"}
TRACE_CFG = cfg_text(spec="TSpec", invariants=["Report"])


def ev(op, n=0, data=b"", off=0, whence=0):
    return {"op": op, "n": n, "data": list(data), "off": off, "whence": whence}


def fixes(**off):
    d = {k: True for k in FIXES}
    d.update(off)
    return d


def rand_bytes(rnd, n):
    return bytes(rnd.choice([10, 10, rnd.randrange(256), rnd.randrange(97, 123), rnd.randrange(97, 123)]) for _ in range(n))


def make_program(rnd, clean, mode, bufsize, initial, path):
    """generate a program while running it on the reference (a local unbuffered file), so the generator knows the
    reference position and size without re-implementing file semantics.  Clean programs stay out of every
    hazardous context BinFile_Trace knows (Cause): they flush before tell/read/readline/readlines/truncate when a
    buffered write may be pending, reposition (seek(0, 1)) between reading and write/truncate, never seek below 0,
    never truncate a read-only or append-mode handle and make no call after close."""
    drv.prepare(path, mode, initial)
    f = open(path, drv.LOCAL_MODE[mode], buffering=0)
    readable, writable, append = mode in ("r", "r+", "w+", "a+", "x+"), mode != "r", mode in ("a", "a+")
    prog, closed, dirty, rahead = [], False, False, False
    # offset coincidences: seek targets also come from positions reached earlier and from "where the last read
    # ended + what was written since" (position caches on either side of the protocol are keyed by such sums)
    marks, last_read_end, written_since = [0], 0, 0
    steps = rnd.randint(1, 39)
    try:
        while len(prog) < steps:
            size = os.path.getsize(path)
            pos = f.tell() if not closed else 0
            op = rnd.choices(["read", "readall", "readline", "readlines", "write", "seek", "tell", "truncate", "flush", "close"],
                             [14, 3, 12, 2, 26, 15, 10, 5, 8, 0 if clean else 1])[0]
            if clean:
                if op in ("read", "readall", "readline", "readlines") and not readable:
                    continue
                if op in ("write", "truncate") and not writable:
                    continue
                if op == "truncate" and append:
                    continue
            if op == "read":
                n = rnd.choice([1, 1, 2, 3, 5, 10, 50, rnd.randint(1, 400)] + ([0] if readable and not closed else []))
                e = ev("read", n)
            elif op == "readall":
                e = ev("read", -1)
            elif op == "readline":
                e = ev("readline", rnd.choice([-1, -1, -1, 1, 2, 5, 20, rnd.randint(1, 80)] + ([0] if readable and not closed else [])))
            elif op == "readlines":
                e = ev("readlines")
            elif op == "write":
                e = ev("write", data=rand_bytes(rnd, rnd.choice([1, 1, 2, 3, 6, 10, 30, rnd.randint(1, 60)])))
            elif op == "seek":
                wh = rnd.choice([0, 0, 1, 2])
                base = (0, pos, size)[wh]
                target = rnd.choice([0, size, max(0, size - 1), size + rnd.randint(0, 10), rnd.randint(0, size), rnd.randint(0, size),
                                     pos, max(0, pos - rnd.randint(0, 5)), pos + rnd.randint(0, 5), rnd.choice(marks), rnd.choice(marks)])
                if not clean and rnd.random() < 0.08:
                    target = -rnd.randint(1, 4)
                e = ev("seek", off=target - base, whence=wh)
            elif op == "tell":
                e = ev("tell")
            elif op == "truncate":
                e = ev("truncate", rnd.choice([0, size, max(0, size - 1), size + 1, rnd.randint(0, size), rnd.randint(0, size), size + rnd.randint(1, 20)]))
            elif op == "flush":
                e = ev("flush")
            else:
                e = ev("close")
            if clean:
                if dirty and e["op"] in ("read", "readline", "readlines", "tell", "truncate"):
                    prog.append(ev("flush"))
                    f.flush()
                    dirty = False
                if rahead and e["op"] in ("write", "truncate"):
                    prog.append(ev("seek", off=0, whence=1))
                    f.seek(0, 1)
                    rahead = False
            prog.append(e)
            try:
                drv.do_op(f, e)
                okay = True
            except Exception:
                okay = False
            if e["op"] == "close":
                closed = True
            if okay and not closed:
                marks.append(f.tell())
                if e["op"] in ("read", "readline", "readlines"):
                    last_read_end, written_since = f.tell(), 0
                elif e["op"] == "write":
                    written_since += len(e["data"])
                    marks += [last_read_end + written_since] * 3
                del marks[:-10]
            if okay:
                if e["op"] == "write" and bufsize > 0:
                    dirty = True
                elif e["op"] in ("flush", "seek", "close"):
                    dirty = False
                if e["op"] in ("readline", "readlines") or (e["op"] == "read" and e["n"] >= 0 and bufsize > 0):
                    rahead = True
                elif e["op"] == "seek":
                    rahead = False
    finally:
        f.close()
    if not prog or prog[-1]["op"] != "close":
        prog.append(ev("close"))
    return prog


def state_values(text):
    """TLC counterexample state text -> {variable: python value}"""
    out = {}
    for part in re.split(r"\n?/\\ ", "\n" + text):
        if " = " in part:
            name, val = part.split(" = ", 1)
            out[name.strip()] = tla.parse(val)
    return out


_prog = re.compile(r'<<\s*"PROG"\s*,([\s\d,<>\-]*)>>')


def emitted_programs(out):
    res = []
    for m in _prog.finditer(out):
        mode, buf, ilen, prog = json.loads("[" + m.group(1).replace("<<", "[").replace(">>", "]") + "]")
        res.append((drv_mode(mode), buf, ilen, [ev(OPNAMES[e[0] - 1], e[1], bytes(e[2]), e[3], e[4]) for e in prog]))
    return res


def drv_mode(code):
    return MODES[code - 1]


def pattern(k):
    return bytes(10 if i % 2 == 0 else 97 for i in range(1, k + 1))


class Runner:
    def __init__(self, c):
        self.c = c
        self.root = c.work / "served"
        self.root.mkdir(parents=True, exist_ok=True)
        self.localdir = c.work / "local"
        self.localdir.mkdir(parents=True, exist_ok=True)
        self.pair = drv.SftpPair(self.root)
        self.local, self.remote, self.meta = [], [], []
        self.n = 0

    def run(self, pop, mode, bufsize, pipelined, initial, prog, run_local=True):
        """run one program on the reference and on paramiko; queue both traces for TLC"""
        c = self.c
        self.n += 1
        base = {"mode": mode, "bufsize": bufsize, "initial": list(initial)}
        if run_local:
            evs, final = drv.run_local(str(self.localdir / ("l%d" % (self.n % 16))), mode, initial, prog)
            self.local.append(dict(base, who="local", events=evs, final=final))
        res = drv.run_sftp(self.pair, "s%d" % (self.n % 16), mode, bufsize, pipelined, initial, prog)
        mclass = "ro" if mode == "r" else "a" if mode in ("a", "a+") else "w"
        if res[0] == "hang":
            op = prog[res[1]]["op"]
            opclass = "read" if op in ("read", "readline", "readlines") else op
            c.violation(("clean:" if pop == "clean" else "") + "P_hang/%s/%s" % (opclass, mclass),
                        "mode %s bufsize %d pipelined=%s: call %d (%s) of the program did not return within 60 s" % (mode, bufsize, pipelined, res[1] + 1, op),
                        {"mode": mode, "bufsize": bufsize, "pipelined": pipelined, "initial": list(initial), "program": prog})
            self.pair.close()
            self.pair = drv.SftpPair(self.root)
            return
        evs, final = res
        self.remote.append(dict(base, who="sftp", events=evs, final=final))
        self.meta.append({"pop": pop, "mode": mode, "bufsize": bufsize, "pipelined": pipelined, "initial": list(initial), "program": prog})
        for e in evs:
            c.case(key=(pop == "clean", mode, min(bufsize, 3), pipelined, e["op"], e["ret"]["k"], min(e["n"], 2), e["whence"]))

    def validate(self):
        """TLC judges all queued traces (local and sftp traces share the batches: one JVM start per 1500 programs);
        local ones must be accepted - the spec IS the reference - before any sftp verdict is believed"""
        c = self.c
        step = 1500
        verdicts, pending = [], []
        nloc = 0
        for i in range(0, len(self.remote), step):
            chunk = self.remote[i:i + step]
            loc = self.local[nloc:nloc + step] if i + step < len(self.remote) else self.local[nloc:]
            nloc += len(loc)
            res, _ = c.trace("BinFile_Trace", loc + chunk, TRACE_CFG)
            if len(res["DONE"]) != len(loc) + len(chunk):
                raise Machinery("trace validation consumed %d of %d traces" % (len(res["DONE"]), len(loc) + len(chunk)))
            for row in res["VERDICT"]:
                if row[1] <= len(loc):
                    t = loc[row[1] - 1]
                    raise Machinery("BinFile.tla rejects a trace of the reference implementation (local file, mode %s): %r at call %d: %r"
                                    % (t["mode"], row[-1], row[2], t["events"][min(row[2], len(t["events"])) - 1]))
                verdicts.append([row[0], row[1] - len(loc) + i] + row[2:])
            for row in res["DONE"]:
                if row[1] > len(loc):
                    m = self.meta[i + row[1] - len(loc) - 1]
                    if m["pop"] == "clean" and not set(row[2]) <= {"after_truncate", "after_append_write"}:
                        raise Machinery("the clean generator produced a program in hazardous context %r: %r" % (list(row[2]), m))
        if nloc != len(self.local):
            raise Machinery("reference traces left unvalidated")
        c.extra["reference_traces_accepted"] = len(self.local)
        c.traces += len(self.remote)
        return verdicts

    def close(self):
        self.pair.close()


def finding_key(clause, cause, opclass, mclass):
    """the signature BinFile_Trace computed, as a string.  For the sticky causes (the two files silently diverged at an
    earlier call) which later call or the final bytes reveal it is incidental: those findings are keyed by cause and
    mode class only."""
    if cause.startswith("after_"):
        return "%s/%s" % (cause, mclass)
    return "%s/%s/%s/%s" % (clause, cause, opclass, mclass)


def describe_with(runner):
    def describe(tid, clause, row):
        m = runner.meta[tid - 1]
        t = runner.remote[tid - 1]
        line = row[2]
        name, cause, opclass, mclass = clause
        key = ("clean:" if m["pop"] == "clean" else "") + finding_key(name, cause, opclass, mclass)
        if opclass == "final":
            what = ("mode %s bufsize %d%s: final served bytes differ from the local file after %d calls (context: %s): %d bytes %r.."
                    % (m["mode"], m["bufsize"], " pipelined" if m["pipelined"] else "", len(t["events"]), cause, len(t["final"]), bytes(t["final"][:24])))
        else:
            e = t["events"][line - 1]
            arg = e["n"] if e["op"] in ("read", "readline", "truncate") else (e["off"], e["whence"]) if e["op"] == "seek" else \
                bytes(e["data"][:16]) if e["op"] == "write" else ""
            got = e["ret"]
            shown = "raised " + e["exc"] if got["k"] == "err" else bytes(got["b"][:32]) if got["k"] == "bytes" else got["i"] if got["k"] == "int" else \
                [bytes(x[:12]) for x in got["ls"][:4]] if got["k"] == "lines" else None
            what = ("mode %s bufsize %d%s: call %d %s(%s) %s, a local binary file does otherwise (context: %s; program of %d calls)"
                    % (m["mode"], m["bufsize"], " pipelined" if m["pipelined"] else "", line, e["op"], arg,
                       ("returned %r" % (shown,)) if got["k"] != "err" else shown, cause, len(t["events"])))
        rep = dict(m, failing_call=line, program=m["program"][:line if opclass != "final" else None])
        return key, what, rep
    return describe


def run(c):
    quick = c.quick
    rnd = random.Random(c.seed)
    runner = Runner(c)
    try:
        # ---- M: the pinned code as modelled diverges from the reference; TLC's counterexample is replayed below
        cex = []
        # (the server-side position cache is the one class random programs rarely reach: its model counterexample is
        # replayed in every tier)
        classes = [("pinned", fixes(**{k: False for k in FIXES}))] + [(k, fixes(**{k: False})) for k in (FIXES[-1:] if quick else FIXES)]
        for name, fx in classes:
            base = dict(IMPL, **APPEND5) if name == "FixHandleTell" else IMPL
            r = c.mc("BinFile_Impl", cfg_text(constants=dict(base, **fx), invariants=["Agree"], view="View"), expect="Agree", name="without-" + name)
            states = r.counterexample()
            if not states:
                raise Machinery("no counterexample printed for %s" % name)
            v = state_values(states[-1][1])
            cex.append((name, v["modeStr"], v["im"]["buf"], v["initLen"], [ev(e["op"], e["n"], bytes(e["data"]), e["off"], e["whence"]) for e in v["prog"]]))
        # ---- M: with the eight repairs the client agrees with the reference on every program of the bound
        deep = dict(IMPL, **fixes()) if quick else dict(IMPL, InitLens={0, 3, 4}, **fixes())
        c.mc_holds("BinFile_Impl", cfg_text(constants=deep, invariants=["Agree", "ReadaheadCoherent"], view="View"), name="repaired")
        if not quick:
            c.mc_holds("BinFile_Impl", cfg_text(constants=dict(IMPL, **dict(APPEND5, **fixes())), invariants=["Agree", "ReadaheadCoherent"], view="View"),
                       name="repaired-append-5-calls")
        # ---- generation: every program of 2 calls (+ close) of the bounded model
        gen = dict(IMPL, MaxOps=2, **fixes())
        if quick:
            gen.update(ReadNs={1}, MaxWrite=1, MaxSeek=1, TruncNs={1}, Bufs={0, 2})
        g = c.mc_holds("BinFile_Impl", cfg_text(constants=gen, invariants=["Agree", "Emit"]), name="programs", workers=1)
        progs = emitted_programs(g.out)
        if len(progs) != g.out.count('"PROG"') or len(progs) < 3000:
            raise Machinery("parsed %d of %d emitted programs" % (len(progs), g.out.count('"PROG"')))

        # ---- RP: counterexamples on the real pair (they must diverge there too, with some signature)
        ncex = len(runner.remote)
        for name, mode, buf, ilen, prog in cex:
            if prog[-1]["op"] != "close":
                prog = prog + [ev("close")]
            runner.run("model", mode, buf, False, pattern(ilen), prog)
        cex_range = (ncex, len(runner.remote))
        # ---- RP: the emitted programs (a seeded sample in the quick tier)
        sample = progs if not quick else rnd.sample(progs, 400)
        for mode, buf, ilen, prog in sample:
            runner.run("model", mode, buf, False, pattern(ilen), prog)
        nmodel = len(sample)

        # ---- TV: random programs, two populations
        nprog = 300 if quick else 5000
        for i in range(nprog):
            clean = i % 2 == 0
            mode = rnd.choice(MODES)
            bufsize = rnd.choice(BUFSIZES)
            initial = rand_bytes(rnd, rnd.choice([0, 1, 5, 50, rnd.randint(0, 300)]))
            prog = make_program(rnd, clean, mode, bufsize, initial, str(runner.localdir / "gen"))
            runner.run("clean" if clean else "unrestricted", mode, bufsize, rnd.random() < 0.4, initial, prog)
        verdicts = runner.validate()
    finally:
        runner.close()

    # model counterexamples that the real code does not reproduce: drift (or an already repaired tree), never an alarm
    hit = {row[1] for row in verdicts}
    for j, (name, mode, buf, ilen, prog) in zip(range(*cex_range), cex):
        if (j + 1) not in hit:
            c.conformance("model_counterexample_not_reproduced:" + name,
                          "BinFile_Impl without %s diverges on mode %s bufsize %d %r but the real client/server agrees with the local file" % (name, mode, buf, prog))
    c.verdicts([row for row in verdicts], describe_with(runner))
    c.rule = ("RP: TLC counterexamples of the pinned-code model + %d of the %d complete 2-call programs of BinFile_Impl (6 modes x bufsize 0/1/2) on the real pair; "
              "TV: %d seeded random programs of up to 40 calls (half clean, half unrestricted), modes %s, bufsize in %s, pipelined or not, run on a local "
              "unbuffered file (reference validation of the spec) and through SFTPClient.open; distinct = (population, mode, bufsize class, pipelined, call, result kind, "
              "argument class)" % (nmodel, len(progs), nprog, "/".join(MODES), BUFSIZES))
    c.assumptions = ["file sizes below 3 KiB (single-request reads and writes)", "readlines() without sizehint; no universal-newline mode",
                     "zero-length writes and zero-length reads on non-readable files are not generated (degenerate in CPython)",
                     "the reference is CPython's FileIO on the local filesystem (buffering=0)"]
