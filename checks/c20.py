META = {
    "level": "model_checking",
    "technique": "TLA+ model of both ends of one channel at critical-section grain (Channel.tla) model-checked by TLC: liveness (every pending send ends) under weak fairness with readers that read both streams forever, over the threshold classes window vs. its crediting threshold, packet vs. window, stdout/stderr split and extended-data type codes; safety forms 'every byte of the window is somewhere' (Conservation), 'no sender starves at rest' and 'no received byte is dropped uncredited'; the TLC counterexample for discarded extended data is driven on two real Channel objects under a deterministic thread scheduler (linesched); schedules of a real sender/receiver pair with looping readers are logged and judged by TLC with the design spec's invariants (Channel_Trace.tla)",
    "text": "TLC checks that with readers that keep reading, every send/sendall eventually ends whatever the window, threshold and packet classes (and shows it fails when the threshold reaches the window, a class paramiko cannot configure), and that peer window + bytes in flight + buffered + consumed-but-uncredited + adjustments in flight always equals the initial window. The pinned model discards extended data of types other than 1 without crediting it: TLC must produce that counterexample; it is replayed on the real code. Real channels: senders moving 1-3 windows of data split over stdout/stderr (and, as a foreign peer would, extended-data types 0..5) against looping readers, windows >= 32768 and packets >= 4096 over their threshold classes; when a schedule ends TLC evaluates Conservation and NoStarvation on the channel attributes at rest (a sender blocked with everything read and nothing in flight is a flow-control deadlock)",
    "note": "trusted: TLC, linesched (a hang = no controlled thread can run and no timeout is pending), the fake transport, harness dispatch. Bytes received after the peer's EOF/CLOSE, after a local close or after shutdown(0|2) need not be credited (reading chosen in favour of the code). Conservation is evaluated only at rest, so a byte 'eventually' credited cannot be mistaken for a lost one",
}
import random
import time
from harness.core import cfg_text, Machinery
from harness.drivers import channel as dc

INVS = ["Conservation", "NoStarvation", "EveryByteCredited"]
D = {"dB_out", "dB_err"}
BASE = dict(UsersA={"a1", "a2"}, UsersB="@{}", Daemons=D, OpsA="@{}", OpsB="@{}", MaxCalls=1, W0=3, MaxPkt=2, PeerMax=2,
            Thresh=0, SendN=4, Codes={1}, ReadSizes={1, 2}, Modes={"block"}, Loss=False,
            FixRace=False, FixSendall=False, FixCredit=True, Mut="none", SpinCap=3, HoldBack=False)
U = 4032
LIVE = dict(spec="FairSpec", properties=["Progress"])
LEAK = "pinned _feed_extended: type-2 extended data discarded without credit"


def model(c, runs):
    one = dict(BASE, UsersA={"a1"})
    jobs = [
        dict(name="safety: 1 sender x 2 calls (send, sendall, sendall_stderr with types 1,2), looping readers", module="Channel",
             cfg=cfg_text(constants=dict(one, OpsA={"sendall", "sendall_err", "send"}, Codes={1, 2}, MaxCalls=2, SendN=3,
                                         ReadSizes={2} if c.quick else {1, 2}), invariants=INVS)),
        dict(name=LEAK, module="Channel", expect="EveryByteCredited",
             cfg=cfg_text(constants=dict(one, OpsA={"send_err"}, Codes={2}, FixCredit=False, SendN=2), invariants=["EveryByteCredited"])),
        dict(name="liveness: window 3 packet 2 threshold 0, stdout+stderr, types 1,2 credited", module="Channel",
             cfg=cfg_text(constants=dict(one, OpsA={"sendall", "sendall_err"}, Codes={1, 2}, ReadSizes={2}), invariants=[], **LIVE)),
        dict(name="only discarded-type extended data, more than a window: credited and adjusted, the sender finishes", module="Channel",
             cfg=cfg_text(constants=dict(one, OpsA={"sendall_err"}, Codes={2}, SendN=5, ReadSizes={2}), invariants=INVS, **LIVE)),
        dict(name="sensitivity: credit_silent (discarded bytes counted but no adjustment sent): the sender starves", module="Channel",
             expect="NoStarvation",
             cfg=cfg_text(constants=dict(one, OpsA={"sendall_err"}, Codes={2}, SendN=5, ReadSizes={2}, Mut="credit_silent"), invariants=INVS)),
        dict(name="the receiving side has sent its own EOF (shutdown_write) and keeps reading: still credited", module="Channel",
             cfg=cfg_text(constants=dict(one, OpsA={"sendall", "sendall_err"}, UsersB={"b1"}, OpsB={"shutdown_write"}, ReadSizes={2}),
                          invariants=INVS)),
        dict(name="sensitivity: eof_sent_stops_credit (_check_add_window returns 0 once the side sent EOF)", module="Channel",
             expect="Conservation|NoStarvation",
             cfg=cfg_text(constants=dict(one, OpsA={"sendall", "sendall_err"}, UsersB={"b1"}, OpsB={"shutdown_write"}, ReadSizes={2},
                                         Mut="eof_sent_stops_credit"), invariants=INVS)),
        dict(name="window = packet, threshold 1, reads of 1 (an unreported remainder stays): the sender still finishes", module="Channel",
             cfg=cfg_text(constants=dict(one, OpsA={"sendall"}, W0=3, MaxPkt=3, PeerMax=3, Thresh=1, SendN=6, ReadSizes={1}), invariants=INVS, **LIVE)),
        dict(name="sensitivity: wait_full_message (the sender waits for window >= the whole next message; the lazy adjust never gets it there)",
             module="Channel", expect="NoStarvation",
             cfg=cfg_text(constants=dict(one, OpsA={"sendall"}, W0=3, MaxPkt=3, PeerMax=3, Thresh=1, SendN=6, ReadSizes={1}, Mut="wait_full_message"),
                          invariants=INVS)),
        dict(name="liveness, pinned discard: the sender starves", module="Channel", expect="<liveness>",
             cfg=cfg_text(constants=dict(one, OpsA={"sendall_err"}, Codes={1, 2}, FixCredit=False, MaxCalls=2, SendN=5, ReadSizes={2}),
                          invariants=[], **LIVE)),
    ]
    if not c.quick:
        jobs += [
            dict(name="window < packet, threshold 1, reads of 1 and 2", module="Channel",
                 cfg=cfg_text(constants=dict(one, OpsA={"sendall", "sendall_err"}, W0=2, MaxPkt=3, PeerMax=3, Thresh=1, SendN=5, ReadSizes={1, 2}),
                              invariants=INVS, **LIVE)),
            dict(name="window = packet = 4, threshold 2, reads of 1 and 3, 2 senders", module="Channel", kw={"timeout": 850, "workers": 4},
                 cfg=cfg_text(constants=dict(BASE, OpsA={"sendall", "sendall_err"}, W0=4, MaxPkt=4, PeerMax=4, Thresh=2, SendN=5, ReadSizes={1, 3}),
                              invariants=INVS, **LIVE)),
            dict(name="liveness: the receiving side has sent its own EOF and keeps reading", module="Channel", kw={"timeout": 850, "workers": 4},
                 cfg=cfg_text(constants=dict(one, OpsA={"sendall", "sendall_err"}, UsersB={"b1"}, OpsB={"shutdown_write"}, ReadSizes={2}),
                              invariants=[], **LIVE)),
            dict(name="liveness: packet > window (window 2 packet 3 threshold 1)", module="Channel",
                 cfg=cfg_text(constants=dict(one, OpsA={"sendall", "sendall_err"}, W0=2, MaxPkt=3, PeerMax=3, Thresh=1, MaxCalls=2), invariants=[], **LIVE)),
            dict(name="safety: 2 senders (sendall, sendall_stderr with types 1,2), looping readers", module="Channel",
                 kw={"timeout": 850, "workers": 4},
                 cfg=cfg_text(constants=dict(BASE, OpsA={"sendall", "sendall_err"}, Codes={1, 2}, SendN=3, ReadSizes={2}), invariants=INVS)),
            dict(name="liveness: 1 sender x 2 calls, types 1,2 credited", module="Channel", kw={"timeout": 850, "workers": 4},
                 cfg=cfg_text(constants=dict(one, OpsA={"sendall", "sendall_err"}, Codes={1, 2}, MaxCalls=2, ReadSizes={2}), invariants=[], **LIVE)),
            dict(name="liveness: threshold = window (not configurable in paramiko) starves", module="Channel", expect="<liveness>",
                 cfg=cfg_text(constants=dict(one, OpsA={"sendall"}, W0=2, MaxPkt=2, Thresh=2), invariants=[], **LIVE)),
            dict(name="safety, pinned discard: NoStarvation / Conservation", module="Channel", expect="Conservation|NoStarvation",
                 cfg=cfg_text(constants=dict(one, OpsA={"sendall_err"}, Codes={1, 2}, FixCredit=False, MaxCalls=2, SendN=5),
                              invariants=["Conservation", "NoStarvation"])),
            dict(name="sensitivity: no_decrement", module="Channel", expect="Conservation",
                 cfg=cfg_text(constants=dict(BASE, OpsA={"sendall"}, Mut="no_decrement"), invariants=INVS)),
            dict(name="sensitivity: over_ack", module="Channel", expect="Conservation",
                 cfg=cfg_text(constants=dict(BASE, OpsA={"sendall"}, Mut="over_ack"), invariants=INVS)),
        ]
        for (w, p, t) in ((4, 2, 1), (3, 3, 2), (5, 2, 0), (5, 4, 3)):
            jobs.append(dict(name="liveness: window %d packet %d threshold %d, 2 senders" % (w, p, t), module="Channel",
                             kw={"timeout": 850, "workers": 4},
                             cfg=cfg_text(constants=dict(BASE, OpsA={"sendall", "sendall_err"}, W0=w, MaxPkt=p, PeerMax=p, Thresh=t, SendN=3,
                                                         ReadSizes={2}), invariants=[], **LIVE)))
        jobs.append(dict(name="liveness: both directions at once", module="Channel", kw={"timeout": 850, "workers": 4},
                         cfg=cfg_text(constants=dict(BASE, UsersA={"a1"}, UsersB={"b1"}, Daemons={"dA_err", "dB_out"},
                                                     OpsA={"sendall"}, OpsB={"sendall_err"}, W0=2, SendN=3, ReadSizes={2}), invariants=[], **LIVE)))
    res = dc.mc_batch(c, jobs, parallel=12)
    # RP: the discard counterexample on the real code (then judged by the trace spec like every other schedule)
    consts = dict(one, SendN=2)
    prog, plan = dc.plan_from_counterexample(res[LEAK], consts, U)
    prog["par"]["win"] = {"A": 32768, "B": 32768}
    ex = dc.replay_plan(prog, plan)
    if ex.drift:
        c.conformance("counterexample_not_followed:discard", "the schedule of the TLC counterexample could not be followed on this tree: %s" % ex.drift)
    runs.add(prog, "tlc-counterexample", ex, plan)
    c.case(key=("cex", "discard"), sample={"program": prog, "plan": plan})


WINS = [32768, 32769, 40960, 65535, 70000]
FIXED = [
    # window relative to packet size (window == packet, window < packet) with read sizes that leave an unreported remainder
    # below the crediting threshold: the sender must still get everything through
    {"win": 32768, "pkt": 32768, "read": 1000, "threads": {"a1": [("sendall", 70000)]}},
    {"win": 32768, "pkt": 65536, "read": 1000, "threads": {"a1": [("sendall", 40000)]}},
    {"win": 40000, "pkt": 40000, "read": 777, "threads": {"a1": [("sendall_err", 90000)]}},
    # the receiving side shuts down ITS OWN sending direction and keeps reading: the peer must still get its window back
    {"win": 32768, "pkt": 32768, "threads": {"a1": [("sendall", 70000)], "b1": [("shutdown_write",)]}},
    {"win": 32769, "pkt": 4096, "threads": {"a1": [("sendall_err", 40000)], "b1": [("shutdown_write",)]}},
    # ONLY discarded-type extended data, for more than a full window, the readers blocked in recv / recv_stderr all the time
    {"win": 32768, "pkt": 8192, "threads": {"a1": [("sendall_ext", 40000, 2)]}},
    {"win": 32768, "pkt": 2 ** 32 - 1, "threads": {"a1": [("sendall_ext", 32769, 0)]}},
    {"win": 32769, "pkt": 4096, "threads": {"a1": [("sendall_ext", 20000, 3)], "a2": [("sendall_ext", 20000, 5)]}},
    {"win": 40960, "pkt": 16384, "threads": {"a1": [("sendall_ext", 100000, 4)]}},
    {"win": 32768, "pkt": 4096, "threads": {"a1": [("send_ext", 3000, 2), ("sendall", 40000)]}},
    {"win": 32768, "pkt": 32768, "threads": {"a1": [("sendall", 70000)], "a2": [("sendall_err", 40000)]}},
    {"win": 32768, "pkt": 2 ** 32 - 1, "threads": {"a1": [("sendall_err", 100000)]}},
    {"win": 40960, "pkt": 4160, "threads": {"a1": [("sendall", 4096 * 11)]}},
]


def programs(rnd, n, quick=False):
    progs = []
    for _ in range(n):
        win = rnd.choice(WINS[:3] if quick else WINS)
        # packet classes: minimum, just above the crediting threshold, at the window, above it
        pkt = rnd.choice([4096, win // 10 + 64, win // 10 + 65, win // 2, win, win + 64, 2 * win, 2 ** 32 - 1])
        pkt = max(pkt, 4096)
        par = {"win": {"A": 32768, "B": win}, "pkt": {"A": 32768, "B": pkt}, "tmo": {"A": "block", "B": "block"}}
        th = {}
        total = rnd.choice([win - 1, win, win + 1, win + win // 10 + 1, 2 * win + 7] + ([] if quick else [3 * win]))
        ns = rnd.choice([1, 2])
        for i in range(ns):
            ops = []
            if rnd.random() < 0.25:       # nothing but discarded types, for more than the window
                th["a%d" % (i + 1)] = [("sendall_ext", total // ns + win // ns + 1, rnd.choice([0, 2, 3, 4, 5]))]
                continue
            if rnd.random() < 0.45:       # what a peer using other extended-data types would send (codes 0..5)
                ops.append(("send_ext", rnd.choice([1, win // 10, win // 10 + 1, 5000]), rnd.choice([0, 2, 3, 4, 5])))
            ops.append((rnd.choice(["sendall", "sendall_err", "sendall"]), total // ns))
            if rnd.random() < 0.3:
                ops.append((rnd.choice(["send", "send_err"]), 1000))
            th["a%d" % (i + 1)] = ops
        if rnd.random() < 0.25:           # the receiver has nothing more to say (its own EOF) but keeps reading
            th["b1"] = [("shutdown_write",)]
        th["dB_out"] = [("recv_loop", rnd.choice([777, 1024, 4096, 32768, 65536]))]
        th["dB_err"] = [("recv_err_loop", rnd.choice([512, 4096, 65536]))]
        progs.append({"par": par, "threads": th})
    return progs


def describe(clause, it, evs, l):
    disc = [e for e in evs if e["ev"] == "deliver" and e["t"] == "EXT" and e["code"] != 1 and not e["dead"]]
    fin = it["verdict"]["final"]
    key = clause
    if clause in ("P_Conservation", "P_NoStarvation") and disc:
        key = clause + ":discarded_extended_data"
    s = fin["sides"]
    what = ("%s at the end of a schedule (%s): sender window A->B = %d, buffered at B = %d, uncredited at B = %d, initial window %d; %d bytes of "
            "extended data with type(s) %s were delivered to B and discarded; blocked: %r | program %r packet %r" % (
                clause, it["how"], s["A"]["outwin"], s["B"]["out"] + s["B"]["err"], s["B"]["sofar"], it["prog"]["par"]["win"]["B"],
                sum(e["n"] for e in disc), sorted({e["code"] for e in disc}), fin["waiting"], it["prog"]["threads"], it["prog"]["par"]["pkt"]["B"]))
    return key, what, dc.replay_record(it)


def run(c):
    rnd = random.Random(c.seed)
    runs = dc.Runs()
    t0 = time.time()
    model(c, runs)
    laps = {"model+replay_s": round(time.time() - t0, 1)}
    progs = []
    for p in FIXED:
        th = dict(p["threads"])
        th["dB_out"] = [("recv_loop", p.get("read", 8192))]
        th["dB_err"] = [("recv_err_loop", p.get("read", 8192))]
        progs.append({"par": {"win": {"A": 32768, "B": p["win"]}, "pkt": {"A": 32768, "B": p["pkt"]}, "tmo": {"A": "block", "B": "block"}},
                      "threads": th})
    progs += programs(rnd, 6 if c.quick else 200, c.quick)
    deadline = time.time() + (120 if c.quick else 600)   # safety net only: the schedule counts bound the exploration, so the result does not depend on machine load
    explored = dc.explore_into(runs, c, progs, 2 if c.quick else 40, 3 if c.quick else 30, deadline, bound=1, max_steps=6000)
    laps["explore_s"] = round(time.time() - t0 - laps["model+replay_s"], 1)
    dc.validate(c, runs, INVS, describe)
    laps["validate_s"] = round(time.time() - t0 - laps["model+replay_s"] - laps["explore_s"], 1)
    c.extra["laps"] = laps
    c.rule = ("M: liveness and conservation over the classes threshold 0 / below window / = window, packet below / at / above window, 1-2 senders "
              "splitting data over stdout and stderr, extended-data types {1, 2}, both directions (thorough). RP: the TLC discard counterexample "
              "driven on real channels. TV: %d of %d programs: 1-2 sender threads moving between window-1 and 3 windows of data (sendall / "
              "sendall_stderr / send, optional extended data of types 0,2,3,4,5 first) against readers looping on both streams, windows from "
              "{32768, 32769, 40960, 65535, 70000}, packets from {4096, threshold+64, threshold+65, window/2, window+64, 2^32-1}; a few schedules each "
              "(first DFS schedules + seeded random); distinct = (program, schedule)" % (explored, len(progs)))
    c.assumptions = ["the receiving application keeps reading both streams (looping reader threads) and does not shut down its read side",
                     "data received after the peer's EOF/CLOSE or after a local close need not be credited",
                     "extended-data types other than 1 are sent through the real Channel._send of the sending side (correct window accounting of the sender)"]
