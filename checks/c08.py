META = {
    "level": "fault_enumeration",
    "technique": "TLA+ model of the receive/check/derive step of every kex engine with validity predicates over value classes (KexRanges.tla) model-checked by TLC (five seeded design errors must be caught); every (family, victim role, value) case TLC emits is rendered to a wire value and injected by a plaintext man in the middle into a real handshake; the victim's reaction is judged by TLC with the trace spec",
    "text": "TLC enumerates e/f as integers around 0, 1, p-1, p, p+1, 2p (and, thorough, every integer of a toy group up to 2p+2, embedded order-preservingly into the real group with random residues), point classes (off-curve, short, long, empty, infinity, wrong prefix, other curve), the published small-order X25519 u-coordinates (canonical and with bit 255 set) and malformed lengths, and gex modulus sizes 512..16384; the model shows that an invalid value never reaches Derive/NEWKEYS/Continue; each case is executed against paramiko as client and as server for group1/14/16, gex sha1/sha256, ecdh nistp256/384/521, curve25519: the MITM rewrites e / Q_C towards the server, f / Q_S towards the client, or the gex group; observed: did the victim run _set_K_H, send NEWKEYS, answer the group, stay active",
    "note": "trusted: TLC, netsched's plaintext packet rewriting, the rendering of classes to wire values; only the reject direction is a property clause (Appendix F); the all-zero X25519 result is already refused by the cryptography backend before paramiko's own comparison runs, so that comparison alone cannot be isolated",
}
import random
import time
from harness.core import cfg_text, Machinery
from harness.drivers import kex as drv

P = 23
FAMS = {"dh", "gex", "ecdh", "x25519"}
BOUNDARY = {-1, 0, 1, 2, 10, P - 2, P - 1, P, P + 1, P + 9, 2 * P}
MUTS = ["upper_inclusive", "lower_zero", "no_point_check", "no_zero_check", "gex_window_wide"]


def consts(q, mut="none"):
    return {"P": P, "IntChoice": "boundary" if q else "all",
            "Bits": {512, 1023, 1024, 2048, 8192, 8193, 16384} if q else {512, 768, 1023, 1024, 1025, 1536, 2048, 4096, 8191, 8192, 8193, 16384},
            "Families": FAMS, "Mut": mut}


def run(c):
    q = c.quick
    rnd = random.Random(c.seed)
    t0 = time.time()
    stage = {}
    r = c.mc_holds("KexRanges", cfg_text(constants=consts(q), invariants=["InvalidRejected", "ValidPasses", "Emit"]),
                   name="range / point / size checks", workers=1)
    cases = [tuple(x[1:]) for x in r.printed("CASE")]
    if not any(x[4] for x in cases) or not any(not x[4] for x in cases):
        raise Machinery("KexRanges model has no valid or no invalid case")
    for mut in ([MUTS[c.seed % len(MUTS)]] if q else MUTS):
        c.mc("KexRanges", cfg_text(constants=consts(True, mut), invariants=["InvalidRejected"]), expect="InvalidRejected",
             name="seeded design error " + mut, workers=1)
    stage["model_s"] = round(time.time() - t0, 1)

    # ---- RP: every case on a real handshake; kex methods of a family rotate (quick) or are all used (thorough)
    by_fam = {}
    for k, f in drv.KEX_FAMILY.items():
        by_fam.setdefault(f, []).append(k)
    records, meta = [], []
    i = c.seed
    for fam, victim, kind, val, valid in sorted(cases, key=repr):
        names = by_fam[fam]
        if q:
            i += 1
            use = [names[i % len(names)]]
        elif fam == "dh" and isinstance(val, int) and val not in BOUNDARY:
            use = [names[(val + len(victim)) % len(names)]]        # the interior of the toy group: one group per value
        else:
            use = names
        for kex in use:
            obs = drv.run_range_case(kex, victim, kind, val, P, rnd)
            if not obs["applied"]:
                raise Machinery("value %r was not injected (%s, %s, %s)" % (val, kex, victim, kind))
            records.append({"fam": fam, "victim": victim, "kind": kind, "val": val, "set_kh": obs["set_kh"],
                            "newkeys": obs["newkeys"], "continued": obs["continued"], "active": obs["active"]})
            meta.append((kex, valid, obs))
            c.case(key="%s|%s|%s|%s" % (kex, victim, kind, val),
                   sample={"kex": kex, "victim": victim, "kind": kind, "value": val, "valid": valid,
                           "victim_error": obs["error"], "derived": obs["set_kh"], "newkeys": obs["newkeys"]}
                   if len(c.samples) < 6 and not valid and not any(s["kex"] == kex for s in c.samples) else None)
    stage["handshakes_s"] = round(time.time() - t0, 1)
    if not any(o["set_kh"] for _, _, o in meta):
        raise Machinery("no injected value was ever accepted: the injection is broken")
    # the honest run: the same plumbing with nothing replaced must complete
    for fam, names in sorted(by_fam.items()):
        s = drv.KSession(kex=names[c.seed % len(names)], hostalg="ssh-ed25519")
        try:
            if s.start() != (True, True):
                raise Machinery("honest %s handshake does not complete: %r" % (fam, s.errors))
        finally:
            s.close()

    res, _ = c.trace("KexRanges_Trace", records, cfg_text(spec="TSpec", constants=consts(True), invariants=["Report"]))
    if len(res["DONE"]) != len(records):
        raise Machinery("trace validation consumed %d of %d records" % (len(res["DONE"]), len(records)))
    c.traces += len(records)
    seen = {}

    def describe(tid, clause, row):
        kex, valid, obs = meta[tid - 1]
        rec = records[tid - 1]
        key = "%s:%s:%s:%s" % (clause, rec["fam"], rec["victim"], rec["kind"])
        seen[key] = seen.get(key, 0) + 1
        what = "%s, %s receives %s %r (%s): derived keys %s, NEWKEYS %s, answered %s, still active %s (%s)" % (
            kex, rec["victim"], rec["kind"], rec["val"], "valid" if valid else "invalid", rec["set_kh"], rec["newkeys"],
            rec["continued"], rec["active"], obs["error"] or "no error")
        return key, what, {"kex": kex, "record": rec, "observed": obs, "model_prime": P}
    c.verdicts(res["VERDICT"], describe)
    stage["trace_validation_s"] = round(time.time() - t0, 1)
    c.extra["stage_clock"] = stage
    c.extra["clauses_seen"] = seen
    c.extra["invalid_cases"] = sum(1 for _, v, _ in meta if not v)
    c.extra["valid_cases"] = sum(1 for _, v, _ in meta if v)
    c.rule = ("cases (kex family, victim role, kind, value) emitted by TLC from KexRanges.tla: integers %s of a toy group (prime %d) embedded into the "
              "real group, 8 point classes, 13 X25519 classes, gex modulus sizes; %s; distinct = (kex method, victim, kind, value)"
              % ("around 0, 1, p-1, p, p+1, 2p" if q else "-2..2p+2", P,
                 "one kex method per case, rotating" if q else "every kex method of the family for boundary values and classes"))
    c.assumptions = ["values are injected in the first (plaintext) exchange; re-exchanges use the same engines",
                     "valid group elements used for 'valid' classes are fresh attacker values, so the handshake still ends (signature mismatch) - only the victim's check is judged"]
