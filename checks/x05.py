META = {
    "level": "model_checking",
    "technique": "TLA+ model of the admission of peer-opened channels as Transport._parse_channel_open decides it (ChanOpen.tla: one step per CHANNEL_OPEN, handler installation / removal between them, the environment chooses the kind and the application's answer) model-checked by TLC with four seeded errors refuted; every behaviour TLC emits is replayed on a real socket-less Transport in client and server role and the recorded answers, deliveries and channel table are judged step by step by TLC (ChanOpen_Trace.tla)",
    "text": "beyond the listed properties: every CHANNEL_OPEN gets exactly one answer naming the peer's channel; a client admits only the forwarded kinds whose handler it installed (x11, forwarded-tcpip, auth-agent) and refuses the rest as administratively prohibited, also after cancel_port_forward; a server without handler follows its application (0 admits, any other value is the reason sent); an admitted channel gets a fresh local number, is in the channel table and reaches exactly one consumer (its handler, or the accept() queue); a refused one reaches nobody and leaves nothing in the table",
    "note": "extension check, not part of MANIFEST.json (the property list is fixed); trusted: TLC, the socket-less Transport set-up (active, clear_to_send), parsing of the two answer messages",
}
from harness.core import cfg_text, Machinery
from harness.drivers import chanopen as drv

INVS = ["OneAnswerEach", "ClientAdmitsOnlyWhatItAskedFor", "ServerFollowsApplication", "RegistryExact", "DeliveredOnce"]


def run(c):
    consts = {"Modes": {"client", "server"}, "MaxOpens": 2, "MaxToggles": 1 if c.quick else 2, "Mut": "none", "Crash": False}
    small = dict(consts, MaxOpens=2, MaxToggles=2)
    for mut, inv in (("stale_handler", "ClientAdmitsOnlyWhatItAskedFor|DeliveredOnce"), ("client_queues_session", "ClientAdmitsOnlyWhatItAskedFor"),
                     ("reject_registers", "RegistryExact"), ("reason_lost", "ServerFollowsApplication")):
        c.mc("ChanOpen", cfg_text(constants=dict(small, Mut=mut), invariants=INVS, deadlock=False), expect=inv,
             name="sensitivity: " + mut, workers=2)
    # the design as coded: a server application that admits a forwarded kind without handler
    c.mc("ChanOpen", cfg_text(constants=dict(small, Crash=True), invariants=INVS, deadlock=False), expect="DeliveredOnce",
         name="design as coded: admitted forwarded kind without handler reaches nobody", workers=2)
    seen = {}
    configs = [consts] if c.quick else [consts, dict(consts, MaxOpens=3, MaxToggles=0)]
    for cf in configs:
        r = c.mc_holds("ChanOpen", cfg_text(constants=cf, invariants=INVS + ["Emit"], deadlock=False),
                       name="all scripts (%d opens, %d handler changes)" % (cf["MaxOpens"], cf["MaxToggles"]), workers=1)
        for cs in r.printed("CASE"):
            seen[(cs[1], tuple(tuple(sorted(s.items())) for s in cs[2]))] = (cs[2], cs[3])
    if len(seen) < 500:
        raise Machinery("TLC emitted only %d behaviours" % len(seen))
    batch, recs = [], []
    for n, ((mode, _), (script, model)) in enumerate(sorted(seen.items())):
        rec = drv.run_case(mode, [dict(s) for s in script], variant=n % 7)
        rec.pop("_keep")
        rec["model"] = model
        recs.append(rec)
        batch.append({k: rec[k] for k in ("mode", "script", "obs", "regsize")})
        c.case(key=(mode, n), sample=rec if n == 17 else None)
    for b in batch:
        for o in b["obs"]:
            o.pop("exc", None)
    # binding self-test: one recorded field of a conforming record is corrupted (the admitted channel "reached nobody");
    # the trace spec must reject exactly that record
    import copy
    src = next(b for b in batch if b["obs"] and all(o["ok"] and not o["crashed"] for o in b["obs"]))
    canary = copy.deepcopy(src)
    canary["obs"][-1]["dest"] = "nobody"
    batch.append(canary)
    recs.append(dict(recs[batch.index(src)], canary=True))
    res = {"VERDICT": [], "DONE": []}
    for i in range(0, len(batch), 4000):
        part, _ = c.trace("ChanOpen_Trace", batch[i:i + 4000], cfg_text(spec="TSpec", constants=dict(consts, MaxOpens=9, MaxToggles=9), invariants=["Report"]))
        res["VERDICT"] += [[v[0], v[1] + i] + list(v[2:]) for v in part["VERDICT"]]
        res["DONE"] += part["DONE"]
    if len(res["DONE"]) != len(batch):
        raise Machinery("trace validation consumed %d of %d traces" % (len(res["DONE"]), len(batch)))
    hit = [v for v in res["VERDICT"] if v[1] == len(batch)]
    if not hit or "P_channel_not_delivered_as_required" not in hit[0][-1]:
        raise Machinery("binding self-test: the trace spec accepted a record whose delivery field was corrupted")
    res["VERDICT"] = [v for v in res["VERDICT"] if v[1] != len(batch)]
    c.traces += len(batch) - 1

    def describe(tid, clause, row):
        rec = recs[tid - 1]
        sc = " ".join("%s:%s%s" % (s["op"], s["kind"], (":%s" % s["app"]) if s["op"] == "open" else (":" + s["how"] if s["op"] == "set" else "")) for s in rec["script"])
        kinds = "+".join(s["kind"] for s in rec["script"] if s["op"] == "open")
        if clause == "P_transport_thread_dies_on_admitted_open":
            kinds = rec["script"][-1]["kind"] + "_admitted_by_application_without_handler"      # the open that failed
        return ("%s:%s:%s" % (clause, rec["mode"], kinds),
                "%s: %s transport, script [%s]: model answers %s, code %s" % (clause, rec["mode"], sc, rec["model"], rec["obs"]),
                {"mode": rec["mode"], "script": rec["script"]})
    c.verdicts(res["VERDICT"], describe)
    c.rule = "every script TLC enumerates: %s, 6 kinds x 5 application answers, both roles, replayed on a real Transport" % " and ".join(
        "%d CHANNEL_OPEN messages with up to %d handler installations / removals in between" % (cf["MaxOpens"], cf["MaxToggles"]) for cf in configs)
    c.assumptions = ["Transport without socket: _send_message captured, handlers installed through _set_x11_handler / _set_forward_agent_handler / the attribute request_port_forward sets"]
