META = {
    "level": "model_checking",
    "technique": "TLA+ model of both ends of one channel at critical-section grain (Channel.tla: every locked section of channel.py is one action, the hand-over to the transport a separate one) model-checked by TLC over all interleavings of close / shutdown / shutdown_write / send / sendall / send_stderr / recv and peer EOF / CLOSE arrival; TLC counterexamples and TLC-simulated behaviours (Channel_Gen) replayed step by step on two real Channel objects under a deterministic thread scheduler (linesched); schedules of the real code (bounded-preemption DFS + seeded random) logged at the wire and judged by TLC with the design spec's invariants (Channel_Trace.tla)",
    "text": "TLC checks EOF <= 1, CLOSE <= 1, no DATA / EXTENDED_DATA after the side's own EOF or CLOSE, peer CLOSE answered, both CLOSEs exchanged => channel out of the ChannelMap, calls started after that send nothing and send()/sendall() raise. The repaired design (EOF/CLOSE held back behind data in flight, handed over by the last in-flight sender) must satisfy them, with liveness (a processed peer CLOSE is eventually answered, the queue drains); the model with the pinned hand-over outside the lock must yield the data-after-EOF/CLOSE counterexample for each of the three call-site pairs; each counterexample is then driven on the real code. Real threads on two real channels joined by harness message passing are explored with switch points at every lock operation, hand-over, dispatch and call boundary; every schedule's wire log and ChannelMap observations are replayed on the spec's observation variables and its invariants evaluated after every event",
    "note": "trusted: TLC, linesched (one thread at a time; switch points at every lock/condition/event operation of channel.py and buffered_pipe.py and at every hand-over to the fake transport - the window between releasing the channel lock and _send_user_message is one of them), the fake transport (records hand-over order, real ChannelMap), harness dispatch mimicking Transport.run. 'Released' is judged after the handler that processed the peer's CLOSE has returned",
}
import random
import time
from harness.core import cfg_text, Machinery
from harness.drivers import channel as dc

INVS = ["EofOnce", "CloseOnce", "NoDataAfterCtl", "CloseAnswered", "ReleasedInv", "NoSendAfterRelease"]
BASE = dict(UsersA={"a1", "a2"}, UsersB={"b1"}, Daemons="@{}", OpsA="@{}", OpsB="@{}", MaxCalls=1, W0=4, MaxPkt=2, PeerMax=2,
            Thresh=1, SendN=3, Codes={1}, ReadSizes={2}, Modes={"block"}, Loss=False,
            FixRace=False, HoldBack=True, FixSendall=True, FixCredit=True, Mut="none", SpinCap=3)
# the repaired setting: the hand-over stays outside the lock; EOF/CLOSE are held back behind data messages in flight and
# handed over by the last in-flight sender (nobody waits).  MINVS adds the model-only forms (queue contents are not observable)
MINVS = INVS + ["CloseAnsweredExact", "QueueDrains", "InflightBalanced"]
LIVE = dict(spec="FairSpec", properties=["AnsweredEventually", "DrainsEventually"])
U = 4032
SITES = {"close": "close", "shutdown_write": "shutdown", "shutdown_rw": "shutdown"}


GEN = dict(BASE, HoldBack=False, OpsA={"send", "sendall", "send_err", "close", "shutdown_write", "shutdown_rw", "recv"},
           OpsB={"recv", "recv_err", "close", "send", "shutdown_write"}, MaxCalls=2, W0=10, SendN=7, ReadSizes={1, 3, 12},
           Modes={"block", "nonblock"}, FixRace=False, FixSendall=False, FixCredit=False)
PAIRS = (("close", {"send", "close"}, "@{}"), ("shutdown", {"send", "shutdown_write"}, "@{}"), ("_handle_close", {"send"}, {"close"}))


def model(c, runs):
    ops_a = {"sendall", "send_err", "close", "shutdown_write", "shutdown_rw", "recv"}
    ops_b = {"recv", "close", "shutdown_write", "send"}
    if c.quick:      # (the thorough tier keeps every operation on both sides)
        ops_a, ops_b = ops_a - {"recv"}, {"close", "shutdown_write"}
    jobs = [dict(name="hold-back repair: 2+1 threads x 1 call, %s" % ("writers vs close / shutdown / peer close" if c.quick else "all ops"), module="Channel",
                 cfg=cfg_text(constants=dict(BASE, OpsA=ops_a, OpsB=ops_b), invariants=MINVS)),
            dict(name="hold-back repair, liveness: a processed peer CLOSE is answered, the queue drains", module="Channel",
                 cfg=cfg_text(constants=dict(BASE, OpsA={"send", "shutdown_write"} if c.quick else {"send", "sendall", "shutdown_write"},
                                             OpsB={"close"}, W0=3, Thresh=0), invariants=[], **LIVE))]
    if not c.quick:
        jobs.append(dict(name="3+1 threads, transport loss", module="Channel", kw={"timeout": 800, "workers": 6},
                         cfg=cfg_text(constants=dict(BASE, UsersA={"a1", "a2", "a3"}, OpsA={"send", "close", "shutdown_write"},
                                                     OpsB={"close", "recv"}, Loss=True), invariants=MINVS)))
        jobs.append(dict(name="2+1 threads x 2 calls", module="Channel", kw={"timeout": 800, "workers": 6},
                         cfg=cfg_text(constants=dict(BASE, OpsA={"send", "close", "shutdown_rw"}, OpsB={"close", "send"}, MaxCalls=2,
                                                     SendN=2), invariants=MINVS)))
        jobs.append(dict(name="hand-over inside the locked section (the other repair): 2+1 threads x 1 call, all ops", module="Channel",
                         cfg=cfg_text(constants=dict(BASE, FixRace=True, HoldBack=False, OpsA=ops_a, OpsB=ops_b), invariants=INVS)))
        jobs.append(dict(name="hold-back repair, liveness with a local close()", module="Channel",
                         cfg=cfg_text(constants=dict(BASE, OpsA={"send", "close"}, OpsB={"close"}, W0=3, Thresh=0), invariants=[], **LIVE)))
    # a writer parked on an exhausted window when shutdown_write / close come from another thread and the peer's adjust arrives
    parked = dict(BASE, OpsA={"sendall", "shutdown_write", "close"}, OpsB={"recv"}, W0=2, SendN=3, Thresh=0)
    jobs.append(dict(name="hold-back repair: writer parked at window 0, then shutdown_write / close, then the peer's window adjust", module="Channel",
                     cfg=cfg_text(constants=parked, invariants=MINVS)))
    jobs.append(dict(name="sensitivity: no_exit_recheck (woken by an adjust, the writer does not look at eof_sent / closed again)", module="Channel",
                     expect="NoDataAfterCtl", cfg=cfg_text(constants=dict(parked, Mut="no_exit_recheck"), invariants=MINVS)))
    # exits of _send that built no message (timeout / non-blocking at window 0, closed, return 0) must leave the counter alone
    fails = dict(BASE, OpsA={"send", "close"}, OpsB={"recv"}, MaxCalls=2, W0=2, SendN=2, Thresh=0, Modes={"nonblock", "timed"})
    jobs.append(dict(name="sensitivity: done_always (_send_done also runs where nothing was counted: counter at -1, EOF/CLOSE overtake)", module="Channel",
                     expect="InflightBalanced|NoDataAfterCtl", cfg=cfg_text(constants=dict(fails, Mut="done_always"), invariants=MINVS)))
    if not c.quick:
        jobs.append(dict(name="hold-back repair: failing sends (timed / non-blocking at window 0, closed) before the racing send / close", module="Channel",
                         kw={"timeout": 850, "workers": 6}, cfg=cfg_text(constants=fails, invariants=MINVS)))
    # the pinned tree: message built under the lock, handed over after releasing it
    pairs = PAIRS[:1] if c.quick else PAIRS     # (each TLC start costs seconds on a busy machine)
    for name, a, b in pairs:
        jobs.append(dict(name="pinned hand-over outside the lock: _send vs %s" % name, module="Channel", expect="NoDataAfterCtl",
                         cfg=cfg_text(constants=dict(BASE, OpsA=a, OpsB=b, HoldBack=False, SendN=2), invariants=["NoDataAfterCtl"])))
    # mutated models (quick tier: one JVM start costs seconds on a busy machine, so only the thorough tier runs these)
    for mut, inv in (() if c.quick else
                     (("no_flush", "QueueDrains|CloseAnswered|CloseAnsweredExact"), ("eof_twice", "EofOnce"),
                      ("no_close_answer", "CloseAnswered|CloseAnsweredExact"), ("no_unlink", "ReleasedInv"))):
        jobs.append(dict(name="sensitivity: " + mut, module="Channel", expect=inv,
                         cfg=cfg_text(constants=dict(BASE, OpsA={"send", "close", "shutdown_write"}, OpsB={"close", "recv"}, Mut=mut),
                                      invariants=MINVS)))
    jobs.append(dict(name="simulate (spec -> code)", module="Channel_Gen", simulate=True, expect="behaviours",
                     cfg=cfg_text(spec="GSpec", constants=dict(GEN, **dc.gen_variant()), invariants=["GenEmit"]),
                     kw=dict(workers=1, simulate="num=%d" % (40 if c.quick else 500), extra=["-depth", "150", "-seed", str(c.seed + 1)])))
    res = dc.mc_batch(c, jobs, parallel=10)
    gen = dict(GEN, **dc.gen_variant())
    # RP 1: drive the real code along each counterexample
    for name, a, b in pairs:
        r = res["pinned hand-over outside the lock: _send vs %s" % name]
        prog, plan = dc.plan_from_counterexample(r, dict(BASE, SendN=2), U)   # (pinned structure: hand-over outside the lock)
        ex = dc.replay_plan(prog, plan)
        if ex.drift:
            c.conformance("counterexample_not_followed:" + name, "the schedule of the TLC counterexample (_send vs %s) could not be followed on this tree: %s" % (name, ex.drift))
        runs.add(prog, "tlc-counterexample", ex, plan)
        c.case(key=("cex", name), sample={"program": prog, "plan": plan})
    # RP 2: TLC-simulated behaviours
    behs = res["simulate (spec -> code)"].printed("BEH")
    if not behs:
        raise Machinery("Channel_Gen produced no behaviour\n%s" % res["simulate (spec -> code)"].out[-2000:])
    differ = 0
    for b in behs:
        diffs, ex, prog, plan = dc.replay_behaviour(b, gen, U)
        runs.add(prog, "tlc-behaviour", ex, plan)
        c.case(key=("beh", repr(b[1])))
        if diffs:
            differ += 1
            c.conformance("replay_differs:" + diffs[0].split(":")[0], "real channels diverge from a Channel_Gen behaviour: %s; program %r plan %r" % (diffs[0], prog["threads"], plan))
    return len(behs), differ


def programs(rnd, n):
    """2-3 user threads on A, 0-1 on B: a writer against close / shutdown / peer CLOSE or EOF"""
    progs = []
    for _ in range(n):
        win = rnd.choice([32768, 40000, 2 ** 32 - 1])
        pkt = rnd.choice([4096, 32768])
        par = {"win": {"A": win, "B": win}, "pkt": {"A": pkt, "B": pkt},
               "tmo": {"A": rnd.choice(["block", "block", "nonblock", "timed"]), "B": "block"}}
        th = {}
        nw = rnd.choice([1, 1, 2])
        for i in range(nw):
            k = rnd.choice(["send", "sendall", "send_err", "sendall_err"])
            size = rnd.choice([1, pkt - 64, pkt, 2 * pkt])
            th["a%d" % (i + 1)] = [(k, size)] * rnd.choice([1, 1, 2])
        closer = rnd.choice([[("close",)], [("shutdown_write",)], [("shutdown_rw",)], [("shutdown_write",), ("close",)],
                             [("close",), ("close",)], [("close",), ("send", 10)], []])
        if closer:
            th["a%d" % (nw + 1)] = closer
        peer = rnd.choice([[("close",)], [("shutdown_write",)], [("recv", 8192), ("close",)], [("close",), ("send", 5)], []])
        if peer or not closer:
            th["b1"] = peer or [("close",)]
        if rnd.random() < 0.15:
            par["fail"] = {"A": [rnd.choice([1, 2])]}
        prog = {"par": par, "threads": th}
        if rnd.random() < 0.15:
            prog["lost"] = ["A"]
        progs.append(prog)
    return progs


FIXED = [
    {"threads": {"a1": [("send", 100)], "a2": [("close",)]}},
    {"threads": {"a1": [("send_err", 100)], "a2": [("shutdown_write",)]}},
    {"threads": {"a1": [("sendall", 100)], "b1": [("close",)]}},
    # a send that fails BEFORE the racing pair: non-blocking / timed at window 0 (socket.timeout), or on a closed channel
    # (the closer waits until the window was used up, reopened and touched again, so it meets the writer's LAST send)
    {"threads": {"a1": [("send", 32768), ("send", 100), ("await_window",), ("send", 100)], "a2": [("await_zero",), ("await_window",), ("await_below", 32768), ("close",)],
                 "b1": [("recv", 65536)]}, "pkt": 65536, "tmo": "nonblock"},
    {"threads": {"a1": [("send", 32768), ("send", 100), ("await_window",), ("send_err", 100)], "a2": [("await_zero",), ("await_window",), ("await_below", 32768), ("shutdown_write",)],
                 "b1": [("recv", 65536)]}, "pkt": 65536, "tmo": "nonblock"},
    {"threads": {"a1": [("send", 32768), ("sendall", 100), ("await_window",), ("send", 100)], "b1": [("recv", 65536), ("close",)]},
     "pkt": 65536, "tmo": "nonblock"},
    {"threads": {"a1": [("send", 100)], "a2": [("close",)], "a3": [("send", 5), ("send", 5)]}},
    # a writer parked at window 0 (first send takes the whole window), then shutdown_write / shutdown(2) / close from another
    # thread, then the peer reads and its WINDOW_ADJUST is delivered - every order of adjust vs. EOF/CLOSE hand-over is a schedule
    # (first two: the other thread waits until the window was used up and has reopened, i.e. the parked writer has been notified
    #  by the adjust and is about to leave its wait loop when EOF / CLOSE are produced)
    {"threads": {"a1": [("send", 32768), ("send", 100)], "a2": [("await_zero",), ("await_window",), ("shutdown_write",)],
                 "b1": [("recv", 65536)]}, "pkt": 65536},
    {"threads": {"a1": [("sendall", 33000)], "a2": [("await_zero",), ("await_window",), ("close",)], "b1": [("recv", 65536)]}, "pkt": 65536},
    {"threads": {"a1": [("send", 32768), ("send", 100)], "a2": [("shutdown_write",)], "b1": [("recv", 65536)]}, "pkt": 65536},
    {"threads": {"a1": [("sendall", 33000)], "a2": [("shutdown_rw",)], "b1": [("recv", 65536)]}, "pkt": 65536},
    {"threads": {"a1": [("send_err", 32768), ("send_err", 100)], "a2": [("shutdown_write",)], "b1": [("recv_err", 65536)]}, "pkt": 65536},
    {"threads": {"a1": [("send", 32768), ("send", 100)], "a2": [("close",)], "b1": [("recv", 65536)]}, "pkt": 65536},
    {"threads": {"a1": [("sendall", 40000)], "a2": [("shutdown_write",), ("close",)], "b1": [("recv", 4096), ("recv", 65536)]}},
    {"threads": {"a1": [("close",)], "a2": [("close",)], "b1": [("close",)]}},
    {"threads": {"a1": [("shutdown_write",), ("close",)], "a2": [("shutdown_rw",)], "b1": [("shutdown_write",)]}},
    {"threads": {"a1": [("close",), ("send", 10), ("recv", 10), ("shutdown_write",)], "b1": [("close",), ("sendall", 10)]}},
    # the hand-over of a data message fails (key re-exchange timed out) while another thread closes / the peer closes
    {"threads": {"a1": [("send", 100)], "a2": [("close",)]}, "fail": {"A": [1]}},
    {"threads": {"a1": [("sendall", 9000)], "a2": [("shutdown_write",)], "b1": [("close",)]}, "fail": {"A": [2]}},
    {"threads": {"a1": [("send", 100)], "a2": [("send_err", 100)], "b1": [("close",)]}, "fail": {"A": [1]}},
    # writers blocked on an exhausted window when close / peer close / transport loss arrive
    {"threads": {"a1": [("sendall", 40000)], "a2": [("close",)]}},
    {"threads": {"a1": [("sendall", 40000)], "a2": [("send", 5)], "b1": [("close",)]}},
    {"threads": {"a1": [("sendall", 9000)], "a2": [("close",)], "b1": [("close",)]}, "lost": ["A"]},
]


def describe(clause, it, evs, l):
    key = clause
    e = evs[l - 1] if 0 < l <= len(evs) else None
    if clause == "P_NoDataAfterCtl" and e is not None:
        side = e["side"]
        cur = {}
        site = "?"
        for x in evs[:l]:
            if x["ev"] == "call":
                cur[x["th"]] = x["op"]
            if x["ev"] == "emit" and x["side"] == side and x["t"] in ("EOF", "CLOSE") and site == "?":
                site = "_handle_close" if x["th"] in ("TA", "TB") else SITES.get(cur.get(x["th"]), cur.get(x["th"], "?"))
        key = "P_NoDataAfterCtl:_send/%s" % site
        what = ("%s handed to the transport after the side's own EOF/CLOSE (EOF/CLOSE came from %s): either Channel._send's message was built "
                "under the channel lock and overtaken before its hand-over, or a writer woken in the window wait allocated window without "
                "looking at eof_sent / closed again. Wire events: %s" % (e["t"], site, dc.brief(evs, l)))
    else:
        what = "%s fails after event %d of a schedule (%s): %s" % (clause, l, it["how"], dc.brief(evs, min(l, len(evs))))
    return key, what + " | program %r" % (it["prog"]["threads"],), dc.replay_record(it)


def run(c):
    rnd = random.Random(c.seed)
    runs = dc.Runs()
    t0 = time.time()
    nb, differ = model(c, runs)
    laps = {"model+replay_s": round(time.time() - t0, 1)}
    progs = []
    for p in FIXED:
        pk = p.get("pkt", 4096)
        prog = {"par": {"win": {"A": 32768, "B": 32768}, "pkt": {"A": pk, "B": pk}, "tmo": {"A": p.get("tmo", "block"), "B": "block"}},
                "threads": p["threads"]}
        if "fail" in p:
            prog["par"]["fail"] = p["fail"]
        if "lost" in p:
            prog["lost"] = p["lost"]
        progs.append(prog)
    progs += programs(rnd, 10 if c.quick else 150)
    deadline = time.time() + (120 if c.quick else 600)   # safety net only: the schedule counts bound the exploration, so the result does not depend on machine load
    explored = dc.explore_into(runs, c, progs, 12 if c.quick else 250, 4 if c.quick else 40, deadline,
                               bound=1 if c.quick else 2, gap_runs=16)
    laps["explore_s"] = round(time.time() - t0 - laps["model+replay_s"], 1)
    dc.validate(c, runs, INVS, describe)
    laps["validate_s"] = round(time.time() - t0 - laps["model+replay_s"] - laps["explore_s"], 1)
    c.extra["laps"] = laps
    c.rule = ("M: all interleavings of 2-3 user threads per side x 1-2 calls from {send, sendall, send_stderr, recv, close, shutdown_write, shutdown(2)} "
              "plus the transport threads (peer EOF/CLOSE arrival), transport loss in the thorough tier. RP: the TLC counterexamples of the pinned hand-over and %d "
              "TLC-simulated behaviours (%d differing) driven on real channels. TV: %d of %d programs (writer threads vs close/shutdown/peer close, "
              "windows 32768..2^32-1, packets 4096/32768, blocking/timed/non-blocking) under DFS with <= %d preemption(s) (capped) + seeded random "
              "schedules; distinct = (program, schedule)" % (nb, differ, explored, len(progs), 1 if c.quick else 2))
    c.assumptions = ["the hand-over order seen by the fake transport is the order on the wire (Transport._send_user_message serialises on clear_to_send_lock)",
                     "threads are serialised by linesched; only the listed switch points interleave (all shared Channel state is accessed under its lock, except shutdown()'s eof_received write which happens at the call boundary)"]
