META = {
    "level": "model_checking",
    "technique": "TLA+ model of BufferedPipe at critical-section grain (BufferedPipe.tla) checked by TLC, incl. a timer action racing with notify; real BufferedPipe driven under a deterministic thread scheduler (linesched: exhaustive schedules with preemption bound, virtual clock); every schedule's linearized operation log validated by TLC against the contract (BufferedPipe_Trace.tla)",
    "text": "TLC explores all interleavings of feed/read/empty/close/timer for 4 threads on the implementation-shaped model and checks lossless FIFO, empty-only-at-EOF and timeout-only-without-data; the same contract is then evaluated by TLC on linearized logs of real threads running the real class under every schedule (bounded preemptions) of small programs and seeded random schedules of larger ones",
    "note": "trusted: TLC, linesched (serialises threads; switch points at every lock/condition/event operation), the log order = order of each operation's final release of the pipe lock; time is virtual (a timeout may fire at any moment while a thread is in a timed wait)",
}
import itertools
import random
from harness.core import cfg_text, Machinery
from harness.drivers import pipes

CONSTS = {"Feeders": {"f1"}, "Readers": {"r1", "r2"}, "Others": {"o"}, "MaxFeed": 3, "ReadSizes": {1, 2}}
INVS = ["Lossless", "EmptyMeansEOF", "TimeoutMeansNoData"]


def run(c):
    # M: repaired algorithm satisfies the contract; the algorithm without the re-check violates it
    c.mc_holds("BufferedPipe", cfg_text(constants=dict(CONSTS, RecheckBeforeTimeout=True), invariants=INVS),
               name="recheck-before-timeout")
    if not c.quick:
        big = dict(CONSTS, Feeders={"f1", "f2"}, MaxFeed=2, ReadSizes={1, 3}, RecheckBeforeTimeout=True)
        c.mc_holds("BufferedPipe", cfg_text(constants=big, invariants=INVS), name="two-feeders")
    c.mc("BufferedPipe", cfg_text(constants=dict(CONSTS, RecheckBeforeTimeout=False), invariants=INVS),
         expect="TimeoutMeansNoData", name="sensitivity: raise without re-check")

    # TV: real class under linesched
    rnd = random.Random(c.seed)
    fixed = [
        [[("read", 2, "pos")], [("feed", [17, 18])]],
        [[("read", 1, "pos"), ("read", 5, "zero")], [("feed", [17, 18, 19])], [("close",)]],
        [[("read", 1, "none")], [("read", 2, "pos")], [("feed", [33]), ("close",)]],
        [[("read", 5, "pos")], [("feed", [17]), ("feed", [18])], [("empty",), ("close",)]],
    ]
    progs = fixed + pipes.bp_programs(rnd, 12 if c.quick else 40)
    batch, meta = [], []
    for pi, prog in enumerate(progs):
        runs = 0
        for ex in pipes.bp_explore(prog, "dfs", 2, 400 if c.quick else 1500, c.seed):
            runs += 1
            if ex.stuck:
                raise Machinery("thread stuck in native code in a BufferedPipe scenario: %s" % ex.blocked)
            batch.append({"events": ex.verdict})
            meta.append({"program": prog, "choices": ex.choices, "labels": ex.labels, "hang": ex.hang})
            c.case(key=("p%d" % pi, tuple(ex.choices)),
                   sample={"program": prog, "schedule": ex.labels, "events": ex.verdict} if runs == 3 and pi < 3 else None)
    for pi, prog in enumerate(pipes.bp_programs(rnd, 10 if c.quick else 100)):
        for ex in pipes.bp_explore(prog, "random", 0, 30 if c.quick else 60, c.seed + pi):
            batch.append({"events": ex.verdict})
            meta.append({"program": prog, "choices": ex.choices, "labels": ex.labels, "hang": ex.hang})
            c.case(key=("r%d" % pi, tuple(ex.choices)))
    done = 0
    CH = 4000
    for i in range(0, len(batch), CH):
        res, _ = c.trace("BufferedPipe_Trace", batch[i:i + CH])
        done += len(res["DONE"])

        def describe(tid, clause, row, i=i):
            m = meta[i + tid - 1]
            ev = batch[i + tid - 1]["events"][row[2] - 1]
            key = "%s:%s" % (clause, ev["op"] + ("/" + ev.get("timeout", "") if ev["op"] == "read" else ""))
            return key, "%s at event %d %r; program %r schedule %r" % (clause, row[2], ev, m["program"], m["labels"]), \
                {"program": m["program"], "choices": m["choices"], "events": batch[i + tid - 1]["events"]}
        c.verdicts(res["VERDICT"], describe)
    if done != len(batch):
        raise Machinery("trace validation consumed %d of %d traces" % (done, len(batch)))
    c.traces += len(batch)
    c.rule = "programs of 2-3 threads x 1-2 calls (feed/read(n,timeout in None,0,0.5)/empty/close); every schedule with <= 2 preemptions (DFS, capped per program) plus seeded random schedules; distinct = (program, schedule choice sequence)"
    c.assumptions = ["switch points at synchronisation operations only: all shared state of BufferedPipe is accessed under its lock"]
