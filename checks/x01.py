META = {
    "level": "model_checking",
    "technique": "TLA+ transcription of SSHClient._auth (ClientAuth.tla: one step per outside call, environment chooses the outcome) model-checked by TLC over every configuration and every sequence of outcomes within the bounds; every complete behaviour TLC emits is replayed on the real SSHClient._auth with a recording transport / key loader / agent; recorded call sequences of random larger scenarios are validated by TLC (ClientAuth_Trace.tla)",
    "text": "beyond the listed properties: the order in which a connecting client offers credentials (GSS, explicit key, key files x key classes, agent keys, keys discovered under ~/.ssh and ~/ssh, password or interactive fallback), that nothing is offered after a method was accepted, that the password is the last thing tried and used at most once, that after a two-factor demand no further agent / discovered key is offered, and that failure raises the most recent caught error",
    "note": "extension check, not part of MANIFEST.json (the property list is fixed); trusted: TLC, the stub transport/agent/loader; key loading itself is C36/C37's subject",
}
import random
from harness.core import cfg_text, Machinery
from harness.drivers import clientauth as drv

INVS = ["TypeOK", "OrderOK", "StopsAtSuccess", "SecretLast", "KbdOnlyForTwoFactor", "NoKeysAfterTwoFactor", "RaisesLast",
        "LoadsUsePassphrase"]
MUTATIONS = {"password_first": "OrderOK|SecretLast", "agent_after_twof": "NoKeysAfterTwoFactor", "no_break_agent": "NoKeysAfterTwoFactor",
             "first_exception_kept": "RaisesLast", "kbd_even_with_password": "KbdOnlyForTwoFactor"}
ALL_FLAGS = {"gk", "ga", "pkey", "agent", "look", "password", "passphrase"}


def pycfg(cf):
    return {"gk": bool(cf["gk"]), "ga": bool(cf["ga"]), "pkey": bool(cf["pkey"]), "nfiles": int(cf["nfiles"]),
            "agent": bool(cf["agent"]), "look": bool(cf["look"]), "home": list(cf["home"]),
            "password": bool(cf["password"]), "passphrase": bool(cf["passphrase"])}


def describe(rec):
    cf = rec["cfg"]
    on = [k for k in ("gk", "ga", "pkey", "agent", "look", "password", "passphrase") if cf[k]]
    return "inputs %s files=%d home=%s: calls %s -> %s%s" % (
        "+".join(on) or "-", cf["nfiles"], [h for h in cf["home"]],
        ["%s%s=%s" % (e["k"], (":%d.%d" % (e["a"], e["b"])) if e["a"] or e["b"] else "", e["o"]) for e in rec["events"]],
        rec["final"]["status"], " [%s]" % rec["error"] if rec["error"] else "")


def tv(c, batch):
    consts = {"MaxFiles": 3, "MaxAgent": 3, "MaxDisc": 6, "HomePos": set(range(1, 7)), "Flags": ALL_FLAGS, "Mutation": "none"}
    rows = [{k: rec[k] for k in ("cfg", "events", "final")} for rec in batch]
    res, _ = c.trace("ClientAuth_Trace", rows, cfg_text(spec="TSpec", constants=consts, invariants=["Report"]))
    if len(res["DONE"]) != len(batch):
        raise Machinery("trace validation consumed %d of %d traces" % (len(res["DONE"]), len(batch)))
    c.traces += len(batch)
    return res


def judge(c, batch, res):
    for row in sorted(res["VERDICT"], key=lambda r: (len(batch[r[1] - 1]["events"]), r[1])):
        rec = batch[row[1] - 1]
        for clause in sorted(row[2]):
            if clause.startswith("P_"):
                c.violation(clause, "%s fails for %s" % (clause, describe(rec)), {"cfg": rec["cfg"], "script": rec["script"], "variant": rec["variant"], "generic": rec["generic"]})
            else:
                c.conformance(clause, "%s: %s" % (clause, describe(rec)))
    for rec in batch:
        if not rec["args_ok"]:
            c.conformance("C_arguments", "username/password not passed through: " + describe(rec))


def run(c):
    if getattr(c, "replay_file", None):
        import json
        rp = json.load(open(c.replay_file))["replay"]
        rec = drv.run_scenario(rp["cfg"], rp["script"], rp.get("variant", 0), generic=rp.get("generic", False))
        judge(c, [rec], tv(c, [rec]))
        c.rule = "replay of one recorded scenario"
        return
    try:
        # ---- M: the transcription satisfies what a user relies on, for every configuration and outcome sequence in the bounds
        big = ({"MaxFiles": 1, "MaxAgent": 1, "MaxDisc": 1, "HomePos": {1, 4}, "Flags": ALL_FLAGS - {"gk", "ga"}} if c.quick else
               {"MaxFiles": 1, "MaxAgent": 1, "MaxDisc": 1, "HomePos": set(range(1, 7)), "Flags": ALL_FLAGS})      # 2.1 M states
        c.mc_holds("ClientAuth", cfg_text(constants=dict(big, Mutation="none"), invariants=INVS, deadlock=False), name="all behaviours")
        small = {"MaxFiles": 1, "MaxAgent": 2, "MaxDisc": 1, "HomePos": {1}, "Flags": {"pkey", "agent", "look", "password"}}
        for mut, inv in list(MUTATIONS.items())[:2 if c.quick else None]:
            c.mc("ClientAuth", cfg_text(constants=dict(small, Mutation=mut), invariants=inv.split("|"), deadlock=False),
                 expect=inv, name="mutation " + mut, workers=4)
        # ---- RP: spec -> code.  Every complete behaviour of a slim configuration space, replayed on the real _auth
        slim = ({"MaxFiles": 1, "MaxAgent": 1, "MaxDisc": 1, "HomePos": {1}, "Flags": {"agent", "look", "password"}} if c.quick else
                {"MaxFiles": 1, "MaxAgent": 1, "MaxDisc": 1, "HomePos": {2}, "Flags": {"pkey", "agent", "look", "password"}})   # 13 k behaviours
        r = c.mc_holds("ClientAuth", cfg_text(constants=dict(slim, Mutation="none"), invariants=["Emit"], deadlock=False),
                       name="emit behaviours", workers=1)
        cases = r.printed("CASE")
        if not cases:
            raise Machinery("TLC emitted no behaviours")
        batch, expect = [], []
        for n, (_, cf, calls, status, saved) in enumerate(cases):
            cfg = pycfg(cf)
            rec = drv.run_scenario(cfg, [cl["o"] for cl in calls], variant=n)
            batch.append(rec)
            expect.append(([(cl["p"]["k"], cl["o"]) for cl in calls], status))
            c.case(key=("rp", n), sample=rec if n == len(cases) // 2 else None)
        n_rp = len(batch)
        # ---- TV: seeded random larger scenarios (3 files, 3 agent keys, any ~/.ssh population)
        rnd = random.Random(c.seed)
        for n in range(1500 if c.quick else 15000):
            bias = rnd.choice([0.0, 0.15, 0.4])
            cfg = {"gk": rnd.random() < 0.15, "ga": rnd.random() < 0.15, "pkey": rnd.random() < 0.5, "nfiles": rnd.choice([0, 0, 1, 2, 3]),
                   "agent": rnd.random() < 0.6, "look": rnd.random() < 0.7,
                   "home": [rnd.choice(["none", "none", "key", "keycert", "certonly"]) for _ in range(6)],
                   "password": rnd.random() < 0.5, "passphrase": rnd.random() < 0.3}
            script = []
            for _ in range(40):
                x = rnd.random()
                script.append(("ok" if x < bias * 0.5 else "other" if x < bias * 0.6 else "twof" if x < bias else
                               rnd.choice(["exc", "exc", "exc", "exc", "io", "err"])))
            rec = drv.run_scenario(cfg, script, variant=n, generic=True)
            batch.append(rec)
            c.case(key=("tv", n))
        res = tv(c, batch)
        flagged = {row[1] for row in res["VERDICT"]}
        for tid in range(1, n_rp + 1):
            rec, (calls, status) = batch[tid - 1], expect[tid - 1]
            same = [(e["k"], e["o"]) for e in rec["events"]] == calls and rec["final"]["status"] == status
            if same and tid in flagged:
                raise Machinery("TLC flags a trace that equals what TLC emitted: %s" % describe(rec))
            if not same and tid not in flagged:
                c.conformance("C_differs_from_emitted_unflagged", "differs from the emitted behaviour: " + describe(rec))
        judge(c, batch, res)
        c.rule = ("every complete behaviour of the slim configuration space replayed on SSHClient._auth (%d) + %d seeded random "
                  "scenarios with up to 3 key files, 3 agent keys and any population of ~/.ssh, ~/ssh" % (n_rp, len(batch) - n_rp))
        c.assumptions = ["the transport's auth_* methods, the agent and the key loader are stubs that answer as scripted",
                         "exceptions are identified by object identity"]
    finally:
        drv.cleanup()
