META = {
    "level": "model_checking",
    "technique": "TLA+ models of the SFTP request loop (SftpServerProto.tla) and of the client's request/response bookkeeping (SftpClientProto.tla: expecting map, pipelined writes, prefetch threads) model-checked by TLC; every (request kind, handle class) of the server model rendered to raw packets for a real SFTPServer; seeded random raw request streams and random client programs on a real SFTPClient/SFTPServer pair judged by TLC trace specs",
    "text": "Server half: TLC checks that every served request gets exactly one response with its id and an allowed type and that the loop keeps serving (the faithful toggles must reproduce the type-5 reply to FSETSTAT on an unknown handle and the check-file loop that never ends). Each (kind, handle class) case TLC emits is rendered several ways and sent to a real SFTPServer over an in-memory pipe; seeded streams cover all 256 packet types, valid / closed / never-issued handles, every extended request name, truncated bodies and check-file ranges past EOF. The trace spec keeps the handle tables itself and judges count, id, type and well-formedness of the responses to every request. Client half: TLC checks the client bookkeeping for absence of a blocked application while the server answers everything (faithful toggle: a synchronous request drops a pipelined write status and the later drain waits forever); random client programs interleaving >100 pipelined writes with stat/listdir/read/prefetch/readv run on the real pair under a watchdog, a blocked call is the clause P_blocked",
    "note": "trusted: TLC, the raw packet renderer/parser of the driver, the in-process server interface (library SFTPHandle over regular files); READ lengths are capped at 1 MiB and packet sizes at 256 KiB; a blocked client call is recognised by proven quiescence of both pipe ends (confirmed by a longer wait) or the wall deadline",
}
import os
import random

from harness.core import cfg_text, Machinery
from harness.drivers import sftp as drv
from checks import c28 as clientlib

EXTS = ["check-file", "posix-rename@openssh.com", "statvfs@openssh.com", "fstatvfs@openssh.com",
        "hardlink@openssh.com", "fsync@openssh.com", "lsetstat@openssh.com", "limits@openssh.com",
        "expand-path@openssh.com", "copy-data", "home-directory", "users-groups-by-id@openssh.com", "", "x"]
PATHS = ["a", "b", "d", "d/x", "nope", "l", "/a", "./b", "d/../a", "", "d/nope/x", "new1", "new2", "d/new3"]
SERVER_CONSTS = {"MaxReqs": 0, "MaxHandles": 0, "FixFsetstat": True, "FixCheckFile": True, "HandleFaults": False,
                 "ReplyBeforeClose": False}


def populate(root, rnd):
    os.makedirs(os.path.join(root, "d"), exist_ok=True)
    sizes = {"a": rnd.choice([140001, 150000, 200000]), "b": rnd.choice([0, 10, 300]), "d/x": 5000}
    for n, sz in sizes.items():
        with open(os.path.join(root, n), "wb") as f:
            f.write(rnd.randbytes(sz))
    os.symlink("a", os.path.join(root, "l"))
    return sizes


class StreamGen:
    """abstract requests; handle selection is late-bound to the handles the server really issued"""

    def __init__(self, rnd, root):
        self.rnd, self.root = rnd, root
        self.used_ids = set()
        self.paths = {}       # token -> path of the file it was opened on (filled at run time)
        self.kindof = {}      # token -> "file" | "dir" (filled at run time)
        self.closed = set()   # tokens the stream has closed (filled at run time)

    def rid(self):
        while True:
            x = self.rnd.choice([0, 1, 0xFFFFFFFF, 0x7FFFFFFF - 100, 0x80000000, self.rnd.getrandbits(32),
                                 self.rnd.randint(2, 500)])
            if x in self.used_ids or 0x7FFFFFF0 <= x <= 0x7FFFFFFF:
                continue
            self.used_ids.add(x)
            return x

    def attrs(self):
        r = self.rnd
        a = {}
        if r.random() < 0.3:
            a["perm"] = r.choice([0o600, 0o644, 0o755])
        if r.random() < 0.2:
            a["times"] = (r.randint(0, 2 ** 31 - 1), r.randint(0, 2 ** 31 - 1))
        if r.random() < 0.15:
            a["size"] = r.choice([0, 5, 1000])
        if r.random() < 0.1:
            a["uidgid"] = (0, 0)
        if r.random() < 0.1:
            a["ext"] = [(b"k", b"v")]
        return a

    def hsel(self, cls, want):
        """returns a selector run at send time: issued = handle strings so far (token n = issued[n-1]).
        cls: file | dir | closed | junk ; the spec decides validity itself from the token."""
        gen, r = self, self.rnd
        pick = r.random()

        def sel(issued):
            live = [i + 1 for i in range(len(issued)) if (i + 1) not in gen.closed]
            files = [t for t in live if gen.kindof.get(t) == "file"]
            dirs = [t for t in live if gen.kindof.get(t) == "dir"]
            pool = {"file": files, "dir": dirs, "closed": sorted(gen.closed), "junk": []}[cls]
            if pool:
                t = pool[int(pick * len(pool)) % len(pool)]
                return t, issued[t - 1]
            return 0, want
        return sel

    def make(self, n, with_checkfile=True):
        r = self.rnd
        self.kindof = {}
        out = []
        gen = self
        for _ in range(n):
            k = r.choice(["open", "open", "close", "read", "read", "write", "lstat", "fstat", "setstat", "fsetstat",
                          "opendir", "readdir", "readdir", "remove", "mkdir", "rmdir", "realpath", "stat", "rename",
                          "readlink", "symlink", "ext", "ext", "ext_check_file", "ext_check_file", "unknown", "unknown"])
            q = {"id": self.rid()}
            junk = r.choice([b"", b"hx0", b"hx999", b"hx1\x00", b"zz", r.randbytes(r.randint(1, 40))])
            cls = r.choice(["file", "file", "file", "dir", "closed", "junk"])
            if k == "open":
                q.update(kind="open", path=r.choice(PATHS), attrs=self.attrs(),
                         flags=r.choice([1, 1, 1, 2, 3, 0x1A, 0x0B, 0x2A, 0x3B, 0, 0xFFFFFFFF]))
            elif k in ("close", "fstat", "readdir"):
                q.update(kind=k, hsel=self.hsel(cls if k != "readdir" else r.choice(["dir", "dir", "file", "closed", "junk"]), junk))
            elif k == "read":
                q.update(kind=k, hsel=self.hsel(cls, junk), off=r.choice([0, 1, 65536, 99999, 10 ** 6, 2 ** 40, 2 ** 63]),
                         len=r.choice([0, 1, 100, 32768, 65536, 1 << 20]))
            elif k == "write":
                q.update(kind=k, hsel=self.hsel(cls, junk), off=r.choice([0, 10, 70000, 2 ** 33]),
                         data=r.randbytes(r.choice([0, 1, 100, 4000])))
            elif k in ("lstat", "stat", "opendir", "remove", "rmdir", "realpath", "readlink"):
                q.update(kind=k, path=r.choice(PATHS))
            elif k in ("setstat", "mkdir"):
                q.update(kind=k, path=r.choice(PATHS), attrs=self.attrs())
            elif k == "fsetstat":
                q.update(kind=k, hsel=self.hsel(cls, junk), attrs=self.attrs())
            elif k in ("rename", "symlink"):
                q.update(kind=k, path=r.choice(PATHS[:6] + PATHS[11:]), path2=r.choice(PATHS[:6] + PATHS[11:]))
            elif k == "ext":
                e = r.choice(EXTS[1:])
                q.update(kind=drv.EXT_KIND.get(e, "ext_other"), ext=e, path=r.choice(PATHS), path2=r.choice(PATHS),
                         blob=r.randbytes(r.randint(0, 30)))
            elif k == "ext_check_file":
                if not with_checkfile:
                    continue
                q.update(kind=k, ext="check-file", hsel=self.hsel(cls, junk), algs=r.choice(["md5", "sha1", "md5,sha1", "sha256,md5", "crc32", ""]),
                         off=r.choice([0, 0, 100, 65536, 200000]), len=r.choice([0, 0, 256, 1000, 65536, 70000, 300000]),
                         blk=r.choice([0, 256, 1024, 65536, 70000, 100, 1]),
                         hpath=lambda tok: gen.paths.get(tok))
            else:
                t = r.choice([x for x in range(256) if x not in drv.KIND_T.values() and x != 200])
                q.update(kind="unknown", tnum=t, blob=r.randbytes(r.choice([0, 0, 3, 4, 20, 200])))
            if r.random() < 0.12 and q["kind"] != "unknown":
                q["trunc"] = r.randint(0, 24)
            out.append(q)
        return out


def bind_tables(gen, sess, q):
    """after a request was answered: remember what each issued token is (driver-side view, used only to pick
    handles of a wanted class for later requests - never for the verdict)"""
    for rsp in q["resp"]:
        if rsp["newh"]:
            gen.kindof[rsp["newh"]] = "file" if q["kind"] == "open" else "dir"
            if q["kind"] == "open":
                gen.paths[rsp["newh"]] = os.path.join(sess.root, os.path.normpath("/" + q["path"]).lstrip("/"))
    if q["kind"] == "close" and q["h"] and q["resp"]:
        gen.closed.add(q["h"])


def run_streams(c, streams, deadline):
    """streams: list of (label, generator function(gen) -> requests). Returns batch rows + meta"""
    batch, meta = [], []
    drv.quiet_thread_errors()
    for si, stream in enumerate(streams):
        label, seed, build = stream[:3]
        rnd = random.Random(seed)
        root = str(c.work / ("srv%d" % si))
        os.makedirs(root)
        populate(root, rnd)
        sess = drv.Session(root)
        if len(stream) > 3:
            sess.knobs.raise_ops = stream[3]         # handle methods that raise on the named files
        sess.raw_init()
        gen = StreamGen(rnd, root)
        reqs = build(gen)
        # one at a time so that later requests can name handles issued earlier
        sent = []
        runner = drv.StreamRunner(sess, deadline)
        for q in reqs:
            ok = runner.do(q)
            sent.append(q)
            bind_tables(gen, sess, q)
            if not ok:
                break
        else:
            sent.append(runner.sentinel())
        sess.close()
        rows = []
        for q in sent:
            rows.append({"kind": q["kind"], "h": q["h"], "stuck": q["stuck"], "foreign": q["foreign"],
                         "resp": [{"type": x["type"], "wf": x["wf"], "newh": x["newh"], "code": x["code"]} for x in q["resp"]],
                         "size": q.get("size", 0), "off": min(q.get("off", 0), 2 ** 30) if q["kind"] == "ext_check_file" else 0,
                         "len": q.get("len", 0) if q["kind"] == "ext_check_file" else 0,
                         "blk": q.get("blk", 0) if q["kind"] == "ext_check_file" else 0})
            c.case(key=(q["kind"], q["t"], q["h"] != 0, q.get("trunc") is not None, q.get("ext", "")))
        batch.append(rows)
        meta.append((label, seed, sent))
    return batch, meta


def describe_req(q):
    d = {k: v for k, v in q.items() if k in ("kind", "t", "id", "h", "path", "path2", "flags", "off", "len", "blk", "ext",
                                              "algs", "trunc", "tnum", "size", "why")}
    d["responses"] = [(x["t"], x["type"]) for x in q["resp"]]
    return d


def server_half(c):
    n = 3
    base = {"MaxReqs": n, "MaxHandles": 2, "FixFsetstat": True, "FixCheckFile": True, "HandleFaults": True,
            "ReplyBeforeClose": False}
    inv = ["ExactlyOne", "TypeAllowed", "NeverStops"]
    c.mc_holds("SftpServerProto", cfg_text(constants=base, invariants=inv), name="server loop, repaired")
    # one handle token is enough to reach every handle class (file / dir / stale / junk) in three requests
    r = c.mc_holds("SftpServerProto", cfg_text(constants=dict(base, MaxHandles=1, HandleFaults=False), invariants=inv + ["Emit"],
                                               action_constraint="GenShape"),
                   name="server loop, case generation", workers=1)
    cases = {tuple(x[1:4]) + (tuple(sorted(x[4])),) for x in r.printed("CASE")}
    if len(cases) < 40:
        raise Machinery("server model emitted only %d (kind, handle class) cases" % len(cases))
    small = dict(base, MaxReqs=2)
    if not c.quick:
        c.mc_holds("SftpServerProto", cfg_text(spec="FairSpec", constants=small, properties=["AllServed"]),
                   name="server loop serves everything")
    c.mc("SftpServerProto", cfg_text(constants=dict(small, FixFsetstat=False), invariants=inv), expect="TypeAllowed",
         name="faithful FSETSTAT reply on an unknown handle")
    c.mc("SftpServerProto", cfg_text(constants=dict(small, FixCheckFile=False), invariants=inv),
         expect="NeverStops|ExactlyOne", name="faithful check-file loop")
    c.mc("SftpServerProto", cfg_text(constants=dict(small, ReplyBeforeClose=True), invariants=inv), expect="ExactlyOne",
         name="mutation: CLOSE acknowledged before a close() that raises")
    deadline = 8.0 if c.quick else 20.0
    # RP: every (kind, handle class, hard) case of the model, rendered a few ways each, in directed streams
    streams = []
    for ci, (kind, hclass, hard, allowed) in enumerate(sorted(cases)):
        # a stream ends at its first unanswered request: the renderings of a "hard" check-file go in separate streams
        for vs in ([(0,), (1,), (2,)] if hard else [(0, 1, 2)]):
            def build(gen, kind=kind, hclass=hclass, hard=hard, vs=vs):
                return directed(gen, kind, hclass, hard, vs)
            streams.append(("model:%s/%s/%s/%s" % (kind, hclass, hard, "".join(map(str, vs))), c.seed * 1000 + ci, build))
    # fixed streams on files whose handle methods raise (deferred write error at close(), failing read / write / stat / chattr)
    for j, ops in enumerate(({"close"}, {"read", "write"}, {"stat", "chattr", "close"})):
        streams.append(("raising handle methods %s" % "/".join(sorted(ops)), 4000 + j, raising, {"b": set(ops), "a": set(ops) - {"close"}}))
    # TV: seeded random streams + one sweep over all 256 packet types
    nrand = 34 if c.quick else 400
    for i in range(nrand):
        streams.append(("random", c.seed * 100003 + i, lambda gen: gen.make(40)))
    streams.append(("sweep", c.seed, sweep))
    batch, meta = run_streams(c, streams, deadline)
    res, _ = c.trace("SftpServerProto_Trace", batch,
                     cfg_text(spec="TSpec", constants=SERVER_CONSTS, invariants=["Report"]))
    if len(res["DONE"]) != len(batch):
        raise Machinery("server trace validation consumed %d of %d streams" % (len(res["DONE"]), len(batch)))
    c.traces += len(batch)

    def describe(tid, clause, row):
        label, seed, sent = meta[tid - 1]
        q = sent[row[2] - 1]
        name = clause if isinstance(clause, str) else clause[0]
        key = "%s:%s" % (name, row[3])
        what = ("SFTPServer, stream %s seed %d, request #%d %s (packet type %d, handle token %d): %s; responses %s%s" %
                (label, seed, row[2], q["kind"], q["t"], q["h"], name, [(x["t"], x["type"]) for x in q["resp"]],
                 ("; " + q["why"]) if q.get("why") else ""))
        return key, what, {"stream": label, "seed": seed, "index": row[2],
                           "requests": [describe_req(x) for x in sent[:row[2]]][-12:]}
    c.verdicts(res["VERDICT"], describe)
    c.extra["server_model_cases_replayed"] = len(cases)
    c.extra["server_streams"] = len(batch)
    return len(cases)


def directed(gen, kind, hclass, hard, variants=(0, 1, 2)):
    """a short stream that puts the server in the state of the model case and issues `kind` several ways"""
    r = gen.rnd
    gen.kindof = {}
    pre = [dict(kind="open", path="a", flags=3, attrs={}, id=gen.rid()),
           dict(kind="opendir", path="d", id=gen.rid()),
           dict(kind="open", path="b", flags=1, attrs={}, id=gen.rid())]
    pre.append(dict(kind="close", id=gen.rid(), hsel=lambda issued: (3, issued[2]) if len(issued) >= 3 else (0, b"")))
    want = {"file": 1, "dir": 2, "stale": 3, "junk": 0, "-": 0}[hclass]

    def hs(issued, want=want):
        if want and len(issued) >= want:
            return want, issued[want - 1]
        return 0, b"hx77"
    out = list(pre)
    for variant in variants:
        q = {"id": gen.rid(), "kind": kind}
        if kind in drv.KIND_T and kind in ("close", "fstat", "readdir", "read", "write", "fsetstat"):
            q["hsel"] = hs
        if kind == "read":
            q.update(off=[0, 50000, 10 ** 7][variant], len=[100, 32768, 10][variant])
        elif kind == "write":
            q.update(off=[0, 5, 200000][variant], data=r.randbytes([1, 100, 0][variant]))
        elif kind == "open":
            q.update(path=["a", "nope", "new1"][variant], flags=[1, 1, 0x0A][variant], attrs={})
        elif kind in ("lstat", "stat", "opendir", "remove", "rmdir", "realpath", "readlink"):
            q.update(path=["a", "nope", "d", "l"][variant + (1 if kind == "readlink" else 0)])
        elif kind in ("setstat", "mkdir"):
            q.update(path=["b", "nope", "new2"][variant], attrs=[{"perm": 0o600}, {}, {"times": (1, 2)}][variant])
        elif kind == "fsetstat":
            q.update(attrs=[{"perm": 0o600}, {}, {"times": (1, 2)}][variant])
        elif kind in ("rename", "symlink"):
            q.update(path=["b", "nope", "a"][variant], path2=["new1", "new2", "d"][variant])
        elif kind == "ext_check_file":
            # hard = a range on which the pinned loop does not end: past EOF, or one block over the 64 KiB read chunk
            q.update(ext="check-file", hsel=hs, algs=["md5", "sha1", "md5,sha1"][variant], off=0,
                     len=[10 ** 6, 0, 10 ** 6][variant] if hard else [1000, 1000, 65536][variant],
                     blk=[0, 0, 70000][variant] if hard else [0, 256, 4096][variant],
                     hpath=lambda tok: os.path.join(gen.root, "a") if tok == 1 else None)
        elif kind == "ext_posix_rename":
            q.update(ext="posix-rename@openssh.com", path=["b", "nope", "a"][variant], path2=["new1", "x", "b"][variant])
        elif kind == "ext_other":
            q.update(ext=EXTS[2 + variant], blob=b"")
        elif kind == "unknown":
            q.update(tnum=[0, 21, 199][variant], blob=[b"", b"abc", b"\x00" * 8][variant])
        out.append(q)
        if kind in ("close",) and hclass in ("file", "dir"):
            break            # the handle is gone after the first close
    return out


def raising(gen):
    """every handle-taking request on files whose handle methods raise, CLOSE included (twice), then the same handle
    again and an unrelated request"""
    gen.kindof = {}

    def h(n):
        return lambda issued: (n, issued[n - 1]) if len(issued) >= n else (0, b"hx77")
    out = [dict(kind="open", path="b", flags=3, attrs={}, id=gen.rid()),
           dict(kind="open", path="a", flags=3, attrs={}, id=gen.rid())]
    for tok in (1, 2):
        out += [dict(kind="write", hsel=h(tok), off=0, data=b"xyz", id=gen.rid()),
                dict(kind="read", hsel=h(tok), off=0, len=10, id=gen.rid()),
                dict(kind="fstat", hsel=h(tok), id=gen.rid()),
                dict(kind="fsetstat", hsel=h(tok), attrs={"perm": 0o600}, id=gen.rid()),
                dict(kind="ext_check_file", ext="check-file", hsel=h(tok), algs="md5", off=0, len=100, blk=256, id=gen.rid(),
                     hpath=lambda t: None)]
    out += [dict(kind="close", hsel=h(1), id=gen.rid()), dict(kind="fstat", hsel=h(1), id=gen.rid()),
            dict(kind="close", hsel=h(1), id=gen.rid()), dict(kind="read", hsel=h(1), off=0, len=5, id=gen.rid()),
            dict(kind="stat", path="a", id=gen.rid()), dict(kind="close", hsel=h(2), id=gen.rid()),
            dict(kind="close", hsel=h(2), id=gen.rid())]
    return out


def sweep(gen):
    """every packet type 0..255 once with an empty body, once with a handle-like body"""
    gen.kindof = {}
    out = [dict(kind="open", path="a", flags=1, attrs={}, id=gen.rid())]
    names = {v: k for k, v in drv.KIND_T.items()}
    for t in range(256):
        for blob in (b"", drv.s_str(b"hx1") + b"\x00" * 12):
            if t in names or t == 200:
                continue
            out.append(dict(kind="unknown", tnum=t, blob=blob, id=gen.rid()))
    return out


def run(c):
    ncases = server_half(c)
    nprog = clientlib.client_half(c, "C30")
    c.rule = ("server: each of the %d (kind, handle class) cases of the model rendered 1-3 ways + seeded random streams of 40 raw "
              "requests (all packet types, valid/closed/unknown handles, 14 extension names, truncated bodies, check-file past "
              "EOF) + a sweep over the unassigned type numbers; client: %d seeded programs mixing >100 pipelined writes with "
              "stat/listdir/read/prefetch/readv; distinct = distinct (kind, packet type, handle named?, truncated?, extension) "
              "resp. distinct program texts" % (ncases, nprog))
    c.assumptions = ["request packets carry at least type and id; READ length <= 1 MiB; ids are unique within a stream",
                     "the served tree holds regular files, one directory and one symlink; all paths stay inside it"]
