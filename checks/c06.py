META = {
    "level": "model_checking",
    "technique": "symbolic (Dolev-Yao) TLA+ model of the key exchange with a one-field man in the middle and re-exchanges (Kex.tla) model-checked by TLC; every scenario TLC emits replayed as real handshakes between two paramiko Transports for kex methods x host-key algorithms; the recorded K/H/session id/signature facts of every exchange judged by TLC with the trace spec",
    "text": "TLC checks on the symbolic model that a finished exchange implies equal K and H and a signature over H verifying under the shown key, that the session id is the first H for ever, whatever hash family (digest size) a later exchange negotiates (invariant and action property), and that an altered reply field in ANY exchange makes the client abort and that after every exchange the stored host key is the server's (seven seeded design errors must be caught, among them 'the transcript hash covers a masked copy of the received public value', among them 'verify only when the host key blob is new' and 'session id re-latched when the digest size changes'); TLC emits every (altered field, number of re-exchanges) scenario; each is run on real client/server Transports over an in-memory link whose plaintext man in the middle (first exchange) or the harness-owned server end (re-exchanges 1..3) changes the value of exactly one field of the server's reply (host key swapped for another valid key / one bit, f or Q_S changed / replaced by another valid value / any single bit flipped (every bit of the 32..133-byte values in the thorough tier, stratified in quick), single bits of e or Q_C on the way to the server, signature bits / signature over other data / signature by an unrelated key, signature algorithm name, gex p, gex g); both peers log K, H, session_id at _set_K_H, the client logs _verify_key / NEWKEYS; the signature is re-verified with the cryptography package directly and H is rebuilt from the wire; TLC judges every exchange of every session with Kex_Trace",
    "note": "trusted: TLC, the in-memory link and its packet parser, the cryptography package for the independent signature check; re-exchange faults are injected at the server end, not on the (encrypted) wire; alterations change a field's value, never only its encoding; gss-* kex is not exercised",
}
import random
import time
from harness.core import cfg_text, Machinery
from harness.drivers import kex as drv

INVS = ["Agreement", "HostKeyAuthentic", "SessionIdFixed", "AlteredAborts"]
ALLF = {"hostkey", "pub", "pubbit", "initbit", "sig", "sigalg", "group"}
FIELD_ALTS = {"none": ["none"], "hostkey": ["hostkey_swap", "hostkey_bits"], "pub": ["pub", "pub_valid"],
              "sig": ["sig_bits", "sig_other_data", "sig_other_key"], "sigalg": ["sig_alg"], "group": ["gex_p", "gex_g"],
              "pubbit": [], "initbit": []}      # single-bit flips of f / Q_S and e / Q_C: planned separately (bit_plan)
MUTS = [("skip_verify", "Agreement|AlteredAborts"), ("sid_overwrite", "SessionIdFixed"),
        ("ignore_sig_alg", "AlteredAborts"), ("verify_before_hash_binding", "Agreement|AlteredAborts"),
        ("verify_only_new_key", "Agreement|AlteredAborts|HostKeyAuthentic"), ("sid_by_digest_size", "SessionIdFixed"),
        ("hash_masked_pub", "AlteredAborts")]


def bit_plan(q, rnd, maxrekey, fams):
    """single-bit flips of the public values (msb-first bit numbers, negative = from the end).  Fixed-size values
    (X25519: 32 bytes, NIST points: 65/97/133 bytes): thorough = EVERY bit of f / Q_S, quick = X25519 stratified
    (first and last bit of every byte, all bits of the first and last byte) and, for one method of every other
    family, the first byte's outer bits, the whole last byte and seeded others.  mpints (128..513 bytes): stratified
    samples.  e / Q_C towards the server: X25519 every bit (thorough) / last byte + samples (quick), samples elsewhere.
    Re-exchanges: a few flips at the server end."""
    out = []      # (kex, alteration, exchange index)
    x = drv.FAST_KEX
    if q:
        out += [(x, "pub_bit:%d" % k, 0) for k in drv.stratified_bits(32)]
        out += [(x, "init_bit:%d" % k, 0) for k in sorted(set(range(248, 256)) | {0, 7} | set(rnd.sample(range(8, 248), 6)))]
        for fam, names in sorted(fams.items()):
            if fam == "x25519":
                continue
            kex = names[rnd.randrange(len(names))]
            nb = 8 * drv.PUB_BYTES.get(kex, 128)
            out += [(kex, "pub_bit:%d" % k, 0) for k in [0, 7] + list(range(-8, 0)) + rnd.sample(range(8, nb - 8), 6)]
            out += [(kex, "init_bit:%d" % k, 0) for k in [0, -8, -1, rnd.randrange(8, nb - 8)]]
        for n in range(1, maxrekey + 1):
            out += [(x, "pub_bit:%d" % k, n) for k in (-8, -1, rnd.randrange(0, 248))]
    else:
        for kex in drv.KEX_NAMES:
            nbytes = drv.PUB_BYTES.get(kex)
            if nbytes:
                out += [(kex, "pub_bit:%d" % k, 0) for k in range(8 * nbytes)]
                ks = range(256) if kex == x else sorted(set(range(8)) | set(range(8 * nbytes - 8, 8 * nbytes)) |
                                                        set(rnd.sample(drv.stratified_bits(nbytes), 32)))
                out += [(kex, "init_bit:%d" % k, 0) for k in ks]
            else:
                ks = list(range(8)) + list(range(-8, 0)) + [8 * b + o for b in rnd.sample(range(1, 120), 12) for o in (0, 7)]
                out += [(kex, "pub_bit:%d" % k, 0) for k in ks]
                out += [(kex, "init_bit:%d" % k, 0) for k in (0, 7, -8, -1) + tuple(rnd.sample(range(8, 900), 4))]
            for n in range(1, maxrekey + 1):
                out += [(kex, "pub_bit:%d" % k, n) for k in (-8, -1, rnd.randrange(0, 8 * (nbytes or 128)))]
    return out


METHODS = {"sha1", "sha256", "sha384", "sha512"}      # hash families (digest sizes 20, 32, 48, 64) of the kex methods


def consts(gex, maxrekey, mut="none"):
    return {"MaxRekey": maxrekey, "Fields": ALLF if gex else ALLF - {"group"}, "Gex": gex, "Methods": METHODS, "Mut": mut}


def run(c):
    q = c.quick
    rnd = random.Random(c.seed)
    t0 = time.time()
    stage = {}
    maxrekey = 2 if q else 3
    # ---- M: the symbolic protocol with the one-field attacker
    cases, seqs = {}, {}
    for gex in ((True,) if q else (False, True)):
        r = c.mc_holds("Kex", cfg_text(constants=consts(gex, maxrekey), invariants=INVS + ["Emit"],
                                       properties=["SidNeverChanges"]),
                       name="kex %s, %d re-exchanges" % ("group exchange" if gex else "fixed group / curve", maxrekey), workers=1)
        got = r.printed("CASE")
        if not got or not any(x[3] == "aborted" for x in got) or not any(x[3] == "done" and x[2] == maxrekey for x in got):
            raise Machinery("Kex model (gex=%s) does not reach both outcomes" % gex)
        if not any(x[3] == "aborted" and x[2] == maxrekey for x in got):
            raise Machinery("Kex model (gex=%s) never alters the last re-exchange" % gex)
        cases[gex] = sorted({(x[1], x[2], x[3]) for x in got})
        for x in got:                 # the method (hash family) sequences TLC explored for each scenario
            seqs.setdefault((x[1], x[2]), set()).add(tuple(x[4]))
    if q:       # the fixed-group model is the group-exchange model without the group field (checked in the thorough tier)
        cases[False] = [x for x in cases[True] if x[0] != "group"]
    muts = MUTS + [("sid_overwrite", "SidNeverChanges|<temporal>")]
    for mut, inv in ([muts[c.seed % len(muts)]] if q else muts):
        prop = inv.startswith("SidNever")
        c.mc("Kex", cfg_text(constants=consts(True, 2, mut), invariants=[] if prop else INVS,
                             properties=["SidNeverChanges"] if prop else []),
             expect=inv, name="seeded design error " + mut + (" (action property)" if prop else ""), workers=1)
    stage["model_s"] = round(time.time() - t0, 1)

    # ---- RP: every emitted scenario on real Transports.  A case is (altered field | none, n, outcome): for an
    # honest session n = number of re-exchanges, otherwise n = index of the exchange whose reply is altered
    algs = list(drv.HOSTKEY_ALGS)
    plan = []        # (kex, hostalg, alter, n, model outcome)
    fams = {}
    for kex in drv.KEX_NAMES:
        fams.setdefault(drv.KEX_FAMILY[kex], []).append(kex)
    if q:
        k_off, a_off = rnd.randrange(10), rnd.randrange(7)
        for i, kex in enumerate(drv.KEX_NAMES):
            gex = drv.KEX_FAMILY[kex] == "gex"
            honest = [x for x in cases[gex] if x[0] == "none"]
            plan.append((kex, algs[(i + a_off) % 7], "none", honest[(i + k_off) % len(honest)][1], "done"))
        j = 0
        for fam, names in sorted(fams.items()):          # first exchange: every alteration once per kex family
            for fld, n, out in cases[fam == "gex"]:
                if fld == "none" or n != 0:
                    continue
                for alt in FIELD_ALTS[fld]:
                    plan.append((names[(j + k_off) % len(names)], algs[(j + a_off) % 7], alt, 0, out))
                    j += 1
        for fld, n, out in cases[True]:                  # re-exchanges: every alteration once per exchange index
            if fld == "none" or n == 0:
                continue
            for alt in FIELD_ALTS[fld]:
                plan.append((drv.KEX_NAMES[(j + k_off) % 10], algs[(j + a_off) % 7], alt, n, out))
                j += 1
    else:
        for ki, kex in enumerate(drv.KEX_NAMES):
            for ai, alg in enumerate(algs):
                j = 0
                for fld, n, out in cases[drv.KEX_FAMILY[kex] == "gex"]:
                    if fld == "none":
                        if n == (ai + len(kex)) % (maxrekey + 1):
                            plan.append((kex, alg, "none", n, out))   # one honest session per pair; re-exchanges rotate
                        continue
                    for alt in FIELD_ALTS[fld]:
                        j += 1
                        # first exchange: everything; re-exchanges: each alteration at one rotating index, half of
                        # the alterations per (kex, algorithm) pair
                        if n == 0 or (n == 1 + (ki + ai + j) % maxrekey and (ki + ai + j // maxrekey) % 2 == 0):
                            plan.append((kex, alg, alt, n, out))
    # every exchange of a session negotiates a kex method of the hash family TLC chose for it: the first one is the
    # planned method, re-exchanges switch to methods of the emitted families (digest sizes change across exchanges)
    by_hash = {}
    for k in drv.KEX_NAMES:
        by_hash.setdefault(drv.KEX_HASH[k], []).append(k)
    inv_alt = {a: f for f, al in FIELD_ALTS.items() for a in al}

    def changes(m):
        return sum(1 for a, b in zip(m, m[1:]) if a != b)
    turn = {}
    have = {(x[0], x[1]): x[2] for g in cases for x in cases[g]}
    for j, (kex, alt, n) in enumerate(bit_plan(q, rnd, maxrekey, fams)):
        fld = "pubbit" if alt.startswith("pub_bit") else "initbit"
        if (fld, n) not in have:
            raise Machinery("the model has no case for %s in exchange %d" % (fld, n))
        plan.append((kex, algs[(j + c.seed) % 7], alt, n, have[(fld, n)]))
    records, meta = [], []
    first_varied = True
    for kex, alg, alt, rk, out in plan:
        kexes = [kex]
        if rk:
            fld = inv_alt.get(alt) or ("pubbit" if alt.startswith("pub_bit") else "initbit")
            cand = sorted((m for m in seqs[(fld, rk)] if m[0] == drv.KEX_HASH[kex]), key=lambda m: (-changes(m), m))
            if not cand or len(cand[0]) != rk + 1:
                raise Machinery("no method sequence emitted for %s at %d starting with %s" % (fld, rk, drv.KEX_HASH[kex]))
            t = turn[(fld, rk)] = turn.get((fld, rk), -1) + 1
            m = cand[0] if (alt == "none" and first_varied) else cand[(t * 5 + c.seed) % len(cand)]
            first_varied = first_varied and alt != "none"
            for i, h in enumerate(m[1:]):
                kexes.append(by_hash[h][(t + i + c.seed) % len(by_hash[h])])
        rec = drv.run_kex(kexes, alg, alt, rekeys=rk, rnd=rnd, at=0 if alt == "none" else rk)
        if any(x["engine"] and x["engine"] != k for x, k in zip(rec["exchanges"], kexes)):
            raise Machinery("exchanges used %r, planned %r" % ([x["engine"] for x in rec["exchanges"]], kexes))
        if alt == "none":
            if not (rec["client_ok"] and rec["server_ok"]) or rec["rekeys"] != rk:
                raise Machinery("honest handshake %s/%s did not complete (%d of %d re-exchanges): %r" %
                                (kex, alg, rec["rekeys"], rk, rec["errors"]))
        elif not rec["applied"] or len(rec["exchanges"]) != rk + 1 or not all(x["c_done"] for x in rec["exchanges"][:rk]):
            raise Machinery("alteration %s was not applied in exchange %d of %s/%s (%d exchanges seen, errors %r)" %
                            (alt, rk, kex, alg, len(rec["exchanges"]), rec["errors"]))
        got = "done" if rec["exchanges"][-1]["c_done"] else "aborted"
        if got != out:
            c.conformance("C_outcome_differs_from_model:%s" % alt, "%s/%s %s: client %s, model %s" % (kex, alg, alt, got, out))
        records.append({k: v for k, v in rec.items() if k != "errors"})
        meta.append(rec)
        c.case(key="%s|%s|%s|%d" % (">".join(kexes), alg, alt, rk),
               sample={"kex_per_exchange": kexes, "hostkey_alg": alg, "altered": alt, "exchange_index_or_re_exchanges": rk, "client": got,
                       "client_error": rec["errors"].get("client", "")} if len(c.samples) < 5 and (alt != "none" or rk) else None)
    stage["handshakes_s"] = round(time.time() - t0, 1)
    c.extra["exchanges"] = sum(len(r["exchanges"]) for r in records)
    c.extra["coverage_kex"] = sorted({k for r in records for k in r["kexes"]})
    c.extra["sessions_with_digest_size_change"] = sum(1 for r in records if len({x["meth"] for x in r["exchanges"]}) > 1)
    c.extra["coverage_hostkey_algs"] = sorted({r["hostalg"] for r in records})
    c.extra["coverage_alterations"] = sorted({r["alter"].split(":")[0] for r in records})
    c.extra["single_bit_flips"] = sum(1 for r in records if ":" in r["alter"])

    # ---- TV: every exchange of every session judged by the trace spec
    res, _ = c.trace("Kex_Trace", records, cfg_text(spec="TSpec", constants=consts(True, maxrekey), invariants=["Report"]))
    if len(res["DONE"]) != len(records):
        raise Machinery("trace validation consumed %d of %d sessions" % (len(res["DONE"]), len(records)))
    c.traces += len(records)

    def describe(tid, clause, row):
        rec = meta[tid - 1]
        key = clause if clause in ("P_session_id_changed",) else "%s:%s%s" % (
            clause, rec["alter"].split(":")[0], ":rekey" if rec["alter"] != "none" and rec["alter_at"] > 0 else "")
        what = "%s / %s, altered field %s %s(in exchange %d), exchange %d: clause %s fails (%s; client error: %s)" % (
            rec["kex"], rec["hostalg"], rec["alter"],
            ("= bit %d of %d bytes, byte %d mask 0x%02x " % (rec["applied_detail"][1], rec["applied_detail"][2], rec["applied_detail"][1] // 8,
                                                          0x80 >> (rec["applied_detail"][1] % 8))) if ":" in rec["alter"] and rec["applied_detail"] else "",
            rec["alter_at"], row[2], clause, rec["exchanges"][min(row[2], len(rec["exchanges"]) - 1)],
            rec["errors"].get("client", "none"))
        return key, what, {"kex": rec["kex"], "hostalg": rec["hostalg"], "alter": rec["alter"], "rekeys": rec["rekeys"],
                           "record": rec}
    c.verdicts(res["VERDICT"], describe)
    stage["trace_validation_s"] = round(time.time() - t0, 1)
    c.extra["stage_clock"] = stage
    c.rule = ("scenarios = (altered reply field | none, index of the altered exchange | number of re-exchanges) emitted by TLC from Kex.tla; each run as a real session: "
              + ("every kex method once, every host-key algorithm; first exchange: every alteration once per kex family; every re-exchange index: every alteration once" if q else
                 "every kex method x host-key algorithm: one honest session (0..%d re-exchanges), every alteration in the first exchange, half of the alterations in one re-exchange each (index and half rotate over the pairs)" % maxrekey)
              + " + single-bit flips of f / Q_S / e / Q_C (X25519 and NIST points: every bit in thorough, first+last bit of every byte and the whole first/last byte of X25519 values in quick; samples for mpints)" + "; re-exchanges switch to kex methods of the hash families (sha1/256/384/512) TLC chose for them, by changing both peers' security options before renegotiate_keys(); distinct = (kex method per exchange, host-key algorithm, alteration, exchange index)")
    c.assumptions = ["alterations of a re-exchange are made at the server end (the harness owns the server; on the wire they are encrypted and MACed: C02); the gex group is altered in the first exchange only",
                     "group exchange uses published safe primes (RFC 2409/3526) installed as the server's modulus pack",
                     "an alteration changes the value of one field as delivered to the client; encodings are left canonical"]
