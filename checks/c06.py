META = {
    "level": "model_checking",
    "technique": "symbolic (Dolev-Yao) TLA+ model of the key exchange with a one-field man in the middle and re-exchanges (Kex.tla) model-checked by TLC; every scenario TLC emits replayed as real handshakes between two paramiko Transports for kex methods x host-key algorithms; the recorded K/H/session id/signature facts of every exchange judged by TLC with the trace spec",
    "text": "TLC checks on the symbolic model that a finished exchange implies equal K and H and a signature over H verifying under the shown key, that the session id is the first H for ever (invariant and action property), and that any altered reply field makes the client abort (four seeded design errors must be caught); TLC emits every (altered field, number of re-exchanges) scenario; each is run on real client/server Transports over an in-memory link whose plaintext man in the middle changes the value of exactly one field of the server's reply (host key swapped for another valid key / one bit, f or Q_S changed / replaced by the attacker's valid value, signature bits, signature algorithm name, gex p, gex g); both peers log K, H, session_id at _set_K_H, the client logs _verify_key / NEWKEYS; the signature is re-verified with the cryptography package directly and H is rebuilt from the wire; TLC judges every exchange of every session with Kex_Trace",
    "note": "trusted: TLC, the in-memory link and its packet parser, the cryptography package for the independent signature check; re-exchanges are honest (they travel encrypted, C02); alterations change a field's value, never only its encoding; gss-* kex is not exercised",
}
import random
import time
from harness.core import cfg_text, Machinery
from harness.drivers import kex as drv

INVS = ["Agreement", "HostKeyAuthentic", "SessionIdFixed", "AlteredAborts"]
ALLF = {"hostkey", "pub", "sig", "sigalg", "group"}
FIELD_ALTS = {"none": ["none"], "hostkey": ["hostkey_swap", "hostkey_bits"], "pub": ["pub", "pub_valid"],
              "sig": ["sig_bits"], "sigalg": ["sig_alg"], "group": ["gex_p", "gex_g"]}
MUTS = [("skip_verify", "Agreement|AlteredAborts"), ("sid_overwrite", "SessionIdFixed"),
        ("ignore_sig_alg", "AlteredAborts"), ("verify_before_hash_binding", "Agreement|AlteredAborts")]


def consts(gex, maxrekey, mut="none"):
    return {"MaxRekey": maxrekey, "Fields": ALLF if gex else ALLF - {"group"}, "Gex": gex, "Mut": mut}


def run(c):
    q = c.quick
    rnd = random.Random(c.seed)
    t0 = time.time()
    stage = {}
    maxrekey = 2 if q else 3
    # ---- M: the symbolic protocol with the one-field attacker
    cases = {}
    for gex in ((True,) if q else (False, True)):
        r = c.mc_holds("Kex", cfg_text(constants=consts(gex, maxrekey), invariants=INVS + ["Emit"],
                                       properties=["SidNeverChanges"]),
                       name="kex %s, %d re-exchanges" % ("group exchange" if gex else "fixed group / curve", maxrekey), workers=1)
        got = r.printed("CASE")
        if not got or not any(x[3] == "aborted" for x in got) or not any(x[3] == "done" and x[2] == maxrekey for x in got):
            raise Machinery("Kex model (gex=%s) does not reach both outcomes" % gex)
        cases[gex] = sorted({(x[1], x[2], x[3]) for x in got})
    if q:       # the fixed-group model is the group-exchange model without the group field (checked in the thorough tier)
        cases[False] = [x for x in cases[True] if x[0] != "group"]
    muts = MUTS + [("sid_overwrite", "SidNeverChanges|<temporal>")]
    for mut, inv in ([muts[c.seed % len(muts)]] if q else muts):
        prop = inv.startswith("SidNever")
        c.mc("Kex", cfg_text(constants=consts(True, 1, mut), invariants=[] if prop else INVS,
                             properties=["SidNeverChanges"] if prop else []),
             expect=inv, name="seeded design error " + mut + (" (action property)" if prop else ""), workers=1)
    stage["model_s"] = round(time.time() - t0, 1)

    # ---- RP: every emitted scenario on real Transports
    algs = list(drv.HOSTKEY_ALGS)
    plan = []        # (kex, hostalg, alter, rekeys, model outcome)
    if q:
        seen_alt = set()
        k_off, a_off = rnd.randrange(10), rnd.randrange(7)
        for i, kex in enumerate(drv.KEX_NAMES):
            gex = drv.KEX_FAMILY[kex] == "gex"
            honest = [x for x in cases[gex] if x[0] == "none"]
            plan.append((kex, algs[(i + a_off) % 7], "none", honest[(i + k_off) % len(honest)][1], "done"))
        fams = {}
        for kex in drv.KEX_NAMES:
            fams.setdefault(drv.KEX_FAMILY[kex], []).append(kex)
        j = 0
        for fam, names in sorted(fams.items()):
            for fld, rk, out in cases[fam == "gex"]:
                for alt in FIELD_ALTS[fld]:
                    if alt == "none":
                        continue
                    plan.append((names[(j + k_off) % len(names)], algs[(j + a_off) % 7], alt, rk, out))
                    seen_alt.add(alt)
                    j += 1
    else:
        for kex in drv.KEX_NAMES:
            for ai, alg in enumerate(algs):
                for fld, rk, out in cases[drv.KEX_FAMILY[kex] == "gex"]:
                    if fld == "none" and rk != (ai + len(kex)) % (maxrekey + 1):
                        continue          # one honest session per pair; the number of re-exchanges rotates
                    for alt in FIELD_ALTS[fld]:
                        plan.append((kex, alg, alt, rk, out))
    records, meta = [], []
    for kex, alg, alt, rk, out in plan:
        rec = drv.run_kex(kex, alg, alt, rekeys=rk, rnd=rnd)
        if alt == "none":
            if not (rec["client_ok"] and rec["server_ok"]) or rec["rekeys"] != rk:
                raise Machinery("honest handshake %s/%s did not complete (%d of %d re-exchanges): %r" %
                                (kex, alg, rec["rekeys"], rk, rec["errors"]))
        elif not rec["applied"]:
            raise Machinery("alteration %s was not applied on %s/%s" % (alt, kex, alg))
        got = "done" if rec["exchanges"][-1]["c_done"] else "aborted"
        if got != out:
            c.conformance("C_outcome_differs_from_model:%s" % alt, "%s/%s %s: client %s, model %s" % (kex, alg, alt, got, out))
        records.append({k: v for k, v in rec.items() if k != "errors"})
        meta.append(rec)
        c.case(key="%s|%s|%s|%d" % (kex, alg, alt, rk),
               sample={"kex": kex, "hostkey_alg": alg, "altered": alt, "re_exchanges": rk, "client": got,
                       "client_error": rec["errors"].get("client", "")} if len(c.samples) < 5 and (alt != "none" or rk) else None)
    stage["handshakes_s"] = round(time.time() - t0, 1)
    c.extra["exchanges"] = sum(len(r["exchanges"]) for r in records)
    c.extra["coverage_kex"] = sorted({r["kex"] for r in records})
    c.extra["coverage_hostkey_algs"] = sorted({r["hostalg"] for r in records})
    c.extra["coverage_alterations"] = sorted({r["alter"] for r in records})

    # ---- TV: every exchange of every session judged by the trace spec
    res, _ = c.trace("Kex_Trace", records, cfg_text(spec="TSpec", constants=consts(True, maxrekey), invariants=["Report"]))
    if len(res["DONE"]) != len(records):
        raise Machinery("trace validation consumed %d of %d sessions" % (len(res["DONE"]), len(records)))
    c.traces += len(records)

    def describe(tid, clause, row):
        rec = meta[tid - 1]
        key = clause if clause in ("P_session_id_changed",) else "%s:%s" % (clause, rec["alter"])
        what = "%s / %s, altered field %s, exchange %d: clause %s fails (%s; client error: %s)" % (
            rec["kex"], rec["hostalg"], rec["alter"], row[2], clause, rec["exchanges"][min(row[2], len(rec["exchanges"]) - 1)],
            rec["errors"].get("client", "none"))
        return key, what, {"kex": rec["kex"], "hostalg": rec["hostalg"], "alter": rec["alter"], "rekeys": rec["rekeys"],
                           "record": rec}
    c.verdicts(res["VERDICT"], describe)
    stage["trace_validation_s"] = round(time.time() - t0, 1)
    c.extra["stage_clock"] = stage
    c.rule = ("scenarios = (altered reply field | none, number of re-exchanges) emitted by TLC from Kex.tla; each run as a real session for "
              + ("every kex method once, every host-key algorithm, every alteration once per kex family" if q else
                 "every kex method x host-key algorithm x alteration (honest sessions with 0..%d re-exchanges)" % maxrekey)
              + "; distinct = (kex, host-key algorithm, alteration, re-exchanges)")
    c.assumptions = ["re-exchanges are not attacked (they are encrypted and MACed: C02)",
                     "group exchange uses published safe primes (RFC 2409/3526) installed as the server's modulus pack",
                     "an alteration changes the value of one field as delivered to the client; encodings are left canonical"]
