META = {
    "level": "model_checking",
    "technique": "TLA+ model of the protocol version exchange as Transport._check_banner / Packetizer.readline perform it (Banner.tla: one step per line read, the environment chooses the kind of line; bound of 100 lines) model-checked by TLC; every behaviour TLC emits (0, 1, 99 or 100 lines of pre-banner text, then up to 2-3 lines of every kind) is played to a real Transport in client and server role by a raw peer, and the outcome (KEXINIT sent / which exception) is judged by TLC (Banner_Trace.tla)",
    "text": "beyond the listed properties: a session proceeds to key exchange only after an identification string of version 2.0 or 1.99 with a software segment, preceded by fewer than 100 other lines; pre-banner text is tolerated up to that limit; other versions, malformed strings, undecodable bytes, silence and EOF end the connection with the matching error; the remembered remote_version is the line received; the seeded error 'one line too many' is refuted",
    "note": "extension check, not part of MANIFEST.json (the property list is fixed); trusted: TLC, netsched link, classification of the outcome by exception type / message text; the 2 s per-line timeout of the code is real time, so 'quiet' cases take 1-2 s each",
}
import random
from harness.core import cfg_text, Machinery
from harness.drivers import banner as drv


def run(c):
    consts = {"Limit": 100, "Prefixes": {0, 1, 99, 100}, "MaxTail": 2 if c.quick else 3, "OffByOne": False}
    invs = ["AcceptedOnlyOnBanner", "JunkTolerated", "LimitRespected"]
    c.mc("Banner", cfg_text(constants=dict(consts, OffByOne=True), invariants=invs, deadlock=False), expect="JunkTolerated|LimitRespected|AcceptedOnlyOnBanner",
         name="sensitivity: the loop reads one line too many", workers=2)
    r = c.mc_holds("Banner", cfg_text(constants=consts, invariants=invs + ["Emit"], deadlock=False), name="all line sequences", workers=1)
    cases = r.printed("CASE")
    seen = {}
    for cs in cases:
        seen[(cs[1], tuple(cs[2]))] = cs[3]
    if len(seen) < 40:
        raise Machinery("TLC emitted only %d behaviours" % len(seen))
    # once the limit is reached nothing more is looked at: the same lines followed by a perfectly good identification string
    for (pre, tail), status in list(seen.items()):
        if status == "indecipherable":
            seen[(pre, tail + ("v20",))] = status
    rnd = random.Random(c.seed)
    batch = []
    items = sorted(seen.items())
    for n, ((pre, tail), status) in enumerate(items):
        if "quiet" in tail and c.quick and (pre, tail) not in ((0, ("quiet",)), (1, ("quiet",)), (0, ("junk", "quiet"))):
            continue        # each silent case costs 1-2 s of real time
        for role in (("client", "server") if (not c.quick or n % 3 == 0) else ("client",)):
            data_len = 30 * pre + 40 * len(tail)
            rec = drv.run_case(pre, list(tail), role=role, variant=n, split=rnd.choice([None, None, rnd.randint(1, max(2, data_len))]))
            rec["model"] = status
            batch.append(rec)
            c.case(key=(pre, tail, role), sample=rec if pre == 99 and tail == ("v20c",) else None)
    res, _ = c.trace("Banner_Trace", [{k: rec[k] for k in ("pre", "tail", "status", "version_ok")} for rec in batch],
                     cfg_text(spec="TSpec", constants=dict(consts, MaxTail=5), invariants=["Report"]))
    if len(res["DONE"]) != len(batch):
        raise Machinery("trace validation consumed %d of %d traces" % (len(res["DONE"]), len(batch)))
    c.traces += len(batch)

    def describe(tid, clause, row):
        rec = batch[tid - 1]
        return ("%s:%s:%s" % (clause, rec["role"], "+".join(rec["tail"]) + ("@%d" % rec["pre"] if rec["pre"] else "")),
                "%s: %d junk lines then %r to a %s: model %s, code %s (remote_version %r, %s)" % (
                    clause, rec["pre"], rec["tail"], rec["role"], rec["model"], rec["status"], rec["remote_version"], rec["exc"]),
                {"pre": rec["pre"], "tail": rec["tail"], "role": rec["role"]})
    c.verdicts(res["VERDICT"], describe)
    c.rule = "every sequence TLC enumerates: {0, 1, 99, 100} lines of pre-banner text, then up to %d lines over 9 kinds, played to a real Transport (client role; every third also server role), lines delivered whole or cut at a random byte" % consts["MaxTail"]
    c.assumptions = ["the peer is a raw socket end; real time: banner_timeout = 1 s, the code's own 2 s per further line"]
