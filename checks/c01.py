META = {
    "level": "model_checking",
    "technique": "TLA+ model of one direction of the binary packet protocol (PacketLayer.tla: send_message, fragmented arrival, read_message, key switch, per-epoch compression stream) model-checked by TLC; TLC-generated behaviours replayed on two real Packetizers keyed through the real _activate_outbound/_activate_inbound for every cipher x MAC x compression; seeded long streams validated against the spec by TLC",
    "text": "TLC checks on the model that the receiver stays positioned where the head packet was sealed (keys, sequence number, compression stream) and delivers exactly the sent sequence, for all interleavings of sends, key switches, fragment arrivals and reads, also with the receiver explored inside read_all while need_rekey is up (NeedRekeyException may only fire with nothing of the next packet consumed), with mutated models (stale inflater/deflater after a key switch, NeedRekeyException with a partly consumed header, write_all skipping bytes after a send timeout, deflating outside the write lock with several sender threads) shown to break it; TLC-simulated behaviours (length classes, fragment splits, key switches) are executed on real Packetizer pairs for all 216 suites and compared read by read; random streams of 1-200 messages up to 70000 bytes with random read fragmentation, socket timeouts and 0-3 key switches are logged and checked event by event by the trace spec",
    "note": "trusted: TLC, the in-memory socket (harness/drivers/packet.py Wire), the harness stand-in for the key exchange result (K, H set directly; NEWKEYS handled like _parse_newkeys), message identification by byte equality; MAC/cipher primitives are the real ones, their cryptographic strength is not claimed",
}
import random

from harness.core import cfg_text, Machinery, run_tlc
from harness.drivers import packet as P

BASE = {"SeqMod": 4, "MaxSwitch": 2, "MaxTamper": 0, "MaxChunk": 5, "Stricts": "@{TRUE, FALSE}",
        "Zlibs": "@{TRUE, FALSE}", "Mutations": set(), "Modes": {"classic"}, "Partial": False, "SThreads": set()}
ALL_MODES = {"classic", "etm", "aead"}
INV = ["TypeOK", "PrefixOnly", "NoAlien", "AllDelivered", "NeverFailsHonest", "SyncHonest", "Caught"]
# stale inflater / deflater after a key switch; NeedRekeyException raised with part of a header already consumed
# write_all re-applying the byte count of the previous send() after a socket timeout
MUTANTS = {"zin", "zout", "rekeydrop", "stalecount"}
LEN_CLASSES = {"one", "bm1", "b", "bp1", "mid", "big"}


def vkey(clause, suite):
    fam, bsize, mode, macsize, z = P.framing_class(suite)
    return "%s:%s%d/%s/%s" % (clause, fam, bsize, mode, "zlib" if z else "none")


def render_len(lc, bsize, rnd):
    """length (type byte included) of a message of class lc; classes are relative to the block size so that
    the packet body ends just before / on / just after a block boundary"""
    if lc == "one":
        return 1
    if lc == "bm1":
        return rnd.choice([bsize - 6, bsize - 5, 2 * bsize - 6, 2 * bsize - 5]) if bsize > 8 else rnd.choice([2, 3, 10, 11])
    if lc == "b":
        return rnd.choice([bsize - 4, 2 * bsize - 4, bsize, 2 * bsize])
    if lc == "bp1":
        return rnd.choice([bsize - 3, 2 * bsize - 3, bsize + 1])
    if lc == "mid":
        return rnd.randint(2, 4000)
    return rnd.choice([32768, 65535, 65536, 70000, rnd.randint(30000, 70000)])


def cell_cuts(start, end, bsize, rnd):
    """absolute end offsets of the 4 cells of the packet occupying [start, end)"""
    if end - start < bsize + 2:         # (cannot happen with a correct sender: the shortest packet is longer than a block)
        return sorted(min(end, start + x) for x in (1, 2, 3)) + [end]
    a = start + rnd.randint(1, bsize - 1)
    b = start + bsize
    c = rnd.randint(b + 1, end - 1)
    return [a, b, c, end]


def generate_behaviours(c, n, nmsgs, depth):
    consts = dict(BASE, NMsgs=nmsgs, SeqMod=1000, MaxChunk=6, LenClasses=LEN_CLASSES, Modes=ALL_MODES, Partial=True)
    r = run_tlc("PacketLayer_Gen", cfg_text(spec="GSpec", constants=consts, invariants=["EmitBeh"]),
                c.work / "gen", workers=1, simulate="num=%d" % n, extra=["-depth", str(depth), "-seed", str(c.seed + 1)])
    if "traces generated" not in r.out or r.violated:
        raise Machinery("behaviour generation failed: %s\n%s" % (r.violated, r.out[-2000:]))
    seen, out = set(), []
    for _, strict, zl, mode0, hist, delivered in r.printed("BEH"):
        k = repr((strict, zl, mode0, hist))
        if k not in seen:
            seen.add(k)
            out.append({"strict": strict, "zlib": zl, "mode0": mode0, "hist": [(a, b) for a, b in hist], "delivered": delivered})
    c.mc_runs.append({"module": "PacketLayer_Gen", "name": "simulate", "distinct": len(out), "generated": r.generated or len(out),
                      "depth": depth, "wall_s": round(r.wall, 1), "expect": "behaviours", "violated": []})
    return out


def replay(c, beh, suite, rnd):
    """spec -> code: run one TLC behaviour on a real sender/receiver pair; returns the number of NeedRekeyExceptions
    the read loop saw if the run agreed with the spec, False otherwise"""
    info = P.suite_info(suite)
    try:
        L = P.Link(suite, rnd, strict=beh["strict"])
    except Machinery:
        raise
    except Exception as e:
        c.violation(vkey("P_fails_honest", suite), "the stream cannot even be started: %s: %s while the receiver reads the sender's first "
                    "NEWKEYS (%s, strict=%s)" % (type(e).__name__, e, "/".join(suite), beh["strict"]), {"suite": suite})
        return False
    L.wire.mode = "sched"
    led = P.Ledger()
    cells, arrived_cells, arrived_bytes = [], 0, len(L.wire.data)
    got = []
    sig = []
    nread = 0
    same_comp = [x for x in P.suites() if x[2] == suite[2]]
    L.tx.sock.mode = "sched"
    hist = beh["hist"]

    def write_plan(at):
        """how the sender's socket takes the packet handed to write_all at step `at`: the Write(k) / WTimeout steps that
        follow, up to the step that completes the packet (the packet is cut in 4 cells)"""
        plan, cells = [], 0
        for a, b in hist[at + 1:]:
            if a == "Write":
                plan.append(("take", int(b)))
                cells += int(b)
                if cells >= 4:
                    break
            elif a == "WTimeout":
                plan.append(("timeout",))
            elif a in ("Send", "Switch"):
                break
        return plan
    for at, (act, arg) in enumerate(hist):
        if act in ("Write", "WTimeout"):
            sig.append("w%s" % arg if act == "Write" else "wt")
            continue            # executed inside the send_message call of the packet they belong to
        if act in ("Send", "Switch"):
            L.tx.sock.next_packet(write_plan(at), 4)
        if act == "Send":
            n = render_len(arg, info["bsize"], rnd)
            msg = P.make_message(rnd, n, len(led.sent) + 1)
            led.add(msg)
            start = len(L.wire.data)
            L.tx.send(msg)
            cells += cell_cuts(start, len(L.wire.data), info["bsize"], rnd)
            sig.append("S%d" % n)
        elif act == "Switch":
            # the key exchange agreed on algorithms of framing mode `arg` (compression stays what it is)
            new = rnd.choice([x for x in same_comp if P.mode_of(x) == arg])
            start = len(L.wire.data)
            L.tx.switch(P.fresh_secret(rnd), suite=new)
            cells += cell_cuts(start, len(L.wire.data), info["bsize"], rnd)     # (still framed by the old epoch's cipher)
            info = P.suite_info(new)
            sig.append("K:" + arg)
        elif act == "Need":
            # from here on the receiving Packetizer wants a re-key: an idle socket timeout makes read_message raise
            # NeedRekeyException (the read loop of Transport.run just calls it again)
            L.rx.raise_need_rekey()
            sig.append("N")
        elif act == "Arrive":
            arrived_cells += int(arg)
            if arrived_cells > len(cells):
                raise Machinery("behaviour lets more cells arrive than were sent")
            L.wire.sched.append(cells[arrived_cells - 1] - arrived_bytes)
            arrived_bytes = cells[arrived_cells - 1]
            sig.append("A%s" % arg)
        else:
            sig.append("R")
            try:
                kind, data, _ = L.rx.read()
            except P.Starved:
                nread += 1
                if arrived_bytes < cells[4 * nread - 1]:
                    raise Machinery("replay starved: the spec enabled ReadMessage before the packet had arrived")
                c.violation(vkey("P_fails_honest", suite), "read_message asked for more bytes than the whole packet it was reading "
                            "(would wait forever) on an untampered stream (%s, strict=%s, behaviour %s)"
                            % ("/".join(suite), beh["strict"], " ".join(sig)), {"suite": suite, "behaviour": beh})
                return False
            except Machinery:
                raise
            except Exception as e:
                c.violation(vkey("P_fails_honest", suite), "read_message raised %s: %s on an untampered stream (%s, strict=%s, behaviour %s)"
                            % (type(e).__name__, e, "/".join(suite), beh["strict"], " ".join(sig)),
                            {"suite": suite, "behaviour": beh})
                return False
            nread += 1
            if kind == "data":
                mid = led.identify(data)
                got.append(mid)
                if mid != len(got):
                    clause = "P_alien" if mid == 0 else "P_order"
                    c.violation(vkey(clause, suite), "read %d returned %s, the spec delivers message %d (%s, strict=%s, behaviour %s)"
                                % (len(got), "bytes never sent" if mid == 0 else "message %d" % mid, len(got), "/".join(suite),
                                   beh["strict"], " ".join(sig)), {"suite": suite, "behaviour": beh})
                    return False
    if got != beh["delivered"]:
        c.violation(vkey("P_loss", suite), "delivered %s, spec delivers %s (%s)" % (got, beh["delivered"], "/".join(suite)),
                    {"suite": suite, "behaviour": beh})
        return False
    c.case(key=("rp", suite, " ".join(sig)),
           sample=None if len(c.samples) >= 3 else {"stage": "replay", "suite": "/".join(suite), "strict": beh["strict"], "steps": " ".join(sig),
                   "socket_timeouts": L.wire.timeouts, "recv_calls": L.wire.recvs,
                   "partial_sends": L.tx.sock.partial, "send_timeouts": L.tx.sock.timeouts,
                   "need_rekey_exceptions": L.rx.need_rekey_exceptions})
    c.extra["partial_sends_in_replays"] = c.extra.get("partial_sends_in_replays", 0) + L.tx.sock.partial
    c.extra["send_timeouts_in_replays"] = c.extra.get("send_timeouts_in_replays", 0) + L.tx.sock.timeouts
    return L.rx.need_rekey_exceptions


def random_length(rnd, bsize):
    r = rnd.random()
    if r < 0.45:
        k = rnd.randint(0, 4)
        return max(1, k * bsize + rnd.randint(-9, 4))
    if r < 0.8:
        return rnd.randint(1, 600)
    if r < 0.95:
        return rnd.randint(600, 20000)
    return rnd.choice([32768, 65535, 65536, 69999, 70000, rnd.randint(20000, 70000)])


def record_stream(c, suite, rnd, nmsgs, nswitch, strict, need=False, psend=False):
    """code -> spec: one seeded stream; returns the event list"""
    info = P.suite_info(suite)
    try:
        L = P.Link(suite, rnd, strict=strict)
    except Machinery:
        raise
    except Exception as e:
        c.violation(vkey("P_fails_honest", suite), "the stream cannot even be started: %s: %s while the receiver reads the sender's first "
                    "NEWKEYS (%s, strict=%s)" % (type(e).__name__, e, "/".join(suite), strict), {"suite": suite})
        return None
    L.wire.mode = "rand"
    if psend:
        # the sender's socket takes packets piece by piece and times out in between (write_all has to resume exactly)
        L.tx.sock.mode = "rand"
    if need:
        # the receiver is where a transport is between its KEXINIT and the peer's NEWKEYS: need_rekey() is up, so a
        # socket timeout before the first byte of a packet raises NeedRekeyException (and only then)
        L.rx.raise_need_rekey()
    led = P.Ledger()
    ev = []
    base = L.seq_base

    def rel(s):      # the spec counts from 0 at the point where the stream starts
        return s - base if s >= 0 else -1

    switch_at = set(rnd.sample(range(nmsgs + 1), min(nswitch, nmsgs + 1)))
    same_comp = [x for x in P.suites() if x[2] == suite[2]]
    algos = ["/".join(suite)]
    zl = info["zlib"]
    pending = 0
    maxlen = 0
    dead = False        # read_message raised: a transport would be gone; nothing more is read

    def drain(k):
        nonlocal pending, dead
        while pending > 0 and k > 0 and not dead:
            k -= 1
            pending -= 1
            try:
                kind, data, s = L.rx.read()
            except Machinery:
                raise
            except P.Starved:
                ev.append({"a": "Wait", "i": 0, "r": "starved", "got": 0, "seq": -1})
                dead = True
                return
            except Exception as e:
                ev.append({"a": "Fail", "i": 0, "r": type(e).__name__, "got": 0, "seq": -1})
                dead = True
                return
            ev.append({"a": "Read", "i": 0, "r": kind, "got": led.identify(data) if kind == "data" else 0, "seq": rel(s)})

    for k in range(nmsgs + 1):
        if dead:
            break
        if k in switch_at:
            # a key exchange may agree on other algorithms (compression stays as it is)
            new = rnd.choice(same_comp) if rnd.random() < 0.4 else None
            if new is not None:
                algos.append("/".join(new))
                info = P.suite_info(new)
            ev.append({"a": "Switch", "i": 0, "r": info["mode"], "got": 0, "seq": rel(L.tx.seq)})
            L.tx.switch(P.fresh_secret(rnd), suite=new)
            pending += 1
        if k == nmsgs:
            break
        n = random_length(rnd, info["bsize"])
        maxlen = max(maxlen, n)
        msg = P.make_message(rnd, n, k + 1)
        mid = led.add(msg)
        ev.append({"a": "Send", "i": mid, "r": "", "got": 0, "seq": rel(L.tx.seq)})
        L.tx.send(msg)
        pending += 1
        if rnd.random() < 0.5:
            drain(rnd.randint(1, 4))
    drain(10 ** 9)
    if L.wire.readable() and not dead:
        ev.append({"a": "Fail", "i": 0, "r": "LeftoverBytes", "got": 0, "seq": -1})
    ev.append({"a": "End", "i": 0, "r": "", "got": 0, "seq": -1})
    return {"strict": strict, "zlib": zl, "mode0": P.mode_of(suite), "ev": ev,
            "meta": {"partial_sends": L.tx.sock.partial, "send_timeouts": L.tx.sock.timeouts, "need_rekey_raised": need, "need_rekey_exceptions": L.rx.need_rekey_exceptions, "suite": "/".join(suite), "algorithms": algos, "messages": nmsgs, "switches": len(switch_at), "max_len": maxlen,
                     "recv_calls": L.wire.recvs, "socket_timeouts": L.wire.timeouts}}


def run(c):
    rnd = random.Random(c.seed)
    # ---- M: exhaustive, honest network.  The same exploration also starts behaviours with a seeded defect (a
    # receiver / sender that keeps its old inflater / deflater across a key switch): the properties are stated
    # for the code as it is, and each defect must be noticed by one of them (they are not vacuous)
    nm = 3 if c.quick else 5
    c.mc_holds("PacketLayer", cfg_text(constants=dict(BASE, NMsgs=nm), invariants=INV, properties=["StopsAtFirstBad"]), name="honest network")
    if not c.quick:
        # the receiver explored inside read_all (header consumed in pieces, socket timeouts, need_rekey raised at any moment)
        # and key epochs that change the framing mode
        c.mc_holds("PacketLayer", cfg_text(constants=dict(BASE, NMsgs=3, MaxSwitch=1, Partial=True, Modes={"classic", "etm"}), invariants=INV,
                                           properties=["StopsAtFirstBad"]),
                   name="honest network, inside read_all / write_all, need_rekey, modes classic/etm", timeout=1500)
    r = c.mc_holds("PacketLayer", cfg_text(constants=dict(BASE, NMsgs=1 if c.quick else 2, MaxSwitch=1, MaxChunk=8, Partial=True,
                                                          Stricts="@{TRUE}", Zlibs="@{TRUE}" if c.quick else "@{TRUE, FALSE}", Mutations=MUTANTS),
                                           invariants=INV),
                   name="inside read_all / write_all with need_rekey + seeded defects %s" % sorted(MUTANTS), workers=1, timeout=1500)
    caught = {x[1] for x in r.printed("CAUGHT")}
    if caught != MUTANTS:
        raise Machinery("seeded defects not all noticed by the model's properties: %s of %s" % (sorted(caught), sorted(MUTANTS)))

    # several sender threads: the write lock makes deflate order = sequence-number order = wire order; a sender that
    # deflates before taking the lock (with deflate blocks that refer back to earlier packets) must be refuted
    r = c.mc_holds("PacketLayer", cfg_text(constants=dict(BASE, NMsgs=2 if c.quick else 3, MaxSwitch=1, MaxChunk=8, SThreads="@{1, 2}",
                                                          Stricts="@{TRUE}", Mutations={"zoutside"}), invariants=INV),
                   name="two sender threads, explicit write lock + seeded defect ['zoutside']", workers=1)
    if {x[1] for x in r.printed("CAUGHT")} != {"zoutside"}:
        raise Machinery("deflating outside the write lock is not noticed by the model's properties")

    # ---- RP: spec -> code on every suite
    per_suite = 3 if c.quick else 40
    behs = generate_behaviours(c, 150 if c.quick else 1500, 4, 44)
    pools = {}
    for b in behs:
        pools.setdefault((b["zlib"], b["mode0"]), []).append(b)
    if len(pools) < 6 or min(len(v) for v in pools.values()) < min(per_suite, 8):
        raise Machinery("too few behaviours generated: %s" % {k: len(v) for k, v in pools.items()})
    if not any(a == "Switch" for b in behs for a, _ in b["hist"]) or not any(a == "Need" for b in behs for a, _ in b["hist"]):
        raise Machinery("no generated behaviour has a key switch / raises need_rekey")
    suites = P.suites()
    nrp = n_exc = 0
    for si, suite in enumerate(suites):
        pool = pools[(P.suite_info(suite)["zlib"], P.mode_of(suite))]
        for j in range(per_suite):
            beh = pool[(si * per_suite + j) % len(pool)]
            n_exc += replay(c, beh, suite, rnd) or 0
            nrp += 1
    c.traces += nrp

    # ---- TV: code -> spec, long seeded streams
    ntr = 200 if c.quick else 5000
    order = list(range(len(suites)))
    rnd.shuffle(order)
    batch = []
    for k in range(ntr):
        suite = suites[order[k % len(order)]]
        big = rnd.random() < (0.15 if c.quick else 0.3)
        nmsgs = rnd.randint(60, 200) if big else rnd.randint(1, 40)
        t = record_stream(c, suite, rnd, nmsgs, rnd.randint(0, 3), rnd.random() < 0.5, need=rnd.random() < 0.5,
                          psend=rnd.random() < 0.5)
        if t is not None:
            batch.append(t)
    # ---- TV: concurrent senders on one Packetizer under the deterministic scheduler (fixed stratum: every schedule with
    # one preemption of 2 threads x 1 message on a compressed suite; plus seeded random schedules of 2-3 threads x 1-2
    # messages on an ETM, an AES-GCM and an uncompressed suite).  Bounded by counts only.
    nr = 20 if c.quick else 300
    plans = [(("aes128-ctr", "hmac-sha2-256", "zlib"), 2, 1, "dfs", 1, 150),
             (("aes256-cbc", "hmac-sha2-512-etm@openssh.com", "zlib"), 2, 1, "dfs" if not c.quick else "random", 1, 150 if not c.quick else nr),
             (("aes128-gcm@openssh.com", "hmac-sha1", "zlib@openssh.com"), 2, 2, "random", 0, nr),
             (("3des-cbc", "hmac-md5", "none"), 2, 1, "random", 0, nr),
             (("aes192-ctr", "hmac-sha1-96", "zlib"), 3, 2, "random", 0, nr)]
    if not c.quick:
        plans.append((("aes128-ctr", "hmac-sha1", "zlib"), 2, 2, "dfs", 2, 2500))
    n_sched = 0
    for suite, nth, per, mode, bound, runs in plans:
        for v in P.concurrent_senders(suite, c.seed * 1000 + n_sched, nth, per, mode, bound, runs, strict=bool(n_sched % 2)):
            n_sched += 1
            meta = {"suite": "/".join(suite), "concurrent": True, "messages": v["written"], "switches": 0, "wire_order": v["order"],
                    "max_len": 0, "recv_calls": 0, "schedule": [str(x) for x in v["labels"]], "need_rekey_exceptions": 0,
                    "partial_sends": 0, "send_timeouts": 0}
            if v["send_failures"] or v["hang"] or v["stuck"] or v["written"] != v["expected"]:
                c.violation(vkey("P_loss", suite) + ":concurrent",
                            "%d threads x %d messages on one Packetizer (%s): %d of %d messages were written; send_message failures %s, "
                            "threads hang: %s; schedule %s" % (nth, per, "/".join(suite), v["written"], v["expected"], v["send_failures"],
                                                             v["hang"] or v["stuck"], meta["schedule"]), meta)
            batch.append({"strict": v["strict"], "zlib": v["zlib"], "mode0": v["mode0"], "ev": v["ev"], "meta": meta})
    if n_sched < 100:
        raise Machinery("only %d schedules of concurrent senders were explored" % n_sched)
    c.extra["concurrent_sender_schedules"] = n_sched
    tv_consts = dict(BASE, NMsgs=100000, SeqMod=1073741824, MaxSwitch=1000, MaxChunk=1000, Stricts="@{TRUE, FALSE}", Zlibs="@{TRUE, FALSE}",
                     Modes=ALL_MODES)
    done = 0
    for lo in range(0, len(batch), 250):
        part = batch[lo:lo + 250]
        res, _ = c.trace("PacketLayer_Trace", [{"strict": t["strict"], "zlib": t["zlib"], "mode0": t["mode0"], "ev": t["ev"]} for t in part],
                         cfg_text(spec="TSpec", constants=tv_consts, invariants=["Report"]))
        if {d[1] for d in res["DONE"]} != set(range(1, len(part) + 1)):
            raise Machinery("trace validation consumed %d of %d traces" % (len({d[1] for d in res["DONE"]}), len(part)))
        done += len(part)

        def describe(tid, clause, row, part=part):
            t = part[tid - 1]
            e = t["ev"][row[2] - 1]
            suite = tuple(t["meta"]["suite"].split("/"))
            if t["meta"].get("concurrent"):
                return (vkey(clause, suite) + ":concurrent",
                        "%s, concurrent senders on one Packetizer: clause %s fails at event %d %s; wire order (thread, message) %s, "
                        "schedule %s" % (t["meta"]["suite"], clause, row[2], e, t["meta"]["wire_order"], t["meta"]["schedule"]), {"trace": t})
            return (vkey(clause, suite), "%s: clause %s fails at event %d %s of a stream of %d messages, %d key switches, strict=%s"
                    % (t["meta"]["suite"], clause, row[2], e, t["meta"]["messages"], t["meta"]["switches"], t["strict"]),
                    {"trace": t})
        c.verdicts(res["VERDICT"], describe)
    for t in sorted(batch, key=lambda t: not t["meta"].get("concurrent")):
        m = t["meta"]
        if m.get("concurrent"):
            c.case(key=("conc", m["suite"], tuple(m["schedule"])),
                   sample={"stage": "concurrent senders", "suite": m["suite"], "wire_order": m["wire_order"], "schedule": m["schedule"][:25]}
                   if m["wire_order"][1:2] != [(0, 0)] and len(c.samples) < 4 else None)
            continue
        c.case(key=("tv", m["suite"], t["strict"], m["messages"], m["switches"], m["max_len"], m["recv_calls"]),
               sample={"stage": "trace", **m, "strict": t["strict"], "first_events": t["ev"][:6]} if m["switches"] >= 2 and m["messages"] > 20 else None)
    c.traces += done
    n_exc_tv = sum(t["meta"]["need_rekey_exceptions"] for t in batch)
    streams = [t for t in batch if not t["meta"].get("concurrent")]
    if (n_exc == 0 or n_exc_tv == 0) and not c.violations and not c.known_hits:
        raise Machinery("need_rekey was raised but no read ever saw NeedRekeyException (%d / %d)" % (n_exc, n_exc_tv))
    n_ps = sum(t["meta"]["partial_sends"] for t in batch)
    if (n_ps == 0 or not c.extra.get("partial_sends_in_replays")) and not c.violations and not c.known_hits:
        raise Machinery("the sending socket never took a packet in pieces")
    c.extra["partial_sends_in_traces"] = n_ps
    c.extra["send_timeouts_in_traces"] = sum(t["meta"]["send_timeouts"] for t in batch)
    c.extra["need_rekey_exceptions_in_replays"] = n_exc
    c.extra["need_rekey_exceptions_in_traces"] = n_exc_tv
    c.extra["suites"] = len(suites)
    c.extra["replayed_behaviours"] = nrp
    c.extra["messages_in_traces"] = sum(t["meta"]["messages"] for t in streams)
    c.rule = ("replay: TLC-simulated behaviours of PacketLayer_Gen (4 messages of length classes 1 / block-1 / block / block+1 / mid / "
              "32-70 KB, <= 2 key switches each to a framing mode TLC picks, need_rekey raised on the receiver at a point TLC picks, the sending socket taking each packet in the pieces and with the timeouts TLC picks, every "
              "fragment split of up to 6 cells with a socket timeout between fragments, strict kex on/off) x all %d cipher x MAC x compression "
              "suites, %d per suite; traces: seeded streams of 1-200 messages with lengths 1..70000 biased to block boundaries, random "
              "recv() sizes and socket timeouts, 0-3 key switches (40 %% to other algorithms), need_rekey raised on the receiver in half of them, a sending socket that takes random parts and times out in half of them, "
              "read through the loop of Transport.run (NeedRekeyException -> read again); concurrent senders: 2-3 threads calling send_message on one "
              "Packetizer under a deterministic scheduler (switch points: write-lock operations and every line of send_message), every schedule "
              "with one preemption on a compressed suite + seeded random schedules on four more suites; distinct = distinct (suite, step sequence with concrete lengths) / "
              "(suite, strict, shape) tuples" % (len(suites), per_suite))
    c.assumptions = ["both ends are given the same (K, H, session id) by the harness, as a completed key exchange would",
                     "zlib@openssh.com is exercised in its post-authentication state",
                     "with concurrent senders 'the sender's sequence' is the order in which the messages went onto the wire",
                     "sequence-number wrap-around is covered on the model only (SeqMod = 4)"]
