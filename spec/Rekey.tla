-------------------------------- MODULE Rekey --------------------------------
(* C11.  A key re-exchange on an established session, at message granularity,     *)
(* with connection-layer traffic of the peer already in flight when the           *)
(* initiator's KEXINIT goes out (Transport._send_kex_init, _negotiate_keys,       *)
(* _parse_newkeys, _send_user_message; Channel._handle_request/_handle_close;     *)
(* Transport._parse_channel_open/_parse_global_request).                          *)
(*                                                                                *)
(* Two ends "A" (initiates) and "B".  Each has a transport thread that consumes   *)
(* its inbound wire in order, and user threads that may send data when            *)
(* clear_to_send is set.  A handler that has to answer an in-flight message       *)
(* during the exchange does what ReplyMode says:                                  *)
(*   "pinned"   - as in the pinned tree: "direct" replies (_send_message) go out   *)
(*                at once; "user" replies (_send_user_message on the transport     *)
(*                thread) wait for clear_to_send, which only that thread can set   *)
(*   "deferred" - repaired: both kinds are queued and flushed when NEWKEYS arrives *)
EXTENDS Naturals, Sequences, FiniteSets, TLC

CONSTANTS ReplyMode,          \* "pinned" | "deferred"
          AIsClient,          \* kex role of the initiator
          Inflight,           \* set of in-flight message kinds B may have sent: subset of ConnKinds
          MaxInflight,        \* how many in-flight messages
          UserMsgs,           \* data messages A's user threads want to send during the exchange
          KexinitTakesLock,   \* TRUE: _send_kex_init clears clear_to_send under clear_to_send_lock (as the code does);
                              \* FALSE: it just clears the event (mutation): KEXINIT can overtake a user packet
          FlushSkips,         \* mutation: the flush at NEWKEYS removes entries from the list it iterates over, so every second
                              \* held-back reply stays queued
          DeferCap,           \* 0: the list of held-back replies is unbounded (as the code); n > 0 (mutation): before a reply
                              \* is appended only the last n held-back replies are kept, older ones are dropped
          UngatedUser         \* mutation: some user-level API (fire-and-forget global request, keepalive) writes its
                              \* packet without consulting clear_to_send; FALSE: every user-level send goes through the gate

Ends == {"A", "B"}
Peer(e) == IF e = "A" THEN "B" ELSE "A"
ConnKinds == {"plain", "wants_user_reply", "wants_direct_reply"}
    \* plain: DATA / EXTENDED_DATA / WINDOW_ADJUST / EOF / request without reply / keepalive
    \* wants_user_reply: CHANNEL_REQUEST(want_reply), CHANNEL_CLOSE   (answered through _send_user_message)
    \* wants_direct_reply: CHANNEL_OPEN, GLOBAL_REQUEST(want_reply)   (answered through _send_message)
KexTypes == {"KEXINIT", "KEXMSG_INIT", "KEXMSG_REPLY", "NEWKEYS"}

VARIABLES wire,       \* [end -> Seq of messages travelling TOWARDS that end]
          sentKexinit, gotKexinit, sentNewkeys, gotNewkeys,   \* [end -> BOOLEAN] for the current exchange
          cts,        \* [end -> BOOLEAN] clear_to_send
          blocked,    \* [end -> BOOLEAN] the transport thread sits in _send_user_message waiting for clear_to_send
          dead,       \* [end -> BOOLEAN]
          deferred,   \* [end -> Seq] replies held back until NEWKEYS (repaired design)
          out,        \* [end -> Seq of message types emitted]   (observation)
          nIn,        \* in-flight messages B has sent
          ctsLock,    \* "free" | "user": clear_to_send_lock of A held by a user thread that passed the check
          nUser,      \* user messages A has sent
          requests, replies   \* in-flight messages needing an answer / answers received by B
vars == <<wire, sentKexinit, gotKexinit, sentNewkeys, gotNewkeys, cts, blocked, dead, deferred, out, nIn, nUser, ctsLock,
          requests, replies>>

Client == IF AIsClient THEN "A" ELSE "B"
Server == Peer(Client)

Init == /\ wire = [e \in Ends |-> <<>>]
        /\ sentKexinit = [e \in Ends |-> FALSE] /\ gotKexinit = [e \in Ends |-> FALSE]
        /\ sentNewkeys = [e \in Ends |-> FALSE] /\ gotNewkeys = [e \in Ends |-> FALSE]
        /\ cts = [e \in Ends |-> TRUE] /\ blocked = [e \in Ends |-> FALSE] /\ dead = [e \in Ends |-> FALSE]
        /\ deferred = [e \in Ends |-> <<>>] /\ out = [e \in Ends |-> <<>>]
        /\ nIn = 0 /\ nUser = 0 /\ requests = 0 /\ replies = 0 /\ ctsLock = "free"

Emit(e, ms) == /\ wire' = [wire EXCEPT ![Peer(e)] = @ \o ms]
               /\ out' = [out EXCEPT ![e] = @ \o ms]

\* B has connection-layer traffic on the wire before it learns of the exchange
BSendsInflight(k) ==
  /\ ~sentKexinit["B"] /\ ~gotKexinit["B"] /\ cts["B"] /\ ~dead["B"] /\ nIn < MaxInflight /\ k \in Inflight
  /\ Emit("B", <<k>>) /\ nIn' = nIn + 1
  /\ requests' = IF k = "plain" THEN requests ELSE requests + 1
  /\ UNCHANGED <<sentKexinit, gotKexinit, sentNewkeys, gotNewkeys, cts, blocked, dead, deferred, nUser, replies, ctsLock>>

\* A: renegotiate_keys() / rekey threshold / keepalive-triggered: _send_kex_init
AStartsKex ==
  /\ ~sentKexinit["A"] /\ ~dead["A"] /\ cts["A"]
  /\ (KexinitTakesLock => ctsLock = "free")
  /\ sentKexinit' = [sentKexinit EXCEPT !["A"] = TRUE]
  /\ cts' = [cts EXCEPT !["A"] = FALSE]
  /\ Emit("A", <<"KEXINIT">>)
  /\ UNCHANGED <<gotKexinit, sentNewkeys, gotNewkeys, blocked, dead, deferred, nIn, nUser, requests, replies, ctsLock>>

\* a user thread of A sends channel data (_send_user_message): takes clear_to_send_lock, checks the event ...
AUserPasses ==
  /\ nUser < UserMsgs /\ (cts["A"] \/ UngatedUser) /\ ~dead["A"] /\ ctsLock = "free"
  /\ ctsLock' = "user"
  /\ UNCHANGED <<wire, sentKexinit, gotKexinit, sentNewkeys, gotNewkeys, cts, blocked, dead, deferred, out, nIn, nUser, requests, replies>>
\* ... and only then writes the packet and releases the lock
AUserEmits ==
  /\ ctsLock = "user"
  /\ Emit("A", <<"plain">>) /\ nUser' = nUser + 1 /\ ctsLock' = "free"
  /\ UNCHANGED <<sentKexinit, gotKexinit, sentNewkeys, gotNewkeys, cts, blocked, dead, deferred, nIn, requests, replies>>

\* what the flush at NEWKEYS sends / leaves behind
Odd(q)  == [i \in 1..((Len(q) + 1) \div 2) |-> q[2 * i - 1]]
Even(q) == [i \in 1..(Len(q) \div 2) |-> q[2 * i]]
Flushed(q) == IF FlushSkips THEN Odd(q) ELSE q
Kept(q)    == IF FlushSkips THEN Even(q) ELSE <<>>
Capped(q)  == IF DeferCap = 0 \/ Len(q) <= DeferCap THEN q ELSE SubSeq(q, Len(q) - DeferCap + 1, Len(q))
InExchange(e) == sentKexinit[e] /\ ~gotNewkeys[e]
ExpectingKex(e) == gotKexinit[e] /\ ~gotNewkeys[e]      \* _expected_packet is a kex type

\* the transport thread of e handles the next inbound message
Handle(e) ==
  /\ ~dead[e] /\ ~blocked[e] /\ wire[e] # <<>>
  /\ LET m == Head(wire[e])
         rest == [wire EXCEPT ![e] = Tail(@)]
     IN
     CASE m = "KEXINIT" ->
            \* _negotiate_keys: send our own KEXINIT if we have not, then the client's first kex message
            LET mine == IF sentKexinit[e] THEN <<>> ELSE <<"KEXINIT">>
                kexm == IF e = Client THEN <<"KEXMSG_INIT">> ELSE <<>>
            IN /\ wire' = [rest EXCEPT ![Peer(e)] = @ \o mine \o kexm]
               /\ out' = [out EXCEPT ![e] = @ \o mine \o kexm]
               /\ sentKexinit' = [sentKexinit EXCEPT ![e] = TRUE]
               /\ gotKexinit' = [gotKexinit EXCEPT ![e] = TRUE]
               /\ cts' = [cts EXCEPT ![e] = FALSE]
               /\ UNCHANGED <<sentNewkeys, gotNewkeys, blocked, dead, deferred, replies>>
       [] m = "KEXMSG_INIT" ->      \* server: reply and NEWKEYS (_activate_outbound)
            /\ wire' = [rest EXCEPT ![Peer(e)] = @ \o <<"KEXMSG_REPLY", "NEWKEYS">>]
            /\ out' = [out EXCEPT ![e] = @ \o <<"KEXMSG_REPLY", "NEWKEYS">>]
            /\ sentNewkeys' = [sentNewkeys EXCEPT ![e] = TRUE]
            /\ UNCHANGED <<sentKexinit, gotKexinit, gotNewkeys, cts, blocked, dead, deferred, replies>>
       [] m = "KEXMSG_REPLY" ->     \* client: verify, NEWKEYS
            /\ wire' = [rest EXCEPT ![Peer(e)] = @ \o <<"NEWKEYS">>]
            /\ out' = [out EXCEPT ![e] = @ \o <<"NEWKEYS">>]
            /\ sentNewkeys' = [sentNewkeys EXCEPT ![e] = TRUE]
            /\ UNCHANGED <<sentKexinit, gotKexinit, gotNewkeys, cts, blocked, dead, deferred, replies>>
       [] m = "NEWKEYS" ->          \* _parse_newkeys: clear_to_send.set(); flush what was held back
            /\ gotNewkeys' = [gotNewkeys EXCEPT ![e] = TRUE]
            /\ cts' = [cts EXCEPT ![e] = TRUE]
            /\ wire' = [rest EXCEPT ![Peer(e)] = @ \o Flushed(deferred[e])]
            /\ out' = [out EXCEPT ![e] = @ \o Flushed(deferred[e])]
            /\ deferred' = [deferred EXCEPT ![e] = Kept(deferred[e])]
            /\ UNCHANGED <<sentKexinit, gotKexinit, sentNewkeys, blocked, dead, replies>>
       [] m = "reply" ->
            IF ExpectingKex(e)        \* "Expecting packet from (30,) got 99": the peer broke the quiet rule
              THEN /\ dead' = [dead EXCEPT ![e] = TRUE] /\ wire' = rest
                   /\ UNCHANGED <<sentKexinit, gotKexinit, sentNewkeys, gotNewkeys, cts, blocked, deferred, out, replies>>
              ELSE /\ replies' = replies + 1 /\ wire' = rest
                   /\ UNCHANGED <<sentKexinit, gotKexinit, sentNewkeys, gotNewkeys, cts, blocked, dead, deferred, out>>
       [] m = "plain" ->
            IF ExpectingKex(e)
              THEN /\ dead' = [dead EXCEPT ![e] = TRUE] /\ wire' = rest
                   /\ UNCHANGED <<sentKexinit, gotKexinit, sentNewkeys, gotNewkeys, cts, blocked, deferred, out, replies>>
              ELSE /\ wire' = rest
                   /\ UNCHANGED <<sentKexinit, gotKexinit, sentNewkeys, gotNewkeys, cts, blocked, dead, deferred, out, replies>>
       [] m \in {"wants_user_reply", "wants_direct_reply"} ->
            IF cts[e]                 \* no exchange running here: answer at once
              THEN /\ wire' = [rest EXCEPT ![Peer(e)] = @ \o <<"reply">>]
                   /\ out' = [out EXCEPT ![e] = @ \o <<"reply">>]
                   /\ UNCHANGED <<sentKexinit, gotKexinit, sentNewkeys, gotNewkeys, cts, blocked, dead, deferred, replies>>
            ELSE IF ReplyMode = "deferred"
              THEN /\ deferred' = [deferred EXCEPT ![e] = Append(Capped(@), "reply")] /\ wire' = rest
                   /\ UNCHANGED <<sentKexinit, gotKexinit, sentNewkeys, gotNewkeys, cts, blocked, dead, out, replies>>
            ELSE IF m = "wants_direct_reply"
              THEN /\ wire' = [rest EXCEPT ![Peer(e)] = @ \o <<"reply">>]     \* emitted in the middle of the exchange
                   /\ out' = [out EXCEPT ![e] = @ \o <<"reply">>]
                   /\ UNCHANGED <<sentKexinit, gotKexinit, sentNewkeys, gotNewkeys, cts, blocked, dead, deferred, replies>>
              ELSE /\ blocked' = [blocked EXCEPT ![e] = TRUE] /\ wire' = rest  \* waits for an event only it can set
                   /\ UNCHANGED <<sentKexinit, gotKexinit, sentNewkeys, gotNewkeys, cts, dead, deferred, out, replies>>
  /\ UNCHANGED <<nIn, nUser, requests, ctsLock>>

\* clear_to_send_timeout: the blocked transport thread gives up -> SSHException -> the session ends
GiveUp(e) == /\ blocked[e] /\ blocked' = [blocked EXCEPT ![e] = FALSE] /\ dead' = [dead EXCEPT ![e] = TRUE]
             /\ UNCHANGED <<wire, sentKexinit, gotKexinit, sentNewkeys, gotNewkeys, cts, deferred, out, nIn, nUser, requests, replies, ctsLock>>

Finished == /\ \A e \in Ends : gotNewkeys[e] /\ cts[e] /\ ~dead[e] /\ ~blocked[e] /\ wire[e] = <<>> /\ deferred[e] = <<>>
            /\ replies = requests /\ ctsLock = "free"
Next == \/ \E k \in ConnKinds : BSendsInflight(k)
        \/ AStartsKex \/ AUserPasses \/ AUserEmits
        \/ \E e \in Ends : Handle(e) \/ GiveUp(e)
        \/ (Finished /\ UNCHANGED vars)
Spec == Init /\ [][Next]_vars

(* ---- C11 ---- *)
\* between its KEXINIT and its NEWKEYS an end emits only key-exchange messages
QuietBetween(s) ==
  \A i, j, k \in 1..Len(s) :
     (i < k /\ k < j /\ s[i] = "KEXINIT" /\ s[j] = "NEWKEYS" /\ \A x \in i+1..j-1 : s[x] # "NEWKEYS") => s[k] \in KexTypes
OpenTail(s) == \A i, k \in 1..Len(s) : (i < k /\ s[i] = "KEXINIT" /\ \A x \in i+1..Len(s) : s[x] # "NEWKEYS") => s[k] \in KexTypes
KexQuiet == \A e \in Ends : QuietBetween(out[e]) /\ OpenTail(out[e])
SessionStaysUp == \A e \in Ends : ~dead[e]
NoSelfWait == \A e \in Ends : ~blocked[e]
\* deferred design: every reply held back is still held or has been delivered - none is dropped (only B sends requests,
\* so only A answers): every request of B is on A's wire, or its answer is in A's held-back list, or A has emitted it
Count(s, S) == Cardinality({i \in 1..Len(s) : s[i] \in S})
NoReplyLost == requests = Count(wire["A"], {"wants_user_reply", "wants_direct_reply"}) + Len(deferred["A"]) + Count(out["A"], {"reply"})
\* every behaviour that stops has completed the exchange and answered every in-flight request:
\* checked as deadlock freedom (CHECK_DEADLOCK TRUE): the only terminal states are Finished ones
=============================================================================
