----------------------------- MODULE StrictRekey -----------------------------
(* C09, re-exchanges.  Two ends that agreed on strict key exchange in the initial  *)
(* handshake run further key exchanges.  The strict-kex extension says the mode is  *)
(* decided by the FIRST KEXINIT of each side; a peer need not repeat the marker     *)
(* pseudo-algorithm in later KEXINITs (paramiko does, other implementations do      *)
(* not).  Sequence numbers must restart at zero after EVERY NEWKEYS in both         *)
(* directions on both ends.  (Transport._parse_kex_init, _activate_inbound,         *)
(* _activate_outbound.)                                                             *)
EXTENDS Naturals, TLC
CONSTANTS RepeatsMarker,   \* [end -> BOOLEAN]: does that end repeat the marker in re-exchange KEXINITs
          Latched,         \* TRUE: agreed_on_strict_kex is fixed by the initial exchange (as the code does);
                           \* FALSE: recomputed from every received KEXINIT (mutation)
          Aead,            \* TRUE: the negotiated cipher is an AEAD (AES-GCM): no separate MAC over the sequence number
          ResetSkipsAead,  \* mutation: the counters are only restarted for MAC-based cipher modes
          MaxRekeys, MaxTraffic
Ends == {"c", "s"}
RM == [e \in {"c", "s"} |-> e = "s"]   \* for configs: only the server repeats the marker
Peer(e) == IF e = "c" THEN "s" ELSE "c"
VARIABLES agreed,     \* [end -> BOOLEAN]
          seqOut, seqIn,
          phase,      \* [end -> "open" | "kexinit_rcvd" | "newkeys_sent"]   (re-exchange progress, abstracted)
          nrekey, broken
vars == <<agreed, seqOut, seqIn, phase, nrekey, broken>>
Init == /\ agreed = [e \in Ends |-> TRUE]
        /\ seqOut = [e \in Ends |-> 0] /\ seqIn = [e \in Ends |-> 0]
        /\ phase = [e \in Ends |-> "open"] /\ nrekey = 0 /\ broken = FALSE
\* ordinary traffic from e to its peer: both counters advance together while they are in sync
Traffic(e) == /\ phase[e] = "open" /\ phase[Peer(e)] = "open" /\ seqOut[e] < MaxTraffic /\ ~broken
              /\ broken' = (seqOut[e] # seqIn[Peer(e)])          \* MAC covers the sequence number
              /\ seqOut' = [seqOut EXCEPT ![e] = @ + 1]
              /\ seqIn' = [seqIn EXCEPT ![Peer(e)] = @ + 1]
              /\ UNCHANGED <<agreed, phase, nrekey>>
\* a complete re-exchange, one step per end: e receives the peer's re-exchange KEXINIT (with or without marker),
\* then sends/receives NEWKEYS: counters restart iff e (still) considers the session strict
KexinitArrives(e) == /\ phase[e] = "open" /\ nrekey < MaxRekeys /\ ~broken
                     /\ agreed' = [agreed EXCEPT ![e] = IF Latched THEN @ ELSE RepeatsMarker[Peer(e)]]
                     /\ phase' = [phase EXCEPT ![e] = "kexinit_rcvd"]
                     /\ UNCHANGED <<seqOut, seqIn, nrekey, broken>>
\* the restart does not depend on the cipher mode: the extension speaks of the packet sequence number, which the peer
\* echoes in UNIMPLEMENTED and which the next MAC-based keys will cover again
Resets(e) == agreed[e] /\ ~(ResetSkipsAead /\ Aead)
NewKeys(e) == /\ phase[e] = "kexinit_rcvd" /\ phase[Peer(e)] # "open"
              /\ seqOut' = [seqOut EXCEPT ![e] = IF Resets(e) THEN 0 ELSE @]
              /\ seqIn' = [seqIn EXCEPT ![e] = IF Resets(e) THEN 0 ELSE @]
              /\ phase' = [phase EXCEPT ![e] = "newkeys_sent"]
              /\ UNCHANGED <<agreed, nrekey, broken>>
Done == /\ \A e \in Ends : phase[e] = "newkeys_sent"
        /\ phase' = [e \in Ends |-> "open"] /\ nrekey' = nrekey + 1
        /\ UNCHANGED <<agreed, seqOut, seqIn, broken>>
Next == \/ \E e \in Ends : Traffic(e) \/ KexinitArrives(e) \/ NewKeys(e)
        \/ Done
Spec == Init /\ [][Next]_vars
(* ---- C09 ---- *)
StrictStays == \A e \in Ends : agreed[e]
ResetAtEveryNewkeys == \A e \in Ends : phase[e] = "newkeys_sent" => (seqOut[e] = 0 /\ seqIn[e] = 0)
InSync == ~broken
=============================================================================
