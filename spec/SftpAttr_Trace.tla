--------------------------- MODULE SftpAttr_Trace ---------------------------
(* code -> spec for C33.  One trace = one attribute set pushed through the real   *)
(* SFTPAttributes._pack and the resulting bytes through the real _unpack, both on  *)
(* a Message subclass that records every add_* / get_* call as a token:            *)
(*   attrs  = the attribute set (limbs / byte lists; str keys and values as UTF-8)  *)
(*   flags  = _flags after _pack,  wtoks = tokens _pack wrote                       *)
(*   rflags = _flags of the decoded object, rtoks = tokens _unpack read, dec = its  *)
(*            fields                                                                *)
(*   fractional = some time was given as a non-integer (attrs holds its int part)   *)
(*   aborted = "" | "pack" | "unpack": the call raised or did not stop (the record    *)
(*            then holds whatever state the objects were left in)                     *)
(* Two steps per trace (the two critical sections); the design spec's clause        *)
(* operators and its whole-set encoding PackTokens judge them.  Total.              *)
EXTENDS SftpAttr, Json, IOUtils, TLCExt
Batch == JsonDeserialize(IOEnv.TRACE_FILE)
VARIABLES tid, l, bad
tvars == <<tid, l, bad, vars>>
R == Batch[tid]

TInit == /\ tid \in 1..Len(Batch) /\ l = 1 /\ bad = {}
         /\ attrs = R.attrs
         /\ pc = "PackFlags" /\ flags = <<0, 0>> /\ wire = <<>> /\ rpos = 0 /\ rflags = <<0, 0>> /\ dec = Empty

\* _pack ran: the six Pack* steps at once, with the recorded result
TPack == /\ l = 1
         /\ flags' = R.flags /\ wire' = R.wtoks
         /\ bad' = PackClauses(attrs, R.flags)
                   \cup (IF R.wtoks = PackTokens(attrs) THEN {} ELSE {"C_wire_tokens"})
                   \cup (IF R.aborted = "pack" THEN {"P_encode_failed"} ELSE {})
         /\ pc' = "UnpackFlags" /\ l' = 2
         /\ UNCHANGED <<tid, attrs, rpos, rflags, dec>>

\* _unpack ran on those bytes: the six Unpack* steps at once, with the recorded result
Clauses == RoundTripClauses(attrs, R.dec, R.rflags)
TUnpack == /\ l = 2
           /\ dec' = R.dec /\ rflags' = R.rflags /\ rpos' = Len(R.rtoks)
           /\ bad' = bad \cup (IF R.fractional /\ "P_times" \in Clauses
                               THEN (Clauses \ {"P_times"}) \cup {"C_fractional_time_not_truncated"} ELSE Clauses)
                         \cup (IF R.rtoks = wire THEN {} ELSE {"C_reader_tokens"})
                         \cup (IF R.aborted = "unpack" THEN {"P_decode_failed"} ELSE {})
           /\ pc' = "done" /\ l' = 3
           /\ UNCHANGED <<tid, attrs, flags, wire>>

TNext == TPack \/ TUnpack
TSpec == TInit /\ [][TNext]_tvars
Report == l = 3 => /\ (bad # {} => PrintT(<<"VERDICT", tid, bad>>))
                   /\ PrintT(<<"DONE", tid>>)
=============================================================================
