--------------------------- MODULE SftpAttr_Trace ---------------------------
(* code -> spec for C33.  One trace = a SEQUENCE of attribute sets (blocks), each   *)
(* put on a newly created object, pushed through the real SFTPAttributes._pack and  *)
(* the resulting bytes through the real _unpack into another new object, one after  *)
(* the other in one process, on a Message subclass that records every add_* / get_*  *)
(* call as a token.  Per block:                                                      *)
(*   attrs  = the attribute set (limbs / byte lists; str keys and values as UTF-8)  *)
(*   flags  = _flags after _pack,  wtoks = tokens _pack wrote                       *)
(*   rflags = _flags of the decoded object, rtoks = tokens _unpack read, dec = its  *)
(*            fields                                                                *)
(*   fractional = some time was given as a non-integer (attrs holds its int part)   *)
(*   aborted = "" | "pack" | "unpack": the call raised or did not stop (the record    *)
(*            then holds whatever state the objects were left in)                     *)
(*   origin = "fresh" (the set is put on a new object), "same" (the object encoded in   *)
(*            the previous block is kept, edited and encoded again) or "decoded" (the    *)
(*            object the previous block decoded is kept, edited and encoded);            *)
(*            edits = number of field groups set / cleared in between.  attrs always     *)
(*            is the state of the object's fields at the moment of this _pack            *)
(* Two steps per block (the two critical sections); the design spec's clause        *)
(* operators and its whole-set encoding PackTokens judge each block against ITS OWN  *)
(* input, so anything inherited from an earlier block fails a clause.  Total.        *)
(* A verdict element is <<clause, number of the block>>.                             *)
EXTENDS SftpAttr, Json, IOUtils, TLCExt
Batch == JsonDeserialize(IOEnv.TRACE_FILE)
VARIABLES tid, l, bad
tvars == <<tid, l, bad, vars>>
T == Batch[tid]
NB == Len(T.blocks)
R == T.blocks[round]
Tag(S) == {<<c, round>> : c \in S}

TInit == /\ tid \in 1..Len(Batch) /\ l = 1 /\ bad = {}
         /\ attrs = T.blocks[1].attrs
         /\ pc = "PackFlags" /\ flags = <<0, 0>> /\ wire = <<>> /\ rpos = 0 /\ rflags = <<0, 0>> /\ dec = Empty
         /\ leak = <<>> /\ round = 1 /\ stored = <<0, 0>> /\ edits = 0

\* _pack ran on the block's object: the six Pack* steps at once, with the recorded result
TPack == /\ pc = "PackFlags"
         /\ flags' = R.flags /\ wire' = R.wtoks
         /\ bad' = bad \cup Tag(PackClauses(attrs, R.flags)
                              \cup (IF R.wtoks = PackTokens(attrs) THEN {} ELSE {"C_wire_tokens"})
                              \cup (IF R.aborted = "pack" THEN {"P_encode_failed"} ELSE {}))
         /\ pc' = "UnpackFlags" /\ l' = l + 1
         /\ UNCHANGED <<tid, attrs, rpos, rflags, dec, leak, round, stored, edits>>

\* _unpack ran on those bytes into a new object: the six Unpack* steps at once, with the recorded result
Clauses == RoundTripClauses(attrs, R.dec, R.rflags)
TUnpack == /\ pc = "UnpackFlags"
           /\ dec' = R.dec /\ rflags' = R.rflags /\ rpos' = Len(R.rtoks)
           /\ bad' = bad \cup Tag((IF R.fractional /\ "P_times" \in Clauses
                                    THEN (Clauses \ {"P_times"}) \cup {"C_fractional_time_not_truncated"} ELSE Clauses)
                                \cup (IF R.rtoks = wire THEN {} ELSE {"C_reader_tokens"})
                                \cup (IF R.aborted = "unpack" THEN {"P_decode_failed"} ELSE {}))
           /\ pc' = "done" /\ l' = l + 1
           /\ UNCHANGED <<tid, attrs, flags, wire, leak, round, stored, edits>>

\* the next block of the sequence, with the recorded input: the spec's NextBlock (origin "fresh": new objects) or
\* KeepEncoder / KeepDecoded ; SetField / ClearField ... ; Repack (origin "same" / "decoded": the object encoded /
\* decoded in the previous block, after the recorded number of edits, is encoded again)
TNextBlock == /\ pc = "done" /\ round < NB
              /\ attrs' = T.blocks[round + 1].attrs
              /\ stored' = (CASE T.blocks[round + 1].origin = "same" -> flags
                               [] T.blocks[round + 1].origin = "decoded" -> rflags
                               [] OTHER -> <<0, 0>>)
              /\ edits' = T.blocks[round + 1].edits
              /\ pc' = "PackFlags" /\ flags' = <<0, 0>> /\ wire' = <<>> /\ rpos' = 0 /\ rflags' = <<0, 0>> /\ dec' = Empty
              /\ round' = round + 1 /\ l' = l + 1
              /\ UNCHANGED <<tid, bad, leak>>

TNext == TPack \/ TUnpack \/ TNextBlock
TSpec == TInit /\ [][TNext]_tvars
Report == (pc = "done" /\ round = NB) => /\ (bad # {} => PrintT(<<"VERDICT", tid, bad>>))
                                        /\ PrintT(<<"DONE", tid>>)
=============================================================================
