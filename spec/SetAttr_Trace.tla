---------------------------- MODULE SetAttr_Trace ----------------------------
(* code -> spec for C31.  A trace is one served file and a sequence of attribute  *)
(* changes applied to it (route of the trace, or route "env": os.* directly, made   *)
(* between the others); each step carries the file as seen by                      *)
(* os.stat / read before the change, the attributes sent, and the file after.      *)
(* The step for line l is always taken (total verdict): the observation is read as *)
(* a finished run of SetAttr's helper and bad' = SetAttr!Verdict on it.            *)
EXTENDS SetAttr, Json, IOUtils, TLCExt
Batch == JsonDeserialize(IOEnv.TRACE_FILE)
VARIABLES tid, l, bad
tvars == <<tid, l, bad, vars>>
T == Batch[tid]
TInit == /\ tid \in 1..Len(Batch) /\ l = 1 /\ bad = {}
         /\ file0 = Batch[tid].steps[1].before /\ attr = Batch[tid].steps[1].attr /\ file = file0 /\ pc = "chmod"
TNext == /\ l <= Len(T.steps) /\ l' = l + 1 /\ tid' = tid
         /\ LET s == T.steps[l] IN
              /\ file0' = s.before /\ attr' = s.attr /\ file' = s.after /\ pc' = "done"   \* a finished run of the helper
              \* a step of kind "write" is a mutation made between attribute changes (SetAttr_Session!Write): nothing to judge
              /\ bad' = (IF s.kind = "write" THEN {} ELSE Verdict')
                       \cup (IF l > 1 /\ T.steps[l - 1].after.content # s.before.content THEN {"C_chain"} ELSE {})
TSpec == TInit /\ [][TNext]_tvars
SizeClass(s) == IF ~s.attr.has_size THEN "none"
                ELSE IF s.attr.size < Len(s.before.content) THEN "shrink"
                ELSE IF s.attr.size = Len(s.before.content) THEN "same" ELSE "extend"
Report == /\ (bad # {} => PrintT(<<"VERDICT", tid, l - 1, T.route, SizeClass(T.steps[l - 1]), bad>>))
          /\ (l = Len(T.steps) + 1 => PrintT(<<"DONE", tid>>))
=============================================================================
