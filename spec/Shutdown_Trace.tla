--------------------------- MODULE Shutdown_Trace ---------------------------
(* code -> spec: one trace = the events of one run of real calls against a real transport that loses its    *)
(* connection, in observed order.  Every event is a record with the same fields:                             *)
(*   ev     "Call" | "Blocked" | "Loss" | "Hook" | "Return" | "Deadline"                                     *)
(*   w      caller (0 = none), api, mode, label (the driver's phase label of the call)                       *)
(*   kind   loss kind                                                                                         *)
(*   name   the statement a hook saw: unlink | pclose | notify | notify_all | sockclose | close_returned |   *)
(*          dead | (others: no state change);   by = "transport" | "closer" | "caller" | "other"             *)
(*   active Transport.active when the event was logged;  how = returned | raised | timeout                   *)
(*   blocked  callers still inside their call at the deadline                                                 *)
(* and the trace record says which end of the session the calls were made on (role = "server" | "client") and  *)
(* what was done on the callers' channels before (prior = "none" | "shutdown_read" | "shutdown_both" | ...). *)
(* The step for event l is always taken on the design spec's variables (tt and cl move along TTOrder /       *)
(* CLOrder, loss as in Lose, phases from PhaseNow) and sets bad' to the clauses that fail there.             *)
(*   P_inactive  the deadline passed and the transport is still active after the loss                        *)
(*   P_returns   the transport is inactive, the deadline passed, and a call has not returned or raised       *)
(*   C_*         drift between the code and the design spec that the statement does not forbid               *)
EXTENDS Shutdown, Sequences, Json, IOUtils, TLCExt
Batch == JsonDeserialize(IOEnv.TRACE_FILE)
VARIABLES tid, l, bad, blk
tvars == <<tid, l, bad, blk, vars>>
Ev == Batch[tid].events
E == Ev[l]

Pos(seq, n, p) == CHOOSE i \in 1..n : seq[i] = p
TTTarget(name) == CASE name = "unlink" -> "sd_unlink" [] name = "pclose" -> "sd_pclose"
                    [] name \in {"notify", "notify_all"} -> "sd_notify" [] name = "sockclose" -> "sd_sockclose"
                    [] name = "dead" -> "dead" [] OTHER -> tt
CLTarget(name) == CASE name = "pclose" -> "cl_pclose" [] name = "unlink" -> "cl_unlink"
                    [] name = "sockclose" -> "cl_sockclose" [] name = "close_returned" -> "done" [] OTHER -> cl

TInit == /\ tid \in 1..Len(Batch) /\ l = 1 /\ bad = {} /\ blk = {} /\ Init

IsTT == E.ev = "Hook" /\ (E.by = "transport" \/ E.name = "dead")
IsCL == E.ev = "Hook" /\ E.by = "closer"

Clauses ==
  CASE E.ev = "Call" ->
         (IF E.w \in W /\ wpc[E.w] = "idle" /\ Family(E.api) # "unknown" THEN {} ELSE {<<"C_bad_call", E.api>>})
    [] E.ev = "Loss" -> (IF loss = "none" /\ E.kind \in AllKinds THEN {} ELSE {<<"C_second_loss", E.kind>>})
    [] IsTT -> (IF Pos(TTOrder, 11, TTTarget(E.name)) >= Pos(TTOrder, 11, tt) THEN {} ELSE {<<"C_order", E.name>>})
               \cup (IF E.name = "pclose" /\ E.active THEN {<<"C_active_at_pclose", E.name>>} ELSE {})
               \cup (IF E.name = "unlink" /\ loss = "none" THEN {<<"C_shutdown_without_loss", E.name>>} ELSE {})
    [] IsCL -> (IF Pos(CLOrder, 8, CLTarget(E.name)) >= Pos(CLOrder, 8, cl) THEN {} ELSE {<<"C_order", E.name>>})
               \cup (IF E.name = "pclose" /\ E.active THEN {<<"C_active_at_pclose", E.name>>} ELSE {})
    [] E.ev = "Return" ->
         (IF E.how \in Results(Family(wapi[E.w])) THEN {} ELSE {<<"C_result", wapi[E.w], E.how>>})
    [] E.ev = "Deadline" ->
         (IF loss # "none" /\ E.active THEN {<<"P_inactive", loss>>} ELSE {})
         \cup (IF ~E.active THEN {<<"P_returns", wapi[w], wphase[w], Batch[tid].role, Batch[tid].prior>> : w \in {x \in W : x \in DOMAIN wpc /\ Started(x)}}
               ELSE {})
         \cup {<<"C_phase", wapi[w], wphase[w]>> : w \in {x \in W : wpc[x] # "idle" /\ Batch[tid].labels[x] \notin {"any", wphase[x]}}}
         \cup (IF ~E.active /\ ~ShutdownComplete /\ loss # "none" THEN {<<"C_shutdown_unfinished", tt>>} ELSE {})
    [] OTHER -> {}

TNext ==
  /\ l <= Len(Ev) /\ l' = l + 1 /\ tid' = tid
  /\ bad' = Clauses
  /\ blk' = (IF E.ev = "Blocked" THEN blk \cup {E.w} ELSE blk)
  /\ loss' = (IF E.ev = "Loss" /\ loss = "none" THEN E.kind ELSE loss)
  /\ cl' = (IF E.ev = "Loss" /\ loss = "none" /\ E.kind = "local_close" THEN "cl_test"
            ELSE IF IsCL THEN CLTarget(E.name) ELSE cl)
  /\ tt' = (IF IsTT THEN TTTarget(E.name) ELSE tt)
  /\ active' = (IF E.ev \in {"Hook", "Return", "Deadline"} THEN E.active ELSE active)
  /\ wapi' = (IF E.ev = "Call" /\ E.w \in W THEN [wapi EXCEPT ![E.w] = E.api] ELSE wapi)
  /\ wmode' = (IF E.ev = "Call" /\ E.w \in W THEN [wmode EXCEPT ![E.w] = E.mode] ELSE wmode)
  /\ wpc' = (IF E.ev = "Call" /\ E.w \in W /\ Family(E.api) # "unknown" THEN [wpc EXCEPT ![E.w] = Entry(E.api)]
             ELSE IF E.ev = "Return" /\ E.w \in W THEN [wpc EXCEPT ![E.w] = "done"] ELSE wpc)
  /\ wres' = (IF E.ev = "Return" /\ E.w \in W THEN [wres EXCEPT ![E.w] = E.how] ELSE wres)
  (* a call made before the loss counts as "before" only if it was seen blocked when the loss happened *)
  /\ wphase' = (IF E.ev = "Call" /\ E.w \in W THEN [wphase EXCEPT ![E.w] = PhaseNow]
                ELSE IF E.ev = "Loss" /\ loss = "none"
                     THEN [w \in W |-> IF Started(w) /\ w \notin blk THEN "racing" ELSE wphase[w]]
                ELSE wphase)
  /\ UNCHANGED <<pclosed, sclosed, ch, completion, authev, svc, ocreg, ocev, cvwait, cvnote>>

TSpec == TInit /\ [][TNext]_tvars
Report == /\ (bad # {} => PrintT(<<"VERDICT", tid, l - 1, bad>>))
          /\ (l = Len(Ev) + 1 => PrintT(<<"DONE", tid>>))
=============================================================================
