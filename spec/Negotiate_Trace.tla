--------------------------- MODULE Negotiate_Trace ---------------------------
(* code -> spec for C05.  One record = one negotiation between two peers, at least *)
(* one of them a real paramiko Transport:                                          *)
(*   conf[r]  = [alien, strict, moduli, pref : kind -> list, dis : kind -> list,     *)
(*               held : list]      (how the driver configured the Transport)        *)
(*   events   = SendKexInit(role, wire : slot -> name-list read back from the bytes   *)
(*              of the KEXINIT the Transport produced / the foreign peer sent),      *)
(*              ParseKexInit(role, ok, exc, sel : slot -> chosen name)               *)
(* P_ clauses are the statement of C05 evaluated on the lists that were on the wire;  *)
(* C_ clauses compare with Advertise / Decide of the design spec.                    *)
EXTENDS Negotiate, Json, IOUtils, TLCExt
Batch == JsonDeserialize(IOEnv.TRACE_FILE)
VARIABLES tid, l, bad
tvars == <<tid, l, bad, vars>>
R == Batch[tid]

Slots == {"kex", "key", "c2s_cipher", "s2c_cipher", "c2s_mac", "s2c_mac", "c2s_comp", "s2c_comp"}
KindOf(s) == CASE s = "kex" -> "kex" [] s = "key" -> "key"
               [] s \in {"c2s_cipher", "s2c_cipher"} -> "cipher"
               [] s \in {"c2s_mac", "s2c_mac"} -> "mac"
               [] OTHER -> "compression"
View(r, kind) == [pref |-> R.conf[r].pref[kind], dis |-> Range(R.conf[r].dis[kind]),
                  held |-> Range(R.conf[r].held), moduli |-> R.conf[r].moduli, strict |-> R.conf[r].strict]
Prefix(a, b) == Len(a) <= Len(b) /\ SubSeq(b, 1, Len(a)) = a

(* ---- SendKexInit: conformance of the advertised lists ---- *)
AdvertisedOk(r, s, w) ==
    LET k == KindOf(s)
        pinned   == AdvertiseFix(k, r, View(r, k), FALSE)
        repaired == AdvertiseFix(k, r, View(r, k), TRUE)
    IN  IF k = "key" /\ r = "client"            \* certificate variants follow the plain names
        THEN Prefix(pinned, w)
        ELSE w = pinned \/ w = repaired
SendClauses(e) ==
    IF R.conf[e.role].alien THEN {}
    ELSE {<<"C_kexinit_list_differs_from_model", s>> : s \in {x \in Slots : ~AdvertisedOk(e.role, x, e.wire[x])}}

(* ---- ParseKexInit ---- *)
A(w, s)    == FirstCommon(w.client[s], w.server[s])
AllOk(w)   == \A s \in Slots : A(w, s)[1] = "ok"
D(r, w, s) == Decide(KindOf(s), r, View(r, KindOf(s)), w[Peer(r)][s])
\* the agreed-by-wire kex is a group exchange a moduli-less paramiko server listed anyway
GexCase(w) == /\ ~R.conf.server.alien /\ ~R.conf.server.moduli
              /\ A(w, "kex")[1] = "ok" /\ A(w, "kex")[2] \in Gex
              /\ A(w, "kex")[2] \in Range(Listed("kex", "server", View("server", "kex")))
GexKey     == "P_server_lists_group_exchange_without_moduli"

ParseClauses(e, w, o) ==
    LET r == e.role
        other == o[Peer(r)]
        modelFails == \E s \in Slots : D(r, w, s)[1] = "fail"
        asModel(s) == IF e.ok THEN D(r, w, s) = <<"ok", e.sel[s]>> ELSE modelFails
        gex(s) == s = "kex" /\ GexCase(w) /\ asModel("kex")
    IN
    (IF r \notin sent \/ Peer(r) \notin sent THEN {<<"C_parse_before_both_kexinit", "">>} ELSE {})
    \cup (IF e.ok THEN
            {<<IF gex(s) THEN GexKey ELSE "P_not_clients_first_common", s>> :
                 s \in {x \in Slots : A(w, x) # <<"ok", e.sel[x]>> /\ A(w, x)[1] = "ok"}}
            \cup {<<"P_no_failure_without_common_algorithm", s>> : s \in {x \in Slots : A(w, x)[1] = "fail"}}
            \cup {<<"P_selected_disabled", s>> : s \in {x \in Slots : e.sel[x] \in Range(R.conf[r].dis[KindOf(x)])}}
            \cup {<<"P_selected_marker", s>> : s \in {x \in Slots : e.sel[x] \in Markers}}
            \cup {<<"C_decision_differs_from_model", s>> : s \in {x \in Slots : D(r, w, x) # <<"ok", e.sel[x]>>}}
            \cup (IF r = "server" /\ e.sel["key"] \notin Range(R.conf[r].held)
                  THEN {<<"C_selected_key_not_held", "key">>} ELSE {})
          ELSE
            (IF AllOk(w) THEN {<<IF gex("kex") /\ (\A s \in Slots \ {"kex"} : D(r, w, s)[1] = "ok")
                                 THEN GexKey ELSE "P_failure_with_common_algorithms", "">>} ELSE {})
            \cup (IF e.exc # "IncompatiblePeer" /\ ~AllOk(w) THEN {<<"P_failure_not_incompatible_peer", "">>} ELSE {})
            \cup (IF ~modelFails THEN {<<"C_decision_differs_from_model", "">>} ELSE {}))
    \cup (IF ~other.done THEN {}
          ELSE IF other.ok # e.ok
               THEN (IF AllOk(w) THEN {<<IF GexCase(w) THEN GexKey ELSE "P_peers_disagree", "">>} ELSE {})
               ELSE IF ~e.ok THEN {}
               ELSE {<<IF x = "kex" /\ GexCase(w) THEN GexKey ELSE "P_peers_disagree", x>> :
                        x \in {s \in Slots : other.sel[s] # e.sel[s]}})

TInit == /\ tid \in 1..Len(Batch) /\ l = 1 /\ bad = {}
         /\ conf = <<>> /\ sent = {}
         /\ wire = [r \in Roles |-> [s \in Slots |-> <<>>]]
         /\ out = [r \in Roles |-> [done |-> FALSE, ok |-> FALSE, sel |-> [s \in Slots |-> ""]]]
TNext == /\ l <= Len(R.events) /\ l' = l + 1 /\ tid' = tid
         /\ UNCHANGED conf
         /\ LET e == R.events[l] IN
            IF e.ev = "SendKexInit"
            THEN /\ sent' = sent \cup {e.role}
                 /\ wire' = [wire EXCEPT ![e.role] = e.wire]
                 /\ UNCHANGED out
                 /\ bad' = SendClauses(e)
            ELSE /\ out' = [out EXCEPT ![e.role] = [done |-> TRUE, ok |-> e.ok, sel |-> e.sel]]
                 /\ UNCHANGED <<sent, wire>>
                 /\ bad' = ParseClauses(e, wire, out)
TSpec == TInit /\ [][TNext]_tvars
Report == /\ (bad # {} => PrintT(<<"VERDICT", tid, l - 1, bad>>))
          /\ (l = Len(R.events) + 1 => PrintT(<<"DONE", tid>>))
=============================================================================
