--------------------------- MODULE StrictKex_Trace ---------------------------
(* code -> spec for C09.  One trace = what ONE end ("c" or "s") of a real         *)
(* handshake consumed (every inbound message that passed the packet layer, in     *)
(* order, with the receiver's sequence number and whether the man in the middle   *)
(* made it), replayed through StrictKex!Step for that end; then the observations  *)
(* made when the scenario was over are judged.  All traces of a batch share the   *)
(* constants AdvC / AdvS (one TLC run per advertised-mode combination).           *)
EXTENDS StrictKex, Integers, Json, IOUtils, TLCExt
Batch == JsonDeserialize(IOEnv.TRACE_FILE)
VARIABLES tid, l, bad
tvars == <<tid, l, bad, vars>>
T == Batch[tid]
E == T.end
N == Len(T.packets)
TInit == /\ tid \in 1..Len(Batch) /\ l = 1 /\ bad = {}
         /\ Init
\* the end has sent its banner and KEXINIT and waits for the peer's (Transport.run() before the loop)
Started == [phase EXCEPT ![E] = "wait_kexinit"]
Feed ==
  /\ l <= N /\ l' = l + 1 /\ tid' = tid /\ bad' = {}
  /\ LET raw == T.packets[l]
         p == [t |-> raw.t, seq |-> raw.seq, enc |-> encIn[E], id |-> 0, forged |-> raw.forged]
         ph == IF l = 1 THEN Started ELSE phase
     IN \* bind the receiver's logged sequence number, then take the spec's step for this end
        LET r == [Keep(E) EXCEPT !.phase = ph[E]] IN
        /\ phase' = [ph EXCEPT ![E] = IF ph[E] = "dead" THEN "dead"
                                      ELSE StepAt(E, p, ph[E], raw.seq).phase]
        /\ agreed' = [agreed EXCEPT ![E] = IF ph[E] = "dead" THEN @ ELSE StepAt(E, p, ph[E], raw.seq).agreed]
        /\ encIn' = [encIn EXCEPT ![E] = IF ph[E] = "dead" THEN @ ELSE StepAt(E, p, ph[E], raw.seq).encIn]
        /\ tainted' = [tainted EXCEPT ![E] = @ \/ (raw.forged /\ ph[E] # "open")]
        /\ UNCHANGED <<sin, sout, encOut, net, appSent, appRecv, ninj, ndrop, badKexinit>>
Judge ==
  /\ l = N + 1 /\ l' = l + 1 /\ tid' = tid /\ UNCHANGED vars
  /\ LET o == T.obs
         strictBoth == AdvC /\ AdvS
     IN bad' =
        (IF strictBoth /\ phase[E] = "dead" /\ o.established
           THEN {"P_strict_kex_violation_not_terminated"} ELSE {})
        \cup (IF strictBoth /\ tainted[E] /\ o.established THEN {"P_forged_packet_survived_strict_kex"} ELSE {})
        \cup (IF strictBoth /\ o.established /\ o.kexinit_in_seq # 0 THEN {"P_late_kexinit_accepted"} ELSE {})
        \cup (IF strictBoth /\ o.established /\ o.first_in_seq \notin {0, -1} THEN {"P_inbound_seqno_not_reset_at_newkeys"} ELSE {})
        \cup (IF strictBoth /\ o.first_out_seq \notin {0, -1} THEN {"P_outbound_seqno_not_reset_at_newkeys"} ELSE {})
        \cup (IF strictBoth /\ o.established /\ ~IsPrefix(o.recv, o.peer_sent) THEN {"P_shifted_session"} ELSE {})
        \cup (IF strictBoth /\ o.established /\ ~o.agreed THEN {"C_strict_not_agreed"} ELSE {})
        \cup (IF ~strictBoth /\ o.established /\ ~IsPrefix(o.recv, o.peer_sent) THEN {"C_nonstrict_stream_differs"} ELSE {})
        \cup (IF phase[E] # "dead" /\ ~o.established /\ ~T.attacked THEN {"C_untouched_handshake_failed"} ELSE {})
\* re-exchange records (StrictRekey.tla): strict mode agreed initially, then further exchanges with a peer that may
\* stop repeating the marker; judged: the mode stays, both counters restart at 0 after EVERY NEWKEYS, session works
JudgeRekey ==
  /\ l = 1 /\ T.kind = "rekeys" /\ l' = N + 2 /\ tid' = tid /\ UNCHANGED vars
  /\ LET o == T.obs IN
     bad' = (IF o.agreed THEN {} ELSE {"P_strict_mode_dropped_by_reexchange"})
            \cup (IF \A i \in 1..Len(o.in_seq) : o.in_seq[i] \in {0, -1} THEN {} ELSE {"P_inbound_seqno_not_reset_at_rekey_newkeys"})
            \cup (IF \A i \in 1..Len(o.out_seq) : o.out_seq[i] \in {0, -1} THEN {} ELSE {"P_outbound_seqno_not_reset_at_rekey_newkeys"})
            \cup (IF o.all_ok THEN {} ELSE {"P_session_lost_in_strict_reexchange"})
TSpec == TInit /\ [][(T.kind = "handshake" /\ (Feed \/ Judge)) \/ JudgeRekey]_tvars
Report == /\ (bad # {} => PrintT(<<"VERDICT", tid, l - 1, bad>>))
          /\ (l = N + 2 => PrintT(<<"DONE", tid>>))
=============================================================================
