-------------------------- MODULE ClientAuthResult --------------------------
(* X03 (beyond the listed properties).  What a client-side auth_* call reports,      *)
(* paramiko/transport.py auth_password / auth_none / ... and auth_handler.py          *)
(* wait_for_response, _parse_userauth_failure, _parse_userauth_success.               *)
(*                                                                                    *)
(* A connection makes a sequence of authentication calls.  Call k is made either in   *)
(* blocking mode (event=None: the call waits and reports) or in event mode (the call  *)
(* returns [] at once; the application learns the result from is_authenticated()).    *)
(* The server answers request k with                                                  *)
(*    "ok"              USERAUTH_SUCCESS                                               *)
(*    "partial"         USERAUTH_FAILURE, partial success = TRUE, some method list     *)
(*    "fail_listed"     USERAUTH_FAILURE, not partial, the method used is in the list  *)
(*    "fail_unlisted"   USERAUTH_FAILURE, not partial, the method used is not listed   *)
(* One step per statement that matters:                                               *)
(*   Answer   the transport thread handles the server's message:                       *)
(*            success: authenticated := TRUE                                           *)
(*            failure: partial -> saved := Partial(list); method unlisted -> saved :=   *)
(*            BadType(list); otherwise saved is LEFT AS IT IS; authenticated := FALSE   *)
(*   Report   blocking mode only: not authenticated -> e := transport.get_exception()  *)
(*            (returns AND clears saved); none -> raise "Authentication failed";        *)
(*            Partial -> return its list; other -> raise it.  authenticated -> []       *)
(* saved (Transport.saved_exception) belongs to the transport, not to the call:        *)
(* Fresh = TRUE is the repaired design (each call starts with saved = none).           *)
EXTENDS Naturals, Sequences, TLC

CONSTANTS MaxCalls, Fresh

Answers == {"ok", "partial", "fail_listed", "fail_unlisted"}
Modes == {"block", "event"}
VARIABLES k,          \* calls made so far
          mode, ans,  \* of the call in progress
          pc,         \* "idle" | "sent" | "answered"
          saved,      \* "none" | "partial" | "badtype"   (which call set it: savedBy)
          savedBy,
          authed,
          outs        \* Seq of [mode, ans, out]: out in "ret_empty" | "ret_list" | "raise_auth" | "raise_badtype" | "event"
                      \*                         and from = the call whose server answer the reported object came from
vars == <<k, mode, ans, pc, saved, savedBy, authed, outs>>

Init == k = 0 /\ mode = "block" /\ ans = "ok" /\ pc = "idle" /\ saved = "none" /\ savedBy = 0 /\ authed = FALSE /\ outs = <<>>

Call(m, a) == /\ pc = "idle" /\ k < MaxCalls /\ ~authed
              /\ k' = k + 1 /\ mode' = m /\ ans' = a /\ pc' = "sent"
              /\ saved' = IF Fresh THEN "none" ELSE saved
              /\ savedBy' = IF Fresh THEN 0 ELSE savedBy
              /\ UNCHANGED <<authed, outs>>
Answer == /\ pc = "sent" /\ pc' = "answered"
          /\ authed' = (ans = "ok")
          /\ saved' = CASE ans = "partial" -> "partial" [] ans = "fail_unlisted" -> "badtype" [] OTHER -> saved
          /\ savedBy' = IF ans \in {"partial", "fail_unlisted"} THEN k ELSE savedBy
          /\ UNCHANGED <<k, mode, ans, outs>>
Report == /\ pc = "answered" /\ pc' = "idle"
          /\ IF mode = "event"
             THEN /\ outs' = Append(outs, [mode |-> mode, ans |-> ans, out |-> "event", from |-> k])
                  /\ UNCHANGED <<saved, savedBy>>
             ELSE /\ outs' = Append(outs, [mode |-> mode, ans |-> ans, from |-> IF authed \/ saved = "none" THEN k ELSE savedBy,
                                           out |-> IF authed THEN "ret_empty"
                                                   ELSE CASE saved = "none" -> "raise_auth" [] saved = "partial" -> "ret_list"
                                                          [] OTHER -> "raise_badtype"])
                  /\ saved' = IF authed THEN saved ELSE "none"              \* get_exception() clears it
                  /\ savedBy' = IF authed THEN savedBy ELSE 0
          /\ UNCHANGED <<k, mode, ans, authed>>
Next == (\E m \in Modes, a \in Answers : Call(m, a)) \/ Answer \/ Report
Spec == Init /\ [][Next]_vars

(* what the caller of a blocking auth_* call relies on: the report is about THIS request *)
Expected(a) == CASE a = "ok" -> "ret_empty" [] a = "partial" -> "ret_list" [] a = "fail_listed" -> "raise_auth" [] OTHER -> "raise_badtype"
ReportMatchesAnswer == \A i \in 1..Len(outs) : outs[i].mode = "block" => (outs[i].out = Expected(outs[i].ans) /\ outs[i].from = i)
Emit == (pc = "idle" /\ (k = MaxCalls \/ authed)) => PrintT(<<"CASE", outs>>)
=============================================================================
