------------------------ MODULE SftpServerProto_Trace ------------------------
(* code -> spec for the server half of C30.  A trace is one request stream sent as  *)
(* raw packets to a real SFTPServer; record l is the l-th request with everything   *)
(* that came back carrying its id:                                                   *)
(*   kind   element of Kinds (the driver names the packet type / extension it sent)  *)
(*   h      handle token named by the request: n = the n-th handle the server issued *)
(*          in this stream (from the HANDLE responses, in order), 0 = never issued    *)
(*   resp   Seq of [type, wf, newh, code]: type in Types, wf = body parses as that    *)
(*          type, newh = token of the handle a HANDLE response carries (else 0),      *)
(*          code = status code of a STATUS response (else -1)                         *)
(*   stuck  TRUE if the request loop was observed spinning / silent on this request   *)
(*   foreign number of response packets seen so far whose id belongs to no request    *)
(*   size, off, len, blk  check-file arguments and the file's size (else 0)           *)
(* The handle tables are the spec's own state: validity is not told by the driver.   *)
EXTENDS SftpServerProto, Json, IOUtils, TLCExt
Batch == JsonDeserialize(IOEnv.TRACE_FILE)
VARIABLES tid, l, bad, key
tvars == <<tid, l, bad, key, vars>>
T == Batch[tid]
R == T[l]

V == Valid(R.kind, R.h, files, dirs)
HC == IF R.kind \notin TakesHandle THEN "-"
      ELSE IF V THEN "valid_handle"
      ELSE IF R.h > 0 /\ R.h < nexth THEN "wrong_or_closed_handle" ELSE "unknown_handle"
CFC == IF R.kind # "ext_check_file" \/ ~V THEN ""
       ELSE IF R.len > 0 /\ R.off + R.len > R.size THEN ":range_past_eof"
       ELSE IF (IF R.blk = 0 THEN (IF R.len = 0 THEN R.size - R.off ELSE R.len) ELSE R.blk) > 65536 THEN ":block_over_read_chunk"
       ELSE ":other"

Clauses ==
       (IF Len(R.resp) = 0 THEN {"P_unanswered"} ELSE {})
  \cup (IF Len(R.resp) > 1 THEN {"P_answered_twice"} ELSE {})
  \cup (IF \E i \in 1..Len(R.resp) : R.resp[i].type \notin Allowed(R.kind, V) THEN {"P_wrong_type"} ELSE {})
  \cup (IF \E i \in 1..Len(R.resp) : ~R.resp[i].wf THEN {"P_malformed"} ELSE {})
  \cup (IF R.foreign > 0 THEN {"P_foreign_id"} ELSE {})
  \cup (IF Len(R.resp) = 1 /\ R.resp[1].type = "HANDLE" /\ R.resp[1].newh # nexth THEN {"C_handle_numbering"} ELSE {})

TInit == tid \in 1..Len(Batch) /\ l = 1 /\ bad = {} /\ key = "" /\ Init
TNext ==
  /\ l <= Len(T) /\ l' = l + 1 /\ tid' = tid
  /\ bad' = Clauses
  /\ key' = R.kind \o ":" \o HC \o CFC
  /\ LET got == IF Len(R.resp) >= 1 THEN R.resp[1].type ELSE "none" IN
       IF got = "HANDLE" /\ R.kind = "open"
         THEN files' = files \cup {R.resp[1].newh} /\ nexth' = nexth + 1 /\ UNCHANGED dirs
       ELSE IF got = "HANDLE" /\ R.kind = "opendir"
         THEN dirs' = dirs \cup {R.resp[1].newh} /\ nexth' = nexth + 1 /\ UNCHANGED files
       ELSE IF R.kind = "close" /\ V /\ got = "STATUS" /\ R.resp[1].code = 0     \* a close that failed keeps the handle
         THEN files' = files \ {R.h} /\ dirs' = dirs \ {R.h} /\ UNCHANGED nexth
       ELSE UNCHANGED <<files, dirs, nexth>>
  /\ UNCHANGED <<inq, nsent, nserved, nresp, last, spinning>>
TSpec == TInit /\ [][TNext]_tvars
Report == /\ (bad # {} => PrintT(<<"VERDICT", tid, l - 1, key, bad>>))
          /\ (l = Len(T) + 1 => PrintT(<<"DONE", tid>>))
=============================================================================
