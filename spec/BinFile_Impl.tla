---------------------------- MODULE BinFile_Impl ----------------------------
(* C27, implementation half.  paramiko's SFTPFile (sftp_file.py) on top of        *)
(* BufferedFile (file.py) talking to a served file, run in lockstep with the      *)
(* reference BinFile on the same program.  The client object is                   *)
(*   pos, realpos  BufferedFile._pos / _realpos ("according to the user" / "the OS") *)
(*   rbuf, wbuf    _rbuffer (read-ahead) / _wbuffer (unflushed writes)             *)
(*   size          _size, the cached file size used in append mode                 *)
(* and the server is the served file's bytes `sv` (SFTPHandle.read/write at an     *)
(* offset with a cached file position; an O_APPEND handle writes at the end        *)
(* whatever the offset; FSETSTAT size goes through SFTPServer.set_file_attr).      *)
(* Each operator below follows the method of the same name.  Fix* constants switch *)
(* single repairs on; with all of them FALSE the model is the pinned code (4.0.0). *)
EXTENDS BinFile

CONSTANTS Alphabet, InitLens,          \* initial contents: Pattern(k) for k in InitLens
          ModesUsed, Bufs,             \* open modes; bufsize 0 (unbuffered), 1 (line), > 1
          MaxOps, ReadNs, MaxWrite, MaxSeek, TruncNs,
          FixHelper,        \* set_file_attr resizes without zeroing (C31)
          FixFlushFirst,    \* tell/read/readline/truncate flush the write buffer first
          FixAppendSize,    \* truncate refreshes the cached size used in append mode
          FixReadahead,     \* write and truncate drop the read-ahead buffer (and write at the user's position)
          FixNegSeek,       \* seek to a negative position raises
          FixTruncRO,       \* truncate on a handle not open for writing raises
          FixClosedOps,     \* tell/seek/flush/truncate on a closed file raise
          FixHandleTell     \* SFTPHandle forgets its cached position after a write on an O_APPEND handle

DefaultBuf == 8192
Pattern(k) == [i \in 1..k |-> IF i % 2 = 0 THEN LF ELSE 97]
SeqsUpTo(n) == UNION {[1..k -> Alphabet] : k \in 0..n}
Take(s, n) == SubSeq(s, 1, Min(n, Len(s)))
Drop(s, n) == SubSeq(s, Min(n, Len(s)) + 1, Len(s))
HasLF(s)   == \E i \in 1..Len(s) : s[i] = LF
FirstLF(s) == IF HasLF(s) THEN CHOOSE i \in 1..Len(s) : s[i] = LF /\ \A j \in 1..(i - 1) : s[j] # LF ELSE 0
LastLF(s)  == IF HasLF(s) THEN CHOOSE i \in 1..Len(s) : s[i] = LF /\ \A j \in (i + 1)..Len(s) : s[j] # LF ELSE 0

\* client + server state: [sv, pos, realpos, rbuf, wbuf, size, cl, m, buf, fd, stell]   (m = mode record, buf = bufsize)
\* fd is the position of the server's file object, stell SFTPHandle's cached copy of it (-1 = not yet known)
BufSize(f) == IF f.buf > 1 THEN f.buf ELSE DefaultBuf

\* SFTPHandle.read(offset, length): seek only when the offset differs from the cached position
SrvRead(f, at, k) ==
  IF at < 0 THEN [f |-> f, data |-> <<>>]
  ELSE LET t0   == IF f.stell < 0 THEN f.fd ELSE f.stell
           fd1  == IF at # t0 THEN at ELSE f.fd
           data == Slice(f.sv, fd1, k)
       IN [f |-> [f EXCEPT !.fd = fd1 + Len(data), !.stell = (IF at # t0 THEN at ELSE t0) + Len(data)], data |-> data]
\* SFTPHandle.write(offset, data): an O_APPEND handle does not seek and the data lands at the end of the file,
\* yet the cached position advances as if it had been written there
SrvWrite(f, at, d) ==
  IF f.m.a
  THEN LET sv2 == f.sv \o d
       IN [f EXCEPT !.sv = sv2, !.fd = Len(sv2),
                    !.stell = IF f.stell < 0 \/ FixHandleTell THEN -1 ELSE f.stell + Len(d)]
  ELSE LET t0  == IF f.stell < 0 THEN f.fd ELSE f.stell
           fd1 == IF at # t0 THEN at ELSE f.fd
       IN [f EXCEPT !.sv = WriteAt(f.sv, fd1, d), !.fd = fd1 + Len(d), !.stell = (IF at # t0 THEN at ELSE t0) + Len(d)]

\* BufferedFile._write_all(data) with SFTPFile._write (offset = _realpos)
WriteAll(f, data) ==
  IF data = <<>> THEN f
  ELSE LET g == SrvWrite(f, Max(f.realpos, 0), data)
       IN IF f.m.a THEN [g EXCEPT !.size = f.size + Len(data), !.pos = f.size + Len(data), !.realpos = f.size + Len(data)]
                   ELSE [g EXCEPT !.pos = f.pos + Len(data), !.realpos = f.realpos + Len(data)]
Flush(f) == [WriteAll(f, f.wbuf) EXCEPT !.wbuf = <<>>]                             \* BufferedFile.flush
Pre(f) == IF FixFlushFirst THEN Flush(f) ELSE f

\* "while len(self._rbuffer) < size: ... self._read(read_size)" of BufferedFile.read(size)
RECURSIVE FillLoop(_, _)
FillLoop(f, n) ==
  IF Len(f.rbuf) >= n THEN f
  ELSE LET want == n - Len(f.rbuf)
           ask  == IF f.buf # 0 THEN Max(BufSize(f), want) ELSE want
           r    == SrvRead(f, f.realpos, ask)
       IN IF r.data = <<>> THEN r.f
          ELSE FillLoop([r.f EXCEPT !.rbuf = f.rbuf \o r.data, !.realpos = f.realpos + Len(r.data)], n)
IRead(f0, n) ==                         \* BufferedFile.read(size), size >= 0
  LET f == Pre(f0) IN
  IF f.cl \/ ~f.m.r THEN [f |-> f0, ret |-> RErr]
  ELSE LET g == IF n <= Len(f.rbuf) THEN f ELSE FillLoop(f, n)
       IN [f |-> [g EXCEPT !.rbuf = Drop(g.rbuf, n), !.pos = f.pos + Len(Take(g.rbuf, n))], ret |-> RBytes(Take(g.rbuf, n))]

\* "while True: new_data = self._read(self._DEFAULT_BUFSIZE) ..." of BufferedFile.read()
RECURSIVE AllLoop(_, _)
AllLoop(f, acc) == LET r == SrvRead(f, f.realpos, DefaultBuf) IN
                   IF r.data = <<>> THEN [f |-> r.f, acc |-> acc]
                   ELSE AllLoop([r.f EXCEPT !.realpos = f.realpos + Len(r.data)], acc \o r.data)
IReadAll(f0) ==                         \* BufferedFile.read()
  LET f == Pre(f0) IN
  IF f.cl \/ ~f.m.r THEN [f |-> f0, ret |-> RErr]
  ELSE LET r == AllLoop([f EXCEPT !.rbuf = <<>>], f.rbuf)
       IN [f |-> [r.f EXCEPT !.pos = f.pos + Len(r.acc)], ret |-> RBytes(r.acc)]

\* the loop of BufferedFile.readline: fetch until the size limit is reached, a newline is in hand, or EOF
RECURSIVE LineLoop(_, _, _)
LineLoop(f, line, size) ==
  IF (size >= 0 /\ Len(line) >= size) \/ HasLF(line) THEN [f |-> f, line |-> line, eof |-> FALSE]
  ELSE LET n == IF size >= 0 THEN size - Len(line) ELSE BufSize(f)
           r == SrvRead(f, f.realpos, n)
       IN IF r.data = <<>> THEN [f |-> r.f, line |-> line, eof |-> TRUE]
          ELSE LineLoop([r.f EXCEPT !.realpos = f.realpos + Len(r.data)], line \o r.data, size)
IReadline(f0, size) ==                  \* BufferedFile.readline(size), without universal newlines
  LET f == Pre(f0) IN
  IF f.cl \/ ~f.m.r THEN [f |-> f0, ret |-> RErr]
  ELSE LET r    == LineLoop(f, f.rbuf, size)
           hit  == size >= 0 /\ Len(r.line) >= size
           tail == IF hit THEN Drop(r.line, size) ELSE <<>>
           head == IF hit THEN Take(r.line, size) ELSE r.line
           p    == FirstLF(head)
           ret  == IF r.eof \/ p = 0 THEN head ELSE Take(head, p)
           rb   == IF r.eof THEN <<>> ELSE IF p = 0 THEN tail ELSE Drop(head, p) \o tail
       IN [f |-> [r.f EXCEPT !.rbuf = rb, !.pos = f.pos + Len(ret)], ret |-> RBytes(ret)]
RECURSIVE LinesLoop(_, _)
LinesLoop(f, acc) == LET r == IReadline(f, -1) IN
                     IF r.ret.k = "err" THEN [f |-> f, ret |-> RErr]
                     ELSE IF r.ret.b = <<>> THEN [f |-> r.f, ret |-> RLines(acc)]
                     ELSE LinesLoop(r.f, Append(acc, r.ret.b))
IReadlines(f) == LinesLoop(f, <<>>)     \* BufferedFile.readlines()

IWrite(f0, d) ==                        \* BufferedFile.write
  IF f0.cl \/ ~f0.m.w THEN [f |-> f0, ret |-> RErr]
  ELSE LET f == IF FixReadahead THEN [f0 EXCEPT !.rbuf = <<>>, !.realpos = f0.pos] ELSE f0 IN
       IF f.buf = 0 THEN [f |-> WriteAll(f, d), ret |-> RNone]
       ELSE LET w == f.wbuf \o d IN
            IF f.buf = 1
            THEN LET p == LastLF(d)
                     q == p + Len(w) - Len(d)
                 IN IF p > 0 THEN [f |-> [WriteAll(f, Take(w, q)) EXCEPT !.wbuf = Drop(w, q)], ret |-> RNone]
                             ELSE [f |-> [f EXCEPT !.wbuf = w], ret |-> RNone]
            ELSE IF Len(w) >= f.buf THEN [f |-> [WriteAll(f, w) EXCEPT !.wbuf = <<>>], ret |-> RNone]
                                    ELSE [f |-> [f EXCEPT !.wbuf = w], ret |-> RNone]

ISeek(f0, off, whence) ==               \* SFTPFile.seek: flush, move, drop the read buffer
  IF FixClosedOps /\ f0.cl THEN [f |-> f0, ret |-> RErr]
  ELSE LET f == Flush(f0)
           target == CASE whence = 0 -> off [] whence = 1 -> f.pos + off [] OTHER -> Len(f.sv) + off
       IN IF FixNegSeek /\ target < 0 THEN [f |-> f, ret |-> RErr]
          ELSE [f |-> [f EXCEPT !.pos = target, !.realpos = target, !.rbuf = <<>>], ret |-> RNone]

ITell(f0) ==                            \* BufferedFile.tell: return self._pos
  IF FixClosedOps /\ f0.cl THEN [f |-> f0, ret |-> RErr]
  ELSE LET f == IF f0.cl THEN f0 ELSE Pre(f0) IN [f |-> f, ret |-> RInt(f.pos)]

ITruncate(f0, n) ==                     \* SFTPFile.truncate: FSETSTAT size -> handle.chattr -> set_file_attr
  IF f0.cl THEN [f |-> f0, ret |-> IF FixClosedOps THEN RErr ELSE RNone]     \* unknown handle: answered, not raised
  ELSE IF FixTruncRO /\ ~f0.m.w THEN [f |-> f0, ret |-> RErr]
  ELSE LET f1 == Pre(f0)
           f  == IF FixReadahead THEN [f1 EXCEPT !.rbuf = <<>>, !.realpos = f1.pos] ELSE f1
           sv2 == IF FixHelper THEN Resize(f.sv, n) ELSE Zeros(n)               \* open(name, "w+") then truncate(n)
       IN [f |-> [f EXCEPT !.sv = sv2, !.size = IF FixAppendSize /\ f.m.a THEN n ELSE f.size], ret |-> RNone]

IFlush(f) == IF FixClosedOps /\ f.cl THEN [f |-> f, ret |-> RErr] ELSE [f |-> Flush(f), ret |-> RNone]
IClose(f) == IF f.cl THEN [f |-> f, ret |-> RNone] ELSE [f |-> [Flush(f) EXCEPT !.cl = TRUE], ret |-> RNone]

IOpen(initial, modeStr, buf) ==
  LET m == ModeOf(modeStr)
      c == IF modeStr \in {"w", "w+", "x", "x+"} THEN <<>> ELSE initial
      p == IF m.a THEN Len(c) ELSE 0
  IN [sv |-> c, pos |-> p, realpos |-> p, rbuf |-> <<>>, wbuf |-> <<>>, size |-> IF m.a THEN Len(c) ELSE 0,
      cl |-> FALSE, m |-> m, buf |-> buf, fd |-> p, stell |-> -1]

IApply(f, e) ==
  CASE e.op = "read"      -> IF e.n < 0 THEN IReadAll(f) ELSE IRead(f, e.n)
    [] e.op = "readline"  -> IReadline(f, e.n)
    [] e.op = "readlines" -> IReadlines(f)
    [] e.op = "write"     -> IWrite(f, e.data)
    [] e.op = "seek"      -> ISeek(f, e.off, e.whence)
    [] e.op = "tell"      -> ITell(f)
    [] e.op = "truncate"  -> ITruncate(f, e.n)
    [] e.op = "flush"     -> IFlush(f)
    [] e.op = "close"     -> IClose(f)

(* ---- lockstep: the same program on the reference and on the implementation ---- *)
VARIABLES modeStr, initLen, rf, im, prog, last, agree
vars == <<modeStr, initLen, rf, im, prog, last, agree>>
View == <<modeStr, initLen, rf, im, Len(prog), agree>>

Ev(op, n, data, off, whence) == [op |-> op, n |-> n, data |-> data, off |-> off, whence |-> whence]
Events == {Ev("read", n, <<>>, 0, 0) : n \in ReadNs \cup {-1}}
     \cup {Ev("readline", n, <<>>, 0, 0) : n \in (ReadNs \ {0}) \cup {-1}}
     \cup {Ev("readlines", 0, <<>>, 0, 0), Ev("tell", 0, <<>>, 0, 0), Ev("flush", 0, <<>>, 0, 0), Ev("close", 0, <<>>, 0, 0)}
     \cup {Ev("write", 0, d, 0, 0) : d \in SeqsUpTo(MaxWrite) \ {<<>>}}
     \cup {Ev("seek", 0, <<>>, o, w) : o \in -1..MaxSeek, w \in 0..2}
     \cup {Ev("truncate", n, <<>>, 0, 0) : n \in TruncNs}
\* zero-length reads on files that are closed or not open for reading are a degenerate no-op in CPython (they
\* return b"" instead of raising) and are not part of the comparison
Sensible(e, st) == ~(e.op \in {"read", "readline"} /\ e.n = 0 /\ (~st.mode.r \/ st.closed))

Init == /\ modeStr \in ModesUsed
        /\ initLen \in InitLens
        /\ rf = Open(Pattern(initLen), modeStr)
        /\ \E b \in Bufs : im = IOpen(Pattern(initLen), modeStr, b)
        /\ prog = <<>> /\ last = [ref |-> RNone, got |-> RNone] /\ agree = TRUE
Step(e) == LET r == Apply(rf, e)
               i == IApply(im, e)
           IN /\ rf' = r.st /\ im' = i.f /\ prog' = Append(prog, e) /\ last' = [ref |-> r.ret, got |-> i.ret]
              /\ agree' = /\ SameValue(e.op, r.ret, i.ret)
                          /\ (e.op = "close" => i.f.sv = r.st.content)       \* final contents
Next == /\ agree /\ Len(prog) < MaxOps
        /\ \E e \in Events : Sensible(e, rf) /\ Step(e)
        /\ UNCHANGED <<modeStr, initLen>>
\* every program ends with close (the driver closes every file it opened)
Finish == /\ agree /\ Len(prog) = MaxOps /\ ~rf.closed /\ Step(Ev("close", 0, <<>>, 0, 0)) /\ UNCHANGED <<modeStr, initLen>>
Spec == Init /\ [][Next \/ Finish]_vars

(* ---- properties ---- *)
Agree == agree            \* the statement of C27 on the model: same values, same final bytes
\* sanity of the client object when all repairs are on: the read-ahead buffer is what the server holds
\* between the user's position and the OS position
ReadaheadCoherent == (FixFlushFirst /\ FixReadahead /\ FixHelper /\ agree /\ ~im.cl /\ im.wbuf = <<>>) =>
                        /\ im.realpos = im.pos + Len(im.rbuf)
                        /\ (im.rbuf # <<>> => im.rbuf = Slice(im.sv, im.pos, Len(im.rbuf)))
\* spec -> code: every complete program of the bounded model, printed as integer tuples
\* <<op, n, data, off, whence>> with op numbered as in OpNames (cheap to print and to parse)
OpNames == <<"read", "readline", "readlines", "write", "seek", "tell", "truncate", "flush", "close">>
OpCode(o) == CHOOSE i \in 1..Len(OpNames) : OpNames[i] = o
ModeNames == <<"r", "r+", "w", "w+", "a", "a+", "x", "x+">>
ModeCode(m) == CHOOSE i \in 1..Len(ModeNames) : ModeNames[i] = m
Code(e) == <<OpCode(e.op), e.n, e.data, e.off, e.whence>>
Complete == Len(prog) = MaxOps + 1 \/ (Len(prog) = MaxOps /\ rf.closed)
Emit == Complete => PrintT(<<"PROG", ModeCode(modeStr), im.buf, initLen, [i \in 1..Len(prog) |-> Code(prog[i])]>>)
=============================================================================
