------------------------------ MODULE Negotiate ------------------------------
(* C05.  Algorithm negotiation (paramiko/transport.py: _filter_algorithm /        *)
(* preferred_*, _send_kex_init, _parse_kex_init).                                 *)
(*                                                                               *)
(* Two peers, "client" and "server".  A peer is either paramiko (it has a         *)
(* preference list `pref`, a set `dis` of disabled names, for host keys a set     *)
(* `held` of key types it owns, and the strict-kex switch) or a foreign           *)
(* implementation ("alien") that may put any list on the wire: unknown names,     *)
(* marker pseudo-algorithms in any position.                                      *)
(*                                                                               *)
(*   SendKexInit(r)   r puts its name-list on the wire (the KEXINIT field of the   *)
(*                    category under test)                                        *)
(*   ParseKexInit(r)  r (paramiko, own KEXINIT already sent) reads the peer's list *)
(*                    and decides                                                 *)
(*                                                                               *)
(* The operators take the category kind as an argument so that the trace spec can *)
(* apply them to all eight KEXINIT name-lists of one real negotiation; the model   *)
(* checker explores one kind at a time (constant Kind).                           *)
EXTENDS Naturals, Sequences, FiniteSets, TLC

CONSTANTS U,            \* the real algorithm names of the category (model: 2-3 names)
          Gex,          \* kex names that need a moduli file on the server (group exchange)
          Alien,        \* further names a foreign peer may advertise (unknown names, markers)
          ExtraMarkers, \* marker spellings other than the four below (same prefixes)
          FixGexOffer,  \* FALSE = pinned code: a server without moduli still ADVERTISES group exchange
                        \* in its first KEXINIT (the list is built before the names are dropped)
          Kind,         \* "kex" | "key" | "cipher" | "mac" | "compression"
          MaxAlienLen,  \* longest list a foreign peer advertises in the model
          MinPrefLen,   \* shortest preference tuple explored (shorter effective lists arise through `dis`)
          StrictOpts,   \* values of the strict-kex switch explored ({TRUE} or BOOLEAN)
          Mut           \* "none", or the name of a seeded design error (sensitivity runs)

Roles == {"client", "server"}
Peer(r) == IF r = "client" THEN "server" ELSE "client"
Range(s) == {s[i] : i \in 1..Len(s)}

(* pseudo-algorithms: they signal protocol extensions and must never be chosen *)
ExtInfoC == "ext-info-c"
ExtInfoS == "ext-info-s"
StrictC  == "kex-strict-c-v00@openssh.com"
StrictS  == "kex-strict-s-v00@openssh.com"
Markers  == {ExtInfoC, ExtInfoS, StrictC, StrictS} \cup ExtraMarkers

Filter(s, Test(_)) == SelectSeq(s, Test)

(* ---- what the code computes ------------------------------------------------ *)
(* preferred_<kind>: the preference tuple minus disabled names; the server's host  *)
(* key offer is further restricted to the key types it holds, and a server without *)
(* a moduli file drops group exchange from its kex preferences                     *)
Listed(kind, r, p) ==          \* preferred_<kind> before the moduli check
    LET keep(x) == /\ (Mut = "ignore_disabled" \/ x \notin p.dis)
                   /\ (kind = "key" /\ r = "server" => x \in p.held)
    IN  Filter(p.pref, keep)
Effective(kind, r, p) ==       \* ... and after it: what _parse_kex_init selects from
    LET keep(x) == kind = "kex" /\ r = "server" /\ ~p.moduli => x \notin Gex
    IN  Filter(Listed(kind, r, p), keep)

(* _send_kex_init: kex list gets ext-info-c (client) and the strict-kex marker *)
OwnMarkers(kind, r, p) ==
    IF kind # "kex" THEN <<>>
    ELSE (IF r = "client" THEN <<ExtInfoC>> ELSE <<>>)
         \o (IF p.strict THEN <<IF r = "client" THEN StrictC ELSE StrictS>> ELSE <<>>)
AdvertiseFix(kind, r, p, fix) == (IF fix THEN Effective(kind, r, p) ELSE Listed(kind, r, p)) \o OwnMarkers(kind, r, p)
Advertise(kind, r, p) == AdvertiseFix(kind, r, p, FixGexOffer)

(* _parse_kex_init: strip markers from the peer's kex list, then                   *)
(*   server: first name of the client's list that is in the own list               *)
(*   client: first name of the own list that is in the server's list               *)
Strip(kind, l) == LET real(x) == ~(kind = "kex" /\ x \in Markers) IN Filter(l, real)
Decide(kind, r, p, peerlist) ==
    LET own  == IF Mut = "markers_in_own" THEN Advertise(kind, r, p) ELSE Effective(kind, r, p)
        them == IF Mut = "markers_in_own" THEN peerlist ELSE Strip(kind, peerlist)
        inThem(x) == x \in Range(them)
        inOwn(x)  == x \in Range(own)
        cands == IF r = "client" \/ Mut = "server_pref"
                 THEN Filter(own, inThem) ELSE Filter(them, inOwn)
    IN  IF cands = <<>> THEN <<"fail">> ELSE <<"ok", Head(cands)>>

(* ---- what the statement says (over the lists on the wire) ------------------- *)
FirstCommon(cl, sl) ==
    LET ok(x) == x \in Range(sl) /\ x \notin Markers
        c == Filter(cl, ok)
    IN  IF c = <<>> THEN <<"fail">> ELSE <<"ok", Head(c)>>

(* ---- state machine --------------------------------------------------------- *)
VARIABLES conf,   \* role -> peer configuration
          sent,   \* roles whose KEXINIT is on the wire
          wire,   \* role -> advertised name-list (<<>> until sent)
          out     \* role -> <<"pending">> | <<"fail">> | <<"ok", name>>
vars == <<conf, sent, wire, out>>

RECURSIVE ListsUpTo(_, _)
ListsUpTo(S, k) == IF k = 0 THEN {<<>>}
                   ELSE LET prev == ListsUpTo(S, k - 1)
                        IN  prev \cup UNION {{Append(p, x) : x \in S \ Range(p)} : p \in prev}
ParamikoConfs(r) == [alien : {FALSE}, pref : {p \in ListsUpTo(U, Cardinality(U)) : Len(p) >= MinPrefLen}, dis : SUBSET U,
                     held : IF Kind = "key" /\ r = "server" THEN SUBSET U ELSE {U},
                     moduli : IF Kind = "kex" /\ r = "server" /\ Gex # {} THEN BOOLEAN ELSE {TRUE},
                     strict : IF Kind = "kex" THEN StrictOpts ELSE {TRUE}, list : {<<>>}]
AlienConfs       == [alien : {TRUE}, pref : {<<>>}, dis : {{}}, held : {{}}, moduli : {TRUE}, strict : {FALSE},
                     list : ListsUpTo(U \cup Alien, MaxAlienLen)]

Init == /\ conf \in {[client |-> c, server |-> s] :
                        c \in ParamikoConfs("client") \cup AlienConfs,
                        s \in ParamikoConfs("server") \cup AlienConfs}
        /\ ~(conf.client.alien /\ conf.server.alien)
        /\ sent = {} /\ wire = [r \in Roles |-> <<>>] /\ out = [r \in Roles |-> <<"pending">>]

SendKexInit(r) ==
    /\ r \notin sent
    /\ sent' = sent \cup {r}
    /\ wire' = [wire EXCEPT ![r] = IF conf[r].alien THEN conf[r].list ELSE Advertise(Kind, r, conf[r])]
    /\ UNCHANGED <<conf, out>>

ParseKexInit(r) ==
    /\ ~conf[r].alien /\ r \in sent /\ Peer(r) \in sent /\ out[r] = <<"pending">>
    /\ out' = [out EXCEPT ![r] = Decide(Kind, r, conf[r], wire[Peer(r)])]
    /\ UNCHANGED <<conf, sent, wire>>

Next == \E r \in Roles : SendKexInit(r) \/ ParseKexInit(r)
Spec == Init /\ [][Next]_vars

(* ---- properties (C05) ------------------------------------------------------ *)
Decided(r) == out[r] # <<"pending">>
Agreed     == FirstCommon(wire.client, wire.server)
\* the agreed algorithm is the first one in the client's list that the server also offers;
\* negotiation fails exactly when there is none
ClientsFirst     == \A r \in Roles : Decided(r) => out[r] = Agreed
PeersAgree       == Decided("client") /\ Decided("server") => out.client = out.server
NeverDisabled    == \A r \in Roles : Decided(r) /\ out[r][1] = "ok" =>
                        /\ out[r][2] \notin conf[r].dis
                        /\ (Kind = "key" /\ r = "server" => out[r][2] \in conf[r].held)
NoMarkerSelected == \A r \in Roles : Decided(r) /\ out[r][1] = "ok" => out[r][2] \notin Markers
\* non-vacuity helpers for the check (reachability of both outcomes)
Finished == \A r \in Roles : conf[r].alien \/ Decided(r)
\* spec -> code replay: one CASE per finished behaviour (the interleaving does not matter to the result)
Emit == Finished => PrintT(<<"CASE", conf, wire, out, Agreed>>)
=============================================================================
