--------------------------- MODULE SftpClientProto ---------------------------
(* Client side of SFTP as implemented by paramiko (C28, C29, C30 client half):      *)
(*   SFTPClient._async_request / _read_response / _finish_responses                  *)
(*       (sftp_client.py:855-924)                                                     *)
(*   SFTPFile._read / _read_prefetch / _write / _close / prefetch / readv /           *)
(*       _start_prefetch / _prefetch_thread / _async_response (sftp_file.py)          *)
(*   BufferedFile.read's loop around _read (file.py:156-212)                          *)
(* One application thread runs a program of file operations; every _start_prefetch   *)
(* spawns a prefetch thread that issues READ requests (with the                       *)
(* max_concurrent_requests busy-wait); one server answers every request, in order,    *)
(* possibly with short reads, EOF statuses and rejected writes.                       *)
(* File contents are identified by their offsets: a buffer (off -> len) holds the     *)
(* file's bytes [off, off+len), so "the bytes returned" is a list of ranges.          *)
EXTENDS Integers, Sequences, FiniteSets, TLC

CONSTANTS FileSize,     \* size of the remote file, in units
          Chunk,        \* SFTPFile.MAX_REQUEST_SIZE in units
          MaxOps,       \* length of the application's program
          Ops,          \* subset of {"prefetch","read","seek","readv","write","stat","close"}
          ReadSizes,    \* sizes for read(n)
          SeekPos,      \* positions for seek(p)
          VOffs, VLens, \* a readv may name the (offset, length) pairs VOffs \X VLens
          MaxV,         \* chunks per readv (1..MaxV)
          Limits,       \* max_concurrent_requests values; 0 = None (no limit)
          MaxThreads,   \* prefetch threads alive at once (bounds the model only)
          WriteFaults,  \* may the server reject a write?
          ShortReads,   \* may the server return fewer bytes than asked?
          PipeLimit,    \* paramiko's 100 outstanding pipelined writes, scaled
          FixClose,     \* TRUE: close() drains outstanding pipelined-write statuses (FixOwner = FALSE only)
          FixOwner,     \* TRUE: pipelined writes are registered under the file object, close() ends with _check_exception()
          FixExtent,    \* TRUE: a STATUS reply to a prefetch request removes its extent
          FixEofSave,   \* TRUE: an EOF status for a prefetch request is not saved as the file's pending exception
          FixEmptyStart,\* TRUE: _start_prefetch with nothing to request does not leave _prefetch_done = FALSE
          BufSize,      \* read buffering of the file (open(..., bufsize)); 0 = none: read(n) asks for max(BufSize, n)
          Whences,      \* subset of {0, 1, 2}: seek(p, SEEK_SET) / seek(+p, SEEK_CUR) / seek(-p, SEEK_END)
          SeekFromRealpos, \* mutation: SEEK_CUR counts from the end of the read-ahead instead of the caller's position
          ReqCap, ReqThresh,   \* flow control client -> server: credit for ReqCap requests, handed back in lumps of
                               \* ReqThresh consumed requests (an SSH window adjust); 0 = unbounded pipe
          RespCap, RespThresh, \* the same server -> client; a credit is handed back when the client has READ a response
          SendUnderLock,\* mutation: _async_request sends the packet while still holding SFTPClient._lock
          IdBeforeLock, \* mutation: _async_request writes request_number into the packet BEFORE taking SFTPClient._lock
          StatusNoWait, \* mutation: a STATUS for a prefetch READ does not wait for the extent to be registered (unknown id = "a write")
          PrefSizes,    \* sizes an application may pass to prefetch(file_size=N) (N <= FileSize: only the head is prefetched)
          SeekEndFromPrefetchSize, \* mutation: while prefetching, seek(.., SEEK_END) uses the size prefetch() worked with, not the file's
          FinishCountsOnce \* mutation: _finish_responses counts the file's outstanding requests once and reads that many packets

None == 0   \* request numbers start at 1
VChunks == VOffs \X VLens

VARIABLES nextreq, expecting, srvq, resp,
          realpos, prefetching, pfdone, extents, pdata, savedExc,
          reqs, werr,           \* outstanding pipelined write ids; has the server rejected any write
          raised,               \* has an IOError been raised to the application
          app,                  \* the application thread (record, see AppIdle)
          nops, closed,
          pfs,                  \* prefetch threads: Seq of [todo, pc ("send" | "reg"), num, cur, maxc]
          obs,                  \* the read that completed last: [pos, want, got, vec] (for the properties)
          rb,                   \* bytes of read-ahead in BufferedFile._rbuffer: the caller's position is realpos - rb
          apos,                 \* ghost: the position the application's calls have asked for (seek / read semantics)
          flow,                 \* flow control and SFTPClient._lock: [rc, rn, sc, sn, lock, inhand]
          psize                 \* the size the running prefetch() was given / found (-1: not prefetching)
proto == <<nextreq, expecting, srvq, resp, flow>>
pfst  == <<prefetching, pfdone, extents, pdata, savedExc>>
bufv  == <<rb, apos, psize>>
vars  == <<nextreq, expecting, srvq, resp, realpos, prefetching, pfdone, extents, pdata, savedExc,
           reqs, werr, raised, app, nops, closed, pfs, obs, rb, apos, flow, psize>>

Min(a, b) == IF a < b THEN a ELSE b
Max(a, b) == IF a < b THEN b ELSE a
Dom(f) == DOMAIN f
Remove(f, k) == [x \in Dom(f) \ {k} |-> f[x]]
Put(f, k, v) == [x \in Dom(f) \cup {k} |-> IF x = k THEN v ELSE f[x]]
Empty == [x \in {} |-> 0]
RemoveAt(s, i) == [j \in 1..(Len(s) - 1) |-> IF j < i THEN s[j] ELSE s[j + 1]]

AppIdle == [pc |-> "idle", rpos |-> 0, want |-> 0, got |-> 0, vq |-> <<>>, vec |-> FALSE, num |-> None]
NoObs == [pos |-> 0, want |-> 0, got |-> 0, vec |-> FALSE, set |-> FALSE]
NoPkt == [num |-> None, kind |-> "none", len |-> 0, rk |-> "none", off |-> 0]

Init ==
  /\ nextreq = 1 /\ expecting = Empty /\ srvq = <<>> /\ resp = <<>>
  /\ realpos = 0 /\ prefetching = FALSE /\ pfdone = FALSE /\ extents = Empty /\ pdata = Empty
  /\ savedExc = "none" /\ reqs = <<>> /\ werr = FALSE /\ raised = FALSE
  /\ app = AppIdle /\ nops = 0 /\ closed = FALSE /\ pfs = <<>> /\ obs = NoObs
  /\ rb = 0 /\ apos = 0 /\ psize = -1
  /\ flow = [rc |-> ReqCap, rn |-> 0, sc |-> RespCap, sn |-> 0, lock |-> FALSE, inhand |-> NoPkt]

\* flow control: a sender needs credit; the receiver hands consumed credit back in lumps
ReqRoom  == ReqCap = 0 \/ flow.rc > 0
RespRoom == RespCap = 0 \/ flow.sc > 0
TakeReqCredit(f)  == IF ReqCap = 0 THEN f ELSE [f EXCEPT !.rc = @ - 1]
ConsumeReq(f)  == IF ReqCap = 0 THEN f
                  ELSE IF f.rn + 1 >= ReqThresh THEN [f EXCEPT !.rc = @ + f.rn + 1, !.rn = 0] ELSE [f EXCEPT !.rn = @ + 1]
ConsumeResp(f) == IF RespCap = 0 THEN f
                  ELSE IF f.sn + 1 >= RespThresh THEN [f EXCEPT !.sc = @ + f.sn + 1, !.sn = 0] ELSE [f EXCEPT !.sn = @ + 1]

\* _async_request (application thread): take SFTPClient._lock, allocate a number, register the owner, release,
\* put the request on the wire (blocks while the peer grants no credit)
AsyncReq(owner, kind, off, len) ==
  /\ ~flow.lock /\ ReqRoom
  /\ flow' = TakeReqCredit(flow)
  /\ expecting' = Put(expecting, nextreq, owner)
  /\ srvq' = Append(srvq, [num |-> nextreq, kind |-> kind, off |-> off, len |-> len])
  /\ nextreq' = nextreq + 1

(* ------------------------------ server ------------------------------ *)
Serve ==
  /\ srvq # <<>> /\ RespRoom
  /\ flow' = ConsumeReq(IF RespCap = 0 THEN flow ELSE [flow EXCEPT !.sc = @ - 1])
  /\ LET q == Head(srvq) IN
       \E r \in
          (CASE q.kind = "read" ->
                  IF q.off >= FileSize THEN {[num |-> q.num, kind |-> "eof", len |-> 0, rk |-> "read", off |-> q.off]}
                  ELSE LET full == Min(q.len, FileSize - q.off) IN
                       {[num |-> q.num, kind |-> "data", len |-> k, rk |-> "read", off |-> q.off] :
                            k \in (IF ShortReads THEN 1..full ELSE {full})}
             [] q.kind = "write" ->
                  {[num |-> q.num, kind |-> "ok", len |-> 0, rk |-> "write", off |-> 0]} \cup
                  (IF WriteFaults THEN {[num |-> q.num, kind |-> "err", len |-> 0, rk |-> "write", off |-> 0]} ELSE {})
             [] OTHER -> {[num |-> q.num, kind |-> "ok", len |-> 0, rk |-> q.kind, off |-> 0]}) :
          /\ resp' = Append(resp, r)
          /\ werr' = (werr \/ (q.kind = "write" /\ r.kind = "err"))
  /\ srvq' = Tail(srvq)
  /\ UNCHANGED <<nextreq, expecting, realpos, pfst, reqs, raised, app, nops, closed, pfs, obs, bufv>>

(* ------------------------------ prefetch threads ------------------------------ *)
\* the busy-wait of _prefetch_thread: issue only while fewer than maxc extents are registered
PfMayIssue(t) == t.maxc = 0 \/ Cardinality(Dom(extents)) < t.maxc
PfWants(i) == pfs[i].todo # <<>> /\ PfMayIssue(pfs[i])
PfSendEnabled(i) == \/ (pfs[i].pc = "send" /\ ~IdBeforeLock /\ PfWants(i) /\ ~flow.lock /\ ReqRoom)
                    \/ (pfs[i].pc = "built" /\ ~flow.lock /\ ReqRoom)
                    \/ (pfs[i].pc = "locked" /\ ReqRoom)
\* the mutation IdBeforeLock: msg.add_int(self.request_number) happens before the lock is taken
PfBuild(i) ==
  /\ IdBeforeLock /\ pfs[i].pc = "send" /\ PfWants(i)
  /\ pfs' = [pfs EXCEPT ![i] = [@ EXCEPT !.pc = "built", !.num = nextreq]]
  /\ UNCHANGED <<proto, realpos, pfst, reqs, werr, raised, app, nops, closed, obs, bufv>>
PfSend(i) ==    \* num = self.sftp._async_request(self, CMD_READ, ...): the packet carries the id that was written into it,
                \* the request is registered (and later found in _prefetch_extents) under the number allocated under the lock
  /\ PfSendEnabled(i)
  /\ expecting' = Put(expecting, nextreq, "file")
  /\ srvq' = Append(srvq, [num |-> IF pfs[i].pc = "built" THEN pfs[i].num ELSE nextreq, kind |-> "read",
                            off |-> Head(pfs[i].todo)[1], len |-> Head(pfs[i].todo)[2]])
  /\ nextreq' = nextreq + 1
  /\ flow' = [TakeReqCredit(flow) EXCEPT !.lock = FALSE]
  /\ pfs' = [pfs EXCEPT ![i] = [@ EXCEPT !.pc = "reg", !.num = nextreq, !.cur = Head(pfs[i].todo),
                                         !.todo = Tail(pfs[i].todo)]]
  /\ UNCHANGED <<resp, realpos, pfst, reqs, werr, raised, app, nops, closed, obs, bufv>>
\* the mutation: the thread has taken SFTPClient._lock and now sits in send() with no credit, still holding it
PfBlockHoldingLock(i) ==
  /\ SendUnderLock /\ pfs[i].pc = "send" /\ PfWants(i) /\ ~flow.lock /\ ~ReqRoom
  /\ pfs' = [pfs EXCEPT ![i] = [@ EXCEPT !.pc = "locked"]]
  /\ flow' = [flow EXCEPT !.lock = TRUE]
  /\ UNCHANGED <<nextreq, expecting, srvq, resp, realpos, pfst, reqs, werr, raised, app, nops, closed, obs, bufv>>
PfRegister(i) ==  \* with self._prefetch_lock: self._prefetch_extents[num] = (offset, length)
  /\ pfs[i].pc = "reg"
  /\ extents' = Put(extents, pfs[i].num, pfs[i].cur)
  /\ pfs' = IF pfs[i].todo = <<>> THEN RemoveAt(pfs, i)            \* thread ends
            ELSE [pfs EXCEPT ![i] = [@ EXCEPT !.pc = "send"]]
  /\ UNCHANGED <<proto, realpos, prefetching, pfdone, pdata, savedExc, reqs, werr, raised, app, nops, closed, obs, bufv>>
PfCanMove == \E i \in 1..Len(pfs) : PfSendEnabled(i) \/ pfs[i].pc = "reg" \/ (IdBeforeLock /\ pfs[i].pc = "send" /\ PfWants(i))

(* ------------------------------ application thread ------------------------------ *)
\* SFTPFile._data_in_prefetch_buffers(o): the key of the buffer holding offset o, or -1
BufFor(o) == LET ks == {k \in Dom(pdata) : k <= o} IN
             IF ks = {} THEN -1
             ELSE LET idx == CHOOSE k \in ks : \A j \in ks : j <= k IN
                  IF o - idx >= pdata[idx] THEN -1 ELSE idx
\* readv's test `if self._data_in_prefetch_buffers(offset) or ...` (an index of 0 is falsy)
InBufTruthy(o) == BufFor(o) # -1 /\ BufFor(o) # 0
\* SFTPFile._data_in_prefetch_requests(o, sz)
RECURSIVE InRequests(_, _)
InRequests(o, sz) ==
  LET ks == {n \in Dom(extents) : extents[n][1] <= o} IN
  IF ks = {} THEN FALSE
  ELSE LET n == CHOOSE m \in ks : \A j \in ks : extents[j][1] <= extents[m][1]
           bo == extents[n][1]  bs == extents[n][2]
       IN IF bo + bs <= o THEN FALSE
          ELSE IF bo + bs >= o + sz THEN TRUE
          ELSE InRequests(bo + bs, o + sz - bo - bs)

\* break a (offset, size) chunk into requests of at most Chunk
RECURSIVE Split(_, _)
Split(o, sz) == IF sz <= 0 THEN <<>> ELSE <<<<o, Min(sz, Chunk)>>>> \o Split(o + Min(sz, Chunk), sz - Min(sz, Chunk))
RECURSIVE Plan(_)
Plan(cs) == IF cs = <<>> THEN <<>>
            ELSE (IF InBufTruthy(Head(cs)[1]) \/ InRequests(Head(cs)[1], Head(cs)[2]) THEN <<>>
                  ELSE Split(Head(cs)[1], Head(cs)[2])) \o Plan(Tail(cs))

\* SFTPFile._async_response(t, msg, num); data (and, repaired, status) replies wait for the extent to be registered
AsyncResponseEnabled(r) ==
  r.rk # "read" \/ (r.kind # "data" /\ (~FixExtent \/ StatusNoWait)) \/ r.num \in Dom(extents)
AsyncResponse(r) ==
  IF r.kind # "data" /\ StatusNoWait /\ r.rk = "read" /\ r.num \notin Dom(extents)
    THEN \* the mutation: the id is not (yet) in _prefetch_extents, so the status is taken for a write's: any failure,
         \* EOF included, becomes the file's pending exception, and the extent registered afterwards is never removed
         /\ savedExc' = IF r.kind = "ok" THEN savedExc ELSE IF r.kind = "eof" THEN "eof" ELSE "err"
         /\ UNCHANGED <<extents, pfdone, pdata>>
  ELSE IF r.kind # "data"
    THEN /\ savedExc' = IF r.kind = "ok" THEN savedExc
                        ELSE IF r.kind = "eof" THEN (IF FixEofSave THEN savedExc ELSE "eof") ELSE "err"
         /\ extents' = IF FixExtent /\ r.rk = "read" THEN Remove(extents, r.num) ELSE extents
         /\ pfdone' = IF FixExtent /\ r.rk = "read" /\ Dom(extents) = {r.num} THEN TRUE ELSE pfdone
         /\ UNCHANGED pdata
    ELSE /\ pdata' = Put(pdata, extents[r.num][1], r.len)
         /\ extents' = Remove(extents, r.num)
         /\ pfdone' = IF Dom(extents) = {r.num} THEN TRUE ELSE pfdone
         /\ UNCHANGED savedExc

\* One iteration of SFTPClient._read_response(waitfor): Got(r) = the application's state when the awaited
\* response r arrives, onNone = its state when a single check (waitfor = None) returns
\* _read_packet() first (that frees the peer's credit), then SFTPClient._lock for the lookup in _expecting.  When the
\* lock is held by a sender the packet already read stays in the reader's hand (flow.inhand, see AppTakeBlocked).
ReadRespStep(waitfor, Got(_), onNone) ==
  /\ (flow.inhand.num # None \/ resp # <<>>) /\ ~flow.lock
  /\ LET r == IF flow.inhand.num # None THEN flow.inhand ELSE Head(resp) IN
     /\ resp' = IF flow.inhand.num # None THEN resp ELSE Tail(resp)
     /\ flow' = IF flow.inhand.num # None THEN [flow EXCEPT !.inhand = NoPkt] ELSE ConsumeResp(flow)
     /\ IF r.num \notin Dom(expecting)
          THEN /\ app' = IF waitfor = None THEN onNone ELSE app
               /\ UNCHANGED <<expecting, extents, pdata, pfdone, savedExc>>
          ELSE /\ expecting' = Remove(expecting, r.num)
               /\ IF r.num = waitfor
                    THEN /\ app' = Got(r)
                         /\ UNCHANGED <<extents, pdata, pfdone, savedExc>>
                    ELSE /\ IF expecting[r.num] = "file"
                              THEN AsyncResponseEnabled(r) /\ AsyncResponse(r)
                              ELSE UNCHANGED <<extents, pdata, pfdone, savedExc>>   \* owner NoneType: dropped
                         /\ app' = IF waitfor = None THEN onNone ELSE app

\* ---- BufferedFile.read(want) at rpos: loop of _read until `want` bytes or EOF ----
\* `got` counts the bytes in _rbuffer (including read-ahead); the call returns the first `want` of them
ReadDone(a) == [AppIdle EXCEPT !.pc = IF a.vq # <<>> THEN "rv_next" ELSE "idle", !.vq = a.vq]
Result(a) == Min(a.want, a.got)
ObsOf(a) == [pos |-> a.rpos, want |-> a.want, got |-> Result(a), vec |-> a.vec, set |-> TRUE]
Finished(a) == /\ app' = ReadDone(a) /\ obs' = ObsOf(a)          \* read() returns
               /\ rb' = a.got - Result(a) /\ apos' = apos + Result(a) /\ UNCHANGED psize
Failed(a)   == /\ app' = AppIdle /\ raised' = TRUE                \* IOError out of read(): what was fetched stays buffered
               /\ rb' = a.got /\ UNCHANGED <<apos, obs, psize>>
\* the size BufferedFile.read passes to _read, capped by SFTPFile._read at MAX_REQUEST_SIZE
Ask(a) == Min(IF BufSize > 0 THEN Max(BufSize, a.want - a.got) ELSE a.want - a.got, Chunk)

RdLoop ==     \* while len(self._rbuffer) < size: new_data = self._read(read_size)
  /\ app.pc = "rd_loop"
  /\ IF app.got >= app.want
       THEN /\ Finished(app)
            /\ UNCHANGED <<proto, prefetching>>
       ELSE IF prefetching
         THEN /\ app' = [app EXCEPT !.pc = "pf_loop"] /\ UNCHANGED <<proto, prefetching, obs, bufv>>
         ELSE IF IdBeforeLock
           THEN /\ app' = [app EXCEPT !.pc = "rd_built", !.num = nextreq]      \* id written into the packet, lock not yet taken
                /\ UNCHANGED <<proto, prefetching, obs, bufv>>
           ELSE /\ AsyncReq("sync", "read", realpos, Ask(app))
                /\ app' = [app EXCEPT !.pc = "wait_read", !.num = nextreq]
                /\ UNCHANGED <<resp, prefetching, obs, bufv>>
  /\ UNCHANGED <<realpos, pfdone, extents, pdata, savedExc, reqs, werr, raised, nops, closed, pfs>>
RdSendBuilt ==   \* (mutation) register under the number allocated now, send the packet built earlier
  /\ app.pc = "rd_built" /\ ~flow.lock /\ ReqRoom
  /\ flow' = TakeReqCredit(flow)
  /\ expecting' = Put(expecting, nextreq, "sync")
  /\ srvq' = Append(srvq, [num |-> app.num, kind |-> "read", off |-> realpos, len |-> Ask(app)])
  /\ nextreq' = nextreq + 1
  /\ app' = [app EXCEPT !.pc = "wait_read", !.num = nextreq]
  /\ UNCHANGED <<resp, realpos, pfst, reqs, werr, raised, nops, closed, pfs, obs, bufv>>

\* _read_prefetch loop (sftp_file.py:149-177)
PfLoopHit ==      \* data for realpos is buffered: consume (up to the asked size) and return it
  /\ app.pc = "pf_loop" /\ BufFor(realpos) # -1
  /\ LET idx == BufFor(realpos)
         avail == pdata[idx] - (realpos - idx)
         k == Min(avail, Ask(app))
         rest == Remove(pdata, idx)
         withHead == IF realpos > idx THEN Put(rest, idx, realpos - idx) ELSE rest
         withTail == IF k < avail THEN Put(withHead, realpos + k, avail - k) ELSE withHead
     IN /\ pdata' = withTail /\ realpos' = realpos + k
        /\ app' = [app EXCEPT !.pc = "rd_loop", !.got = app.got + k]
  /\ UNCHANGED <<proto, prefetching, pfdone, extents, savedExc, reqs, werr, raised, nops, closed, pfs, obs, bufv>>
PfLoopGiveUp ==   \* nothing buffered and prefetch finished: self._prefetching = False; fall back to a plain read
  /\ app.pc = "pf_loop" /\ BufFor(realpos) = -1 /\ pfdone
  /\ prefetching' = FALSE
  /\ IF IdBeforeLock
       THEN app' = [app EXCEPT !.pc = "rd_built", !.num = nextreq] /\ UNCHANGED proto
       ELSE /\ AsyncReq("sync", "read", realpos, Ask(app))
            /\ app' = [app EXCEPT !.pc = "wait_read", !.num = nextreq]
            /\ UNCHANGED resp
  /\ psize' = -1
  /\ UNCHANGED <<realpos, pfdone, extents, pdata, savedExc, reqs, werr, raised, nops, closed, pfs, obs, rb, apos>>
PfLoopWait ==     \* self.sftp._read_response(); self._check_exception()
  /\ app.pc = "pf_loop" /\ BufFor(realpos) = -1 /\ ~pfdone
  /\ LET nxt == [app EXCEPT !.pc = "pf_check"] IN
       ReadRespStep(None, LAMBDA r : nxt, nxt)
  /\ UNCHANGED <<nextreq, srvq, realpos, prefetching, reqs, werr, raised, nops, closed, pfs, obs, bufv>>
PfCheck ==
  /\ app.pc = "pf_check"
  /\ IF savedExc = "eof"          \* EOFError leaves _read; BufferedFile.read takes it for end of file
       THEN /\ savedExc' = "none" /\ Finished(app) /\ UNCHANGED raised
     ELSE IF savedExc = "err"     \* IOError propagates to the application (a readv generator dies with it)
       THEN /\ savedExc' = "none" /\ Failed(app)
     ELSE /\ app' = [app EXCEPT !.pc = "pf_loop"] /\ UNCHANGED <<savedExc, raised, obs, bufv>>
  /\ UNCHANGED <<proto, realpos, prefetching, pfdone, extents, pdata, reqs, werr, nops, closed, pfs>>
WaitRead ==       \* t, msg = self.sftp._request(CMD_READ, ...)
  /\ app.pc = "wait_read"
  /\ ReadRespStep(app.num,
                  LAMBDA r : IF r.kind = "data" THEN [app EXCEPT !.pc = "rd_got", !.num = r.len]
                             ELSE IF r.kind = "eof" THEN [app EXCEPT !.pc = "rd_eof"]
                             ELSE [app EXCEPT !.pc = "rd_err"],
                  app)
  /\ UNCHANGED <<nextreq, srvq, realpos, prefetching, reqs, werr, raised, nops, closed, pfs, obs, bufv>>
RdGot ==
  /\ app.pc \in {"rd_got", "rd_eof", "rd_err"}
  /\ CASE app.pc = "rd_got" -> /\ realpos' = realpos + app.num
                               /\ app' = [app EXCEPT !.pc = "rd_loop", !.got = app.got + app.num, !.num = None]
                               /\ UNCHANGED <<raised, obs, bufv>>
       [] app.pc = "rd_eof" -> /\ Finished(app) /\ UNCHANGED <<realpos, raised>>
       [] app.pc = "rd_err" -> /\ Failed(app) /\ UNCHANGED realpos
  /\ UNCHANGED <<proto, pfst, reqs, werr, nops, closed, pfs>>

\* ---- _start_prefetch(chunks, maxc) ----
StartPrefetch(chunks, maxc) ==
  /\ prefetching' = TRUE
  /\ pfdone' = (FixEmptyStart /\ chunks = <<>> /\ Dom(extents) = {})
  /\ pfs' = IF chunks = <<>> THEN pfs
            ELSE Append(pfs, [todo |-> chunks, pc |-> "send", num |-> None, cur |-> <<0, 0>>, maxc |-> maxc])

RvNext ==        \* for x in chunks: self.seek(x[0]); yield self.read(x[1])
  /\ app.pc = "rv_next"
  /\ IF app.vq = <<>> THEN app' = AppIdle /\ UNCHANGED <<realpos, bufv>>
     ELSE /\ realpos' = Head(app.vq)[1] /\ rb' = 0 /\ apos' = Head(app.vq)[1] /\ UNCHANGED psize
          /\ app' = [AppIdle EXCEPT !.pc = "rd_loop", !.rpos = Head(app.vq)[1], !.want = Head(app.vq)[2],
                                    !.vq = Tail(app.vq), !.vec = TRUE]
  /\ UNCHANGED <<proto, pfst, reqs, werr, raised, nops, closed, pfs, obs>>

VSeqs == UNION {[1..n -> VChunks] : n \in 1..MaxV}
PrefetchChunksTo(fsz) == LET n == (fsz - realpos + Chunk - 1) \div Chunk IN
                  [i \in 1..(IF realpos < fsz THEN n ELSE 0) |->
                      <<realpos + (i - 1) * Chunk, Min(Chunk, fsz - (realpos + (i - 1) * Chunk))>>]
PrefetchChunks == PrefetchChunksTo(FileSize)

\* ---- op start ----
StartOp(op) ==
  /\ app.pc = "idle" /\ nops < MaxOps /\ ~closed /\ op \in Ops
  /\ nops' = nops + 1
  /\ CASE op = "prefetch" ->          \* SFTPFile.prefetch(file_size, maxc)
            /\ Len(pfs) < MaxThreads
            /\ \E maxc \in Limits, fsz \in PrefSizes :
                 IF PrefetchChunksTo(fsz) = <<>> THEN UNCHANGED <<pfs, prefetching, pfdone, psize>>
                 ELSE StartPrefetch(PrefetchChunksTo(fsz), maxc) /\ psize' = fsz
            /\ obs' = NoObs /\ UNCHANGED <<app, proto, realpos, reqs, closed, rb, apos>>
       [] op = "read" ->              \* BufferedFile.read(n) at the caller's position realpos - rb
            /\ \E n \in ReadSizes :
                 IF n <= rb          \* served from the read-ahead buffer
                   THEN /\ rb' = rb - n /\ apos' = apos + n /\ UNCHANGED <<app, psize>>
                        /\ obs' = [pos |-> realpos - rb, want |-> n, got |-> n, vec |-> FALSE, set |-> TRUE]
                   ELSE /\ app' = [AppIdle EXCEPT !.pc = "rd_loop", !.rpos = realpos - rb, !.want = n, !.got = rb]
                        /\ rb' = 0 /\ obs' = NoObs /\ UNCHANGED <<apos, psize>>
            /\ UNCHANGED <<proto, pfs, prefetching, pfdone, realpos, reqs, closed>>
       [] op = "seek" ->              \* SFTPFile.seek(offset, whence); the read-ahead is dropped
            /\ \E p \in SeekPos, w \in Whences :
                 LET here == IF SeekFromRealpos THEN realpos ELSE realpos - rb
                     fsize == IF SeekEndFromPrefetchSize /\ psize >= 0 THEN psize ELSE FileSize   \* _get_size(): an FSTAT
                     target == CASE w = 0 -> p [] w = 1 -> here + p [] OTHER -> fsize - p
                     asked  == CASE w = 0 -> p [] w = 1 -> apos + p [] OTHER -> FileSize - p
                 IN target >= 0 /\ asked >= 0 /\ realpos' = target /\ apos' = asked /\ rb' = 0 /\ UNCHANGED psize
            /\ obs' = NoObs /\ UNCHANGED <<app, proto, pfs, prefetching, pfdone, reqs, closed>>
       [] op = "readv" ->             \* SFTPFile.readv(chunks, maxc)
            /\ Len(pfs) < MaxThreads
            /\ \E cs \in VSeqs, maxc \in Limits :
                 /\ StartPrefetch(Plan(cs), maxc)
                 /\ app' = [AppIdle EXCEPT !.pc = "rv_next", !.vq = cs]
            /\ obs' = NoObs /\ UNCHANGED <<proto, realpos, reqs, closed, bufv>>
       [] op = "write" ->             \* pipelined SFTPFile._write
            /\ AsyncReq(IF FixOwner THEN "file" ELSE "nobody", "write", realpos, 1)
            /\ reqs' = Append(reqs, nextreq)
            /\ app' = IF Len(reqs) + 1 > PipeLimit /\ resp # <<>>      \* ... and self.sftp.sock.recv_ready()
                        THEN [AppIdle EXCEPT !.pc = "drain"] ELSE app
            /\ obs' = NoObs /\ UNCHANGED <<resp, pfs, prefetching, pfdone, realpos, closed, bufv>>
       [] op = "writeB" ->            \* a pipelined write on ANOTHER file object of the same session (owner "fileB")
            /\ AsyncReq("fileB", "writeB", 0, 1) /\ UNCHANGED app
            /\ obs' = NoObs /\ UNCHANGED <<resp, pfs, prefetching, pfdone, realpos, reqs, closed, bufv>>
       [] op = "stat" ->              \* any synchronous request (stat / listdir / chmod / ...)
            /\ AsyncReq("sync", "stat", 0, 0) /\ app' = [AppIdle EXCEPT !.pc = "wait_sync", !.num = nextreq]
            /\ obs' = NoObs /\ UNCHANGED <<resp, pfs, prefetching, pfdone, realpos, reqs, closed, bufv>>
       [] op = "close" ->             \* SFTPFile._close
            /\ IF FixOwner
                 THEN /\ app' = [AppIdle EXCEPT !.pc = "finish",
                                                  !.num = Cardinality({n \in Dom(expecting) : expecting[n] = "file"})]
                      /\ UNCHANGED proto
               ELSE IF FixClose /\ reqs # <<>>
                 THEN app' = [AppIdle EXCEPT !.pc = "drain_close"] /\ UNCHANGED proto
                 ELSE /\ AsyncReq("sync", "close", 0, 0) /\ UNCHANGED resp    \* _finish_responses(self): nothing registered
                      /\ app' = [AppIdle EXCEPT !.pc = "wait_close", !.num = nextreq]
            /\ obs' = NoObs /\ UNCHANGED <<pfs, prefetching, pfdone, realpos, reqs, closed, bufv>>
  /\ UNCHANGED <<extents, pdata, savedExc, werr, raised>>

\* ---- other continuations ----
WaitSync ==  \* _request: self._read_response(num)
  /\ app.pc \in {"wait_sync", "wait_close"}
  /\ ReadRespStep(app.num, LAMBDA r : [AppIdle EXCEPT !.pc = IF app.pc = "wait_close" THEN "closed" ELSE "idle"], app)
  /\ UNCHANGED <<nextreq, srvq, realpos, prefetching, reqs, werr, raised, nops, closed, pfs, obs, bufv>>
Closed == /\ app.pc = "closed" /\ closed' = TRUE /\ app' = AppIdle
          /\ UNCHANGED <<proto, realpos, pfst, reqs, werr, raised, nops, pfs, obs, bufv>>

\* draining pipelined write statuses: while len(self._reqs): req = popleft(); _read_response(req)
DrainSkip ==   \* repaired _write/_close: an id whose status was already consumed elsewhere is not awaited
  /\ app.pc \in {"drain", "drain_close"} /\ reqs # <<>> /\ FixOwner /\ Head(reqs) \notin Dom(expecting)
  /\ reqs' = Tail(reqs)
  /\ UNCHANGED <<proto, realpos, pfst, werr, raised, app, nops, closed, pfs, obs, bufv>>
Drain ==
  /\ app.pc \in {"drain", "drain_close"} /\ reqs # <<>>
  /\ ~(FixOwner /\ Head(reqs) \notin Dom(expecting))
  /\ ReadRespStep(Head(reqs), LAMBDA r : [app EXCEPT !.pc = IF r.kind = "err" THEN "drain_err" ELSE "drained1"], app)
  /\ UNCHANGED <<nextreq, srvq, realpos, prefetching, reqs, werr, raised, nops, closed, pfs, obs, bufv>>
Drained1 ==
  /\ app.pc \in {"drained1", "drain_err"}
  /\ reqs' = Tail(reqs)
  /\ raised' = (raised \/ app.pc = "drain_err")          \* _convert_status raises IOError out of write()/close()
  /\ app' = IF app.pc = "drain_err" THEN AppIdle ELSE [app EXCEPT !.pc = "drain"]
  /\ UNCHANGED <<proto, realpos, pfst, werr, nops, closed, pfs, obs, bufv>>
DrainEnd ==
  /\ app.pc \in {"drain", "drain_close"} /\ reqs = <<>>
  /\ IF app.pc = "drain_close"
       THEN /\ AsyncReq("sync", "close", 0, 0) /\ UNCHANGED resp
            /\ app' = [AppIdle EXCEPT !.pc = "wait_close", !.num = nextreq]
       ELSE app' = AppIdle /\ UNCHANGED proto
  /\ UNCHANGED <<realpos, pfst, reqs, werr, raised, nops, closed, pfs, obs, bufv>>

\* repaired close: _finish_responses(self) - while self in _expecting.values(): _read_response(); _check_exception() -
\* then a final _check_exception(), then CMD_CLOSE
Finish ==
  /\ app.pc = "finish"
  /\ IF (IF FinishCountsOnce THEN app.num > 0 ELSE \E n \in Dom(expecting) : expecting[n] = "file")
       THEN /\ LET nxt == [app EXCEPT !.pc = "finish_check", !.num = IF app.num > 0 THEN app.num - 1 ELSE 0]
               IN ReadRespStep(None, LAMBDA r : nxt, nxt)
            /\ UNCHANGED <<nextreq, srvq, raised, reqs>>
       ELSE IF savedExc # "none"
         THEN /\ raised' = (raised \/ savedExc = "err") /\ savedExc' = "none" /\ app' = AppIdle
              /\ UNCHANGED <<proto, extents, pdata, pfdone, reqs>>
         ELSE /\ AsyncReq("sync", "close", 0, 0) /\ app' = [AppIdle EXCEPT !.pc = "wait_close", !.num = nextreq]
              /\ reqs' = <<>>
              /\ UNCHANGED <<resp, extents, pdata, pfdone, savedExc, raised>>
  /\ UNCHANGED <<realpos, prefetching, werr, nops, closed, pfs, obs, bufv>>
FinishCheck ==
  /\ app.pc = "finish_check"
  /\ IF savedExc # "none"
       THEN /\ raised' = (raised \/ savedExc = "err") /\ savedExc' = "none" /\ app' = AppIdle
       ELSE app' = [app EXCEPT !.pc = "finish"] /\ UNCHANGED <<savedExc, raised>>
  /\ UNCHANGED <<proto, realpos, prefetching, pfdone, extents, pdata, reqs, werr, nops, closed, pfs, obs, bufv>>

\* the reader has a packet in its hand and waits for SFTPClient._lock (only a sender stuck in send() holds it that long)
AppWaitsToRead == \/ app.pc \in {"wait_sync", "wait_read", "wait_close"}
                  \/ (app.pc \in {"drain", "drain_close"} /\ reqs # <<>> /\ ~(FixOwner /\ Head(reqs) \notin Dom(expecting)))
                  \/ (app.pc = "finish" /\ (IF FinishCountsOnce THEN app.num > 0 ELSE \E n \in Dom(expecting) : expecting[n] = "file"))
                  \/ (app.pc = "pf_loop" /\ BufFor(realpos) = -1 /\ ~pfdone)
AppTakeBlocked ==
  /\ AppWaitsToRead /\ flow.lock /\ flow.inhand.num = None /\ resp # <<>>
  /\ resp' = Tail(resp)
  /\ flow' = [ConsumeResp(flow) EXCEPT !.inhand = Head(resp)]
  /\ UNCHANGED <<nextreq, expecting, srvq, realpos, pfst, reqs, werr, raised, app, nops, closed, pfs, obs, bufv>>

Next == \/ \E op \in Ops : StartOp(op)
        \/ RdLoop \/ RdSendBuilt \/ PfLoopHit \/ PfLoopGiveUp \/ PfLoopWait \/ PfCheck \/ WaitRead \/ RdGot \/ RvNext
        \/ WaitSync \/ Closed \/ Drain \/ DrainSkip \/ Drained1 \/ DrainEnd \/ Finish \/ FinishCheck
        \/ Serve \/ AppTakeBlocked \/ \E i \in 1..Len(pfs) : PfSend(i) \/ PfRegister(i) \/ PfBlockHoldingLock(i) \/ PfBuild(i)
Spec == Init /\ [][Next]_vars

(* ------------------------------ properties ------------------------------ *)
\* C28: what a completed read / readv chunk must have returned (offsets identify bytes, so only the length can be off)
ExpectAt(size, pos, want) == Min(want, Max(0, size - pos))
Expect(pos, want) == ExpectAt(FileSize, pos, want)
ReadExact == obs.set => obs.got = Expect(obs.pos, obs.want)
\* C30 (client half) / C28: with the server answering every request the application is never stuck:
\* when it sits in _read_response something is, or will be, there to read
AppWaiting == AppWaitsToRead
AppCanRead == (flow.inhand.num # None \/ resp # <<>>) /\ ~flow.lock
AppCanTake == flow.lock /\ flow.inhand.num = None /\ resp # <<>>
ServerCanMove == srvq # <<>> /\ RespRoom
NoHang == AppWaiting => (AppCanRead \/ AppCanTake \/ ServerCanMove \/ PfCanMove)
\* C28 "reads (with any seeks) ... at the requested offsets": between calls the file is where the calls put it
PosAgrees == app.pc = "idle" => realpos - rb = apos
\* C28: data that is on its way back belongs to the offset its receiver will file it under
RightBytes == \A i \in 1..Len(resp) :
                 resp[i].kind = "data" =>
                   /\ (app.pc = "wait_read" /\ resp[i].num = app.num => resp[i].off = realpos)
                   /\ (resp[i].num \in Dom(extents) => extents[resp[i].num][1] = resp[i].off)
\* C29: a rejected pipelined write is reported no later than close()
WriteErrorSurfaces == closed => (werr => raised)
=============================================================================
