------------------------------ MODULE Shutdown ------------------------------
(* C13 - blocking calls return once the connection ends.                      *)
(*                                                                            *)
(* One paramiko Transport seen from the calls that block on it:               *)
(*   tt   the transport thread: run()'s read loop, then the shutdown block of *)
(*        run() one statement per action, in code order                       *)
(*        (transport.py: "_active_threads.remove(self)" .. "self.sock.close") *)
(*   cl   a user thread executing Transport.close() (stop_thread, unlink,     *)
(*        sock.close)                                                         *)
(*   w    N user threads, each making one call of a blocking API; every wait  *)
(*        loop is modelled as the code has it: which event / condition it     *)
(*        waits on, whether it polls `active`, who wakes it.                  *)
(* Loss events: peer DISCONNECT, stream EOF, peer close, protocol error (all  *)
(* end the read loop), local close(), exit of a ProxyCommand process.         *)
(*                                                                            *)
(* Fix* = FALSE is the pinned code; TRUE the candidate repair.  Omit leaves   *)
(* out one statement of the shutdown block (sensitivity).                     *)
EXTENDS Naturals, FiniteSets, TLC

CONSTANTS N, Apis, Modes, LossKinds,
          PriorOp,     \* "none" | "shutdown_read": what the application did on the channel before the calls are made.
                       \* shutdown_read() / shutdown(2) set eof_received WITHOUT closing the input pipes ("feign")
          EofGuardOnClose, \* _set_closed closes the input pipes only `if not eof_received` (must be refuted)
          Role,        \* "server" | "client": the role of the modelled transport.  accept() is the same code in both
                       \* (a client gets forwarded-tcpip / x11 / agent channels through it), and so is the shutdown
          WakeOnlyServer, \* the wake-up of accept() at the end of run() is made only `if self.server_mode` (must be refuted)
          FixAccept,   \* accept() tests `active` under the lock; shutdown notifies all, also after close()
          FixEvent,    \* Channel._event_pending does not clear the event of a closed channel
          EventTestOutside, \* (with FixEvent) the "closed?" test of _event_pending is made before Channel.lock is taken
          FixEnsure,   \* ServiceRequestingTransport.ensure_session tests `active` in its sleep loop
          FixProxy,    \* ProxyCommand.recv reports end of file when the process has exited
          ProxyEofNeedsExit, \* ProxyCommand.recv takes an empty read for end of file only once the process has exited:
                       \* a command that closed its stdout and lingers never ends the stream (must be refuted)
          Omit,        \* "none" | "unlink" | "clear" | "notify" | "cl_unlink"
          NoPoll       \* families in {"open", "global", "rekey", "auth"} whose wait is changed to test `active` once on
                       \* entry and then wait on the event alone ({} = the code: every 0.1 s `active` is polled)

VARIABLES active, pclosed, sclosed, tt, cl, loss,
          ch,          \* the user's channel: [linked, closed, event, ready, status]
          completion,  \* Transport.completion_event is set
          authev,      \* "none" (no auth in progress) | "clear" | "set"
          svc,         \* _service_userauth_accepted
          ocreg, ocev, \* callers whose open_channel event is registered / set
          cvwait, cvnote, \* callers inside server_accept_cv.wait / notified
          wpc, wapi, wmode, wres, wphase

vars == <<active, pclosed, sclosed, tt, cl, loss, ch, completion, authev, svc, ocreg, ocev, cvwait, cvnote,
          wpc, wapi, wmode, wres, wphase>>
shared == <<active, pclosed, sclosed, tt, cl, loss, ch, completion, authev, svc, ocreg, ocev, cvwait, cvnote>>

W == 1..N
StreamKinds == {"disconnect", "eof", "peer_close", "proto_error"}
(* a ProxyCommand's stream (the command's stdout) ends when the process exits ("proxy_exit") or when the     *)
(* command closes its stdout and goes on running ("proxy_eof": a relay with half-close semantics)            *)
ProxyKinds == {"proxy_exit", "proxy_eof"}
AllKinds == StreamKinds \cup {"local_close"} \cup ProxyKinds

Family(api) ==
  CASE api \in {"recv", "recv_stderr"} -> "recv"
    [] api \in {"send", "sendall"} -> "send"
    [] api \in {"exec_command", "invoke_shell", "invoke_subsystem", "get_pty"} -> "chanreq"
    [] api = "recv_exit_status" -> "status"
    [] api \in {"open_channel", "open_session"} -> "open"
    [] api \in {"global_request", "request_port_forward"} -> "global"
    [] api = "renegotiate_keys" -> "rekey"
    [] api \in {"auth_password", "auth_publickey", "auth_none", "auth_interactive"} -> "auth"
    (* the same calls on a ServiceRequestingTransport *)
    [] api \in {"srt_auth_password", "srt_auth_publickey", "srt_auth_interactive"} -> "srtauth"
    [] api = "accept" -> "accept"
    (* ProxyCommand.recv / send called directly (what the packetizer does with the socket-like object) *)
    [] api \in {"proxy_recv", "proxy_send"} -> "proxy"
    [] OTHER -> "unknown"

AllApis == {"recv", "recv_stderr", "send", "sendall", "exec_command", "invoke_shell", "invoke_subsystem", "get_pty",
            "recv_exit_status", "open_channel", "open_session", "global_request", "request_port_forward",
            "renegotiate_keys",
            "auth_password", "auth_publickey", "srt_auth_password", "srt_auth_publickey", "accept"}

(* families whose wait honours a caller-supplied timeout *)
HasTimed(f) == f \in {"recv", "send", "open", "auth", "srtauth", "accept", "proxy"}

(* how a call of the family may end (checked against the model by ResultsInTable; the trace spec uses it) *)
Results(f) ==
  CASE f = "recv" -> {"returned", "timeout"}
    [] f = "send" -> {"returned", "raised", "timeout"}
    [] f = "chanreq" -> {"returned", "raised"}
    [] f = "status" -> {"returned"}
    [] f = "open" -> {"returned", "raised", "timeout"}
    [] f = "global" -> {"returned", "raised"}
    [] f = "rekey" -> {"returned", "raised"}
    [] f = "auth" -> {"returned", "raised", "timeout"}
    [] f = "srtauth" -> {"returned", "raised", "timeout"}
    [] f = "accept" -> {"returned", "timeout"}
    [] f = "proxy" -> {"returned", "raised", "timeout"}
    [] OTHER -> {}

(* the statements of run()'s shutdown block, in code order *)
TTOrder == <<"run", "sd_unlink", "sd_test", "sd_clear", "sd_pclose", "sd_completion", "sd_abort", "sd_chanev",
             "sd_notify", "sd_sockclose", "dead">>
TTPos(p) == CHOOSE i \in 1..11 : TTOrder[i] = p
CLOrder == <<"idle", "cl_test", "cl_clear", "cl_pclose", "cl_join", "cl_unlink", "cl_sockclose", "done">>

Entry(api) ==
  CASE Family(api) = "recv" -> "recv_lock"
    [] Family(api) = "send" -> "send_lock"
    [] Family(api) = "chanreq" -> "req_check"
    [] Family(api) = "status" -> "st_wait"
    [] Family(api) = "open" -> "oc_check"
    [] Family(api) = "global" -> "gr_new"
    [] Family(api) = "rekey" -> "rk_new"
    [] Family(api) = "auth" -> "au_check"
    [] Family(api) = "srtauth" -> "es_check"
    [] Family(api) = "accept" -> "ac_lock"
    [] Family(api) = "proxy" -> (IF api = "proxy_send" THEN "px_send" ELSE "px_recv")

TimedWaits == {"recv_wait", "send_wait", "oc_poll", "au_poll", "ac_wait", "px_recv"}

Init ==
  /\ active = TRUE /\ pclosed = FALSE /\ sclosed = FALSE /\ tt = "run" /\ cl = "idle" /\ loss = "none"
  /\ ch = [linked |-> TRUE, closed |-> FALSE, event |-> FALSE, ready |-> FALSE, status |-> FALSE,
           eofr |-> (PriorOp = "shutdown_read"),     \* Channel.eof_received
           pipes |-> FALSE]                          \* in_buffer / in_stderr_buffer closed (what recv waits for)
  /\ completion = TRUE /\ authev = "none" /\ svc = FALSE
  /\ ocreg = {} /\ ocev = {} /\ cvwait = {} /\ cvnote = {}
  /\ wpc = [w \in W |-> "idle"] /\ wapi = [w \in W |-> "none"] /\ wmode = [w \in W |-> "none"]
  /\ wres = [w \in W |-> "none"] /\ wphase = [w \in W |-> "none"]

ShutdownComplete == loss # "none" /\ tt = "dead" /\ cl \in {"idle", "done"}

----------------------------------------------------------------------------
(* loss events *)
Lose(k) ==
  /\ loss = "none" /\ k \in LossKinds
  /\ (k \notin ProxyKinds => \A w \in W : Family(wapi[w]) # "proxy")   \* direct ProxyCommand I/O only meets the proxy's losses
  /\ loss' = k
  /\ cl' = (IF k = "local_close" THEN "cl_test" ELSE cl)
  /\ UNCHANGED <<active, pclosed, sclosed, tt, ch, completion, authev, svc, ocreg, ocev, cvwait, cvnote,
                 wpc, wapi, wmode, wres, wphase>>

(* what the read loop sees: a DISCONNECT message, EOFError from read_all, an SSHException, or - once the      *)
(* packetizer is closed - EOFError at the next 0.1 s socket timeout.  A ProxyCommand whose process has        *)
(* exited keeps raising socket.timeout in the pinned code: the loop never ends.                               *)
(* os.read() on the command's stdout returns b"" in both proxy kinds; what recv() makes of it:               *)
ProxyAtEof == FixProxy /\ (loss = "proxy_exit" \/ (loss = "proxy_eof" /\ ~ProxyEofNeedsExit))
StreamEnded == loss \in StreamKinds \/ ProxyAtEof

Unlinked(c) == IF c.linked /\ ~c.closed
               THEN [c EXCEPT !.closed = TRUE, !.event = TRUE, !.status = TRUE, !.linked = FALSE,
                              !.pipes = IF EofGuardOnClose /\ c.eofr THEN c.pipes ELSE TRUE]
               ELSE c

wvars == <<wpc, wapi, wmode, wres, wphase>>

ReadLoss == /\ tt = "run" /\ (StreamEnded \/ pclosed) /\ tt' = "sd_unlink"
            /\ UNCHANGED <<active, pclosed, sclosed, cl, loss, ch, completion, authev, svc, ocreg, ocev, cvwait, cvnote>>
            /\ UNCHANGED wvars
SdUnlink == /\ tt = "sd_unlink" /\ tt' = "sd_test"
            /\ ch' = (IF Omit = "unlink" THEN ch ELSE Unlinked(ch))
            /\ UNCHANGED <<active, pclosed, sclosed, cl, loss, completion, authev, svc, ocreg, ocev, cvwait, cvnote>>
            /\ UNCHANGED wvars
SdTest == /\ tt = "sd_test"
          /\ tt' = (IF active THEN "sd_clear" ELSE IF FixAccept THEN "sd_notify" ELSE "sd_sockclose")
          /\ UNCHANGED <<active, pclosed, sclosed, cl, loss, ch, completion, authev, svc, ocreg, ocev, cvwait, cvnote>>
          /\ UNCHANGED wvars
SdClear == /\ tt = "sd_clear" /\ tt' = "sd_pclose"
           /\ active' = (IF Omit = "clear" THEN active ELSE FALSE)
           /\ UNCHANGED <<pclosed, sclosed, cl, loss, ch, completion, authev, svc, ocreg, ocev, cvwait, cvnote>>
           /\ UNCHANGED wvars
SdPclose == /\ tt = "sd_pclose" /\ tt' = "sd_completion"
            /\ pclosed' = TRUE /\ sclosed' = TRUE
            /\ UNCHANGED <<active, cl, loss, ch, completion, authev, svc, ocreg, ocev, cvwait, cvnote>>
            /\ UNCHANGED wvars
SdCompletion == /\ tt = "sd_completion" /\ tt' = "sd_abort"
                /\ completion' = TRUE
                /\ UNCHANGED <<active, pclosed, sclosed, cl, loss, ch, authev, svc, ocreg, ocev, cvwait, cvnote>>
                /\ UNCHANGED wvars
SdAbort == /\ tt = "sd_abort" /\ tt' = "sd_chanev"
           /\ authev' = (IF authev = "none" THEN "none" ELSE "set")
           /\ UNCHANGED <<active, pclosed, sclosed, cl, loss, ch, completion, svc, ocreg, ocev, cvwait, cvnote>>
           /\ UNCHANGED wvars
SdChanEv == /\ tt = "sd_chanev" /\ tt' = "sd_notify"
            /\ ocev' = ocev \cup ocreg
            /\ UNCHANGED <<active, pclosed, sclosed, cl, loss, ch, completion, authev, svc, ocreg, cvwait, cvnote>>
            /\ UNCHANGED wvars
(* lock.acquire(); server_accept_cv.notify(); lock.release() - one waiter in the pinned code *)
SdNotify == /\ tt = "sd_notify" /\ tt' = "sd_sockclose"
            /\ IF Omit = "notify" \/ cvwait = {} \/ (WakeOnlyServer /\ Role = "client") THEN UNCHANGED <<cvwait, cvnote>>
               ELSE IF FixAccept THEN cvnote' = cvnote \cup cvwait /\ cvwait' = {}
               ELSE \E x \in cvwait : cvnote' = cvnote \cup {x} /\ cvwait' = cvwait \ {x}
            /\ UNCHANGED <<active, pclosed, sclosed, cl, loss, ch, completion, authev, svc, ocreg, ocev>>
            /\ UNCHANGED wvars
SdSockClose == /\ tt = "sd_sockclose" /\ tt' = "dead" /\ sclosed' = TRUE
               /\ UNCHANGED <<active, pclosed, cl, loss, ch, completion, authev, svc, ocreg, ocev, cvwait, cvnote>>
               /\ UNCHANGED wvars
TTStep == ReadLoss \/ SdUnlink \/ SdTest \/ SdClear \/ SdPclose \/ SdCompletion \/ SdAbort \/ SdChanEv
          \/ SdNotify \/ SdSockClose

(* Transport.close(): if not active: return; stop_thread() [active = False; packetizer.close(); join loop -  *)
(* which ends at once because packetizer.closed]; unlink channels; sock.close()                               *)
ClTest == /\ cl = "cl_test" /\ cl' = (IF active THEN "cl_clear" ELSE "done")
          /\ UNCHANGED <<active, pclosed, sclosed, tt, loss, ch, completion, authev, svc, ocreg, ocev, cvwait, cvnote>>
          /\ UNCHANGED wvars
ClClear == /\ cl = "cl_clear" /\ cl' = "cl_pclose" /\ active' = FALSE
           /\ UNCHANGED <<pclosed, sclosed, tt, loss, ch, completion, authev, svc, ocreg, ocev, cvwait, cvnote>>
           /\ UNCHANGED wvars
ClPclose == /\ cl = "cl_pclose" /\ cl' = "cl_join" /\ pclosed' = TRUE /\ sclosed' = TRUE
            /\ UNCHANGED <<active, tt, loss, ch, completion, authev, svc, ocreg, ocev, cvwait, cvnote>>
            /\ UNCHANGED wvars
ClJoin == /\ cl = "cl_join" /\ cl' = "cl_unlink"
          /\ UNCHANGED <<active, pclosed, sclosed, tt, loss, ch, completion, authev, svc, ocreg, ocev, cvwait, cvnote>>
          /\ UNCHANGED wvars
ClUnlink == /\ cl = "cl_unlink" /\ cl' = "cl_sockclose"
            /\ ch' = (IF Omit = "cl_unlink" THEN ch ELSE Unlinked(ch))
            /\ UNCHANGED <<active, pclosed, sclosed, tt, loss, completion, authev, svc, ocreg, ocev, cvwait, cvnote>>
            /\ UNCHANGED wvars
ClSockClose == /\ cl = "cl_sockclose" /\ cl' = "done" /\ sclosed' = TRUE
               /\ UNCHANGED <<active, pclosed, tt, loss, ch, completion, authev, svc, ocreg, ocev, cvwait, cvnote>>
               /\ UNCHANGED wvars
CLStep == ClTest \/ ClClear \/ ClPclose \/ ClJoin \/ ClUnlink \/ ClSockClose

----------------------------------------------------------------------------
(* callers *)
(* the polling loops leave as soon as `active` is cleared; a loop that only waits for its event depends on    *)
(* the shutdown block setting that event - which close() makes it skip                                        *)
SeesInactive(f) == ~active /\ f \notin NoPoll
(* writing a request to a connection that is already lost may fail in the caller's thread (EOFError /        *)
(* ProxyCommandFailure from the packetizer) or be dropped silently (_send_user_message on an inactive         *)
(* transport)                                                                                                 *)
SendMayFail == loss # "none"
Goto(w, p) == wpc' = [wpc EXCEPT ![w] = p] /\ wres' = wres
Finish(w, r) == wpc' = [wpc EXCEPT ![w] = "done"] /\ wres' = [wres EXCEPT ![w] = r]
Keep == UNCHANGED <<wapi, wmode, wphase>>

PhaseNow == IF loss = "none" THEN "before" ELSE IF ShutdownComplete THEN "after" ELSE "racing"

Call(w, api, mode) ==
  /\ wpc[w] = "idle" /\ api \in Apis /\ mode \in Modes
  /\ (mode = "timed" => HasTimed(Family(api)))
  /\ (Family(api) = "proxy" => loss \in {"none"} \cup ProxyKinds /\ ProxyKinds \cap LossKinds # {})
  /\ wapi' = [wapi EXCEPT ![w] = api] /\ wmode' = [wmode EXCEPT ![w] = mode]
  /\ wphase' = [wphase EXCEPT ![w] = PhaseNow]
  /\ Goto(w, Entry(api))
  /\ UNCHANGED shared

(* Channel.recv -> BufferedPipe.read: under the pipe's lock: closed -> b""; else cv.wait (close() notifies all) *)
RecvLock(w) == /\ wpc[w] = "recv_lock"
               /\ IF ch.pipes THEN Finish(w, "returned") ELSE Goto(w, "recv_wait")
               /\ Keep /\ UNCHANGED shared
RecvWake(w) == /\ wpc[w] = "recv_wait" /\ ch.pipes /\ Finish(w, "returned")
               /\ Keep /\ UNCHANGED shared
(* Channel._send under the channel lock: closed -> socket.error; window left -> the data message goes out via  *)
(* _send_user_message; window 0 -> out_buffer_cv.wait; _set_closed                                            *)
(* notifies all, _wait_for_send_window returns 0; sendall then calls send again, which raises                 *)
SendLock(w) == /\ wpc[w] = "send_lock"
               /\ IF ch.closed THEN Finish(w, "raised")
                  ELSE Goto(w, "send_wait") \/ Goto(w, "send_msg")     \* window exhausted / window left
               /\ Keep /\ UNCHANGED shared
SendMsg(w) == /\ wpc[w] = "send_msg" /\ (Finish(w, "returned") \/ (SendMayFail /\ Finish(w, "raised")))
              /\ Keep /\ UNCHANGED shared
SendWake(w) == /\ wpc[w] = "send_wait" /\ ch.closed
               /\ IF wapi[w] = "sendall" THEN Goto(w, "send_lock") ELSE Finish(w, "returned")
               /\ Keep /\ UNCHANGED shared
(* exec_command & co: @open_only; _event_pending(); _send_user_message(m); _wait_for_event() = event.wait()  *)
ReqCheck(w) == /\ wpc[w] = "req_check"
               /\ IF ch.closed THEN Finish(w, "raised") ELSE Goto(w, "req_clear")
               /\ Keep /\ UNCHANGED shared
(* _event_pending: entered (req_clear), then Channel.lock is taken (req_lock) - _set_closed runs under the     *)
(* same lock - and the event is cleared.  The repair tests `closed` inside the lock; tested before the lock  *)
(* (EventTestOutside) the channel can be closed in between and the clear wipes the wake-up again.            *)
ReqEnter(w) == /\ wpc[w] = "req_clear"
               /\ Goto(w, IF FixEvent /\ EventTestOutside /\ ch.closed THEN "req_send" ELSE "req_lock")
               /\ Keep /\ UNCHANGED shared
ReqClear(w) == /\ wpc[w] = "req_lock" /\ Goto(w, "req_send")
               /\ ch' = (IF FixEvent /\ ~EventTestOutside /\ ch.closed THEN [ch EXCEPT !.ready = FALSE]
                         ELSE [ch EXCEPT !.event = FALSE, !.ready = FALSE])
               /\ Keep
               /\ UNCHANGED <<active, pclosed, sclosed, tt, cl, loss, completion, authev, svc, ocreg, ocev, cvwait, cvnote>>
ReqSend(w) == /\ wpc[w] = "req_send" /\ (Goto(w, "req_wait") \/ (SendMayFail /\ Finish(w, "raised")))
              /\ Keep /\ UNCHANGED shared
ReqWait(w) == /\ wpc[w] = "req_wait" /\ ch.event
              /\ Finish(w, IF ch.ready THEN "returned" ELSE "raised")
              /\ Keep /\ UNCHANGED shared
(* recv_exit_status: status_event.wait() *)
StWait(w) == /\ wpc[w] = "st_wait" /\ ch.status /\ Finish(w, "returned") /\ Keep /\ UNCHANGED shared
(* open_channel: active test; register channel + event under the lock; send; poll {event.wait(0.1); active?} *)
OcCheck(w) == /\ wpc[w] = "oc_check"
              /\ IF active THEN Goto(w, "oc_register") ELSE Finish(w, "raised")
              /\ Keep /\ UNCHANGED shared
OcRegister(w) == /\ wpc[w] = "oc_register" /\ Goto(w, "oc_send") /\ ocreg' = ocreg \cup {w} /\ Keep
                 /\ UNCHANGED <<active, pclosed, sclosed, tt, cl, loss, ch, completion, authev, svc, ocev, cvwait, cvnote>>
OcSend(w) == /\ wpc[w] = "oc_send" /\ (Goto(w, "oc_poll") \/ (SendMayFail /\ Finish(w, "raised")))
             /\ Keep /\ UNCHANGED shared
OcPoll(w) == /\ wpc[w] = "oc_poll" /\ (SeesInactive("open") \/ w \in ocev)
             /\ Finish(w, IF ~active THEN "raised" ELSE "returned")
             /\ Keep /\ UNCHANGED shared
(* global_request(wait=True): new completion_event; send; poll {wait(0.1); not active -> None; set -> break} *)
(* global_request returns None when the session ended; request_port_forward tests `active` itself and turns   *)
(* None into SSHException                                                                                     *)
GrEnded(w) == IF wapi[w] = "request_port_forward" THEN "raised" ELSE "returned"
GrNew(w) == /\ wpc[w] = "gr_new" /\ Keep
            /\ IF ~active /\ ("global" \in NoPoll \/ wapi[w] = "request_port_forward")
               THEN Finish(w, GrEnded(w)) /\ completion' = completion
               ELSE Goto(w, "gr_send") /\ completion' = FALSE
            /\ UNCHANGED <<active, pclosed, sclosed, tt, cl, loss, ch, authev, svc, ocreg, ocev, cvwait, cvnote>>
GrSend(w) == /\ wpc[w] = "gr_send" /\ (Goto(w, "gr_poll") \/ (SendMayFail /\ Finish(w, "raised")))
             /\ Keep /\ UNCHANGED shared
GrPoll(w) == /\ wpc[w] = "gr_poll" /\ (SeesInactive("global") \/ completion)
             /\ Finish(w, IF ~active THEN GrEnded(w) ELSE "returned")
             /\ Keep /\ UNCHANGED shared
(* renegotiate_keys: new completion_event; _send_kex_init (raises on a closed packetizer); same poll, raises *)
RkNew(w) == /\ wpc[w] = "rk_new" /\ Goto(w, "rk_send") /\ completion' = FALSE /\ Keep
            /\ UNCHANGED <<active, pclosed, sclosed, tt, cl, loss, ch, authev, svc, ocreg, ocev, cvwait, cvnote>>
RkSend(w) == /\ wpc[w] = "rk_send"
             /\ IF pclosed THEN Finish(w, "raised") ELSE (Goto(w, "rk_poll") \/ (SendMayFail /\ Finish(w, "raised")))
             /\ Keep /\ UNCHANGED shared
RkPoll(w) == /\ wpc[w] = "rk_poll" /\ (SeesInactive("rekey") \/ completion)
             /\ Finish(w, IF ~active THEN "raised" ELSE "returned")
             /\ Keep /\ UNCHANGED shared
(* Transport.auth_*: active test; AuthHandler.auth_* sends SERVICE_REQUEST with _send_message;                *)
(* wait_for_response polls {event.wait(0.1); not transport.is_active() -> raise}                              *)
AuCheck(w) == /\ wpc[w] = "au_check"
              /\ IF active THEN Goto(w, "au_req") ELSE Finish(w, "raised")
              /\ Keep /\ UNCHANGED shared
AuReq(w) == /\ wpc[w] \in {"au_req", "sr_send"}
            /\ IF pclosed THEN Finish(w, "raised") /\ authev' = authev
               ELSE \/ Goto(w, "au_poll") /\ authev' = "clear"
                    \/ SendMayFail /\ Finish(w, "raised") /\ authev' = authev
            /\ Keep
            /\ UNCHANGED <<active, pclosed, sclosed, tt, cl, loss, ch, completion, svc, ocreg, ocev, cvwait, cvnote>>
AuPoll(w) == /\ wpc[w] = "au_poll" /\ (SeesInactive("auth") \/ authev = "set")
             /\ Finish(w, IF ~active THEN "raised" ELSE "returned")
             /\ Keep /\ UNCHANGED shared
(* ServiceRequestingTransport.ensure_session: active test; accepted? else send SERVICE_REQUEST and           *)
(* `while not self._service_userauth_accepted: time.sleep(0.1)`                                              *)
EsCheck(w) == /\ wpc[w] = "es_check"
              /\ IF ~active THEN Finish(w, "raised") ELSE IF svc THEN Goto(w, "sr_send") ELSE Goto(w, "es_req")
              /\ Keep /\ UNCHANGED shared
EsReq(w) == /\ wpc[w] = "es_req"
            /\ IF pclosed THEN Finish(w, "raised") ELSE (Goto(w, "es_sleep") \/ (SendMayFail /\ Finish(w, "raised")))
            /\ Keep /\ UNCHANGED shared
EsSleep(w) == /\ wpc[w] = "es_sleep" /\ (svc \/ (FixEnsure /\ ~active))
              /\ IF svc THEN Goto(w, "sr_send") ELSE Finish(w, "raised")
              /\ Keep /\ UNCHANGED shared
(* accept: lock; queue empty -> server_accept_cv.wait(timeout) once; queue still empty -> None               *)
AcLock(w) == /\ wpc[w] = "ac_lock" /\ Keep
             /\ IF FixAccept /\ ~active
                THEN Finish(w, "returned") /\ UNCHANGED cvwait
                ELSE Goto(w, "ac_wait") /\ cvwait' = cvwait \cup {w}
             /\ UNCHANGED <<active, pclosed, sclosed, tt, cl, loss, ch, completion, authev, svc, ocreg, ocev, cvnote>>
AcWake(w) == /\ wpc[w] = "ac_wait" /\ w \in cvnote /\ Finish(w, "returned") /\ cvnote' = cvnote \ {w} /\ Keep
             /\ UNCHANGED <<active, pclosed, sclosed, tt, cl, loss, ch, completion, authev, svc, ocreg, ocev, cvwait>>

(* ProxyCommand.recv: select() + os.read() until `size` bytes are there.  When the process has exited the     *)
(* pipe is at end of file: select() says readable, os.read() returns b"" - the pinned loop goes round again  *)
(* (until its timeout, if it has one); the repair returns what it has (b"" = end of file).  send() to a dead *)
(* process fails with EPIPE -> ProxyCommandFailure; to a command that only closed its stdout it succeeds.      *)
PxRecv(w) == /\ wpc[w] = "px_recv" /\ ProxyAtEof /\ Finish(w, "returned")
             /\ Keep /\ UNCHANGED shared
PxSend(w) == /\ wpc[w] = "px_send" /\ Finish(w, IF loss = "proxy_exit" THEN "raised" ELSE "returned")
             /\ Keep /\ UNCHANGED shared

WStep(w) == \/ RecvLock(w) \/ RecvWake(w) \/ SendLock(w) \/ SendWake(w) \/ SendMsg(w)
            \/ ReqCheck(w) \/ ReqEnter(w) \/ ReqClear(w) \/ ReqSend(w) \/ ReqWait(w) \/ StWait(w)
            \/ OcCheck(w) \/ OcRegister(w) \/ OcSend(w) \/ OcPoll(w)
            \/ GrNew(w) \/ GrSend(w) \/ GrPoll(w) \/ RkNew(w) \/ RkSend(w) \/ RkPoll(w)
            \/ AuCheck(w) \/ AuReq(w) \/ AuPoll(w) \/ EsCheck(w) \/ EsReq(w) \/ EsSleep(w)
            \/ AcLock(w) \/ AcWake(w) \/ PxRecv(w) \/ PxSend(w)

(* the caller's own timeout expires (never assumed to happen: no fairness) *)
Timeout(w) == /\ wmode[w] = "timed" /\ wpc[w] \in TimedWaits /\ Finish(w, "timeout") /\ Keep
              /\ cvwait' = cvwait \ {w}
              /\ UNCHANGED <<active, pclosed, sclosed, tt, cl, loss, ch, completion, authev, svc, ocreg, ocev, cvnote>>

(* the peer answers a pending request while the connection is still up (no fairness) *)
PeerAnswer(w) ==
  /\ loss = "none" /\ UNCHANGED wvars
  /\ \/ wpc[w] = "req_wait" /\ ch' = [ch EXCEPT !.event = TRUE, !.ready = TRUE]
        /\ UNCHANGED <<completion, authev, svc, ocev>>
     \/ wpc[w] = "st_wait" /\ ch' = [ch EXCEPT !.status = TRUE] /\ UNCHANGED <<completion, authev, svc, ocev>>
     \/ wpc[w] = "oc_poll" /\ ocev' = ocev \cup {w} /\ UNCHANGED <<ch, completion, authev, svc>>
     \/ wpc[w] \in {"gr_poll", "rk_poll"} /\ completion' = TRUE /\ UNCHANGED <<ch, authev, svc, ocev>>
     \/ wpc[w] = "au_poll" /\ authev' = "set" /\ UNCHANGED <<ch, completion, svc, ocev>>
     \/ wpc[w] = "es_sleep" /\ svc' = TRUE /\ UNCHANGED <<ch, completion, authev, ocev>>
  /\ UNCHANGED <<active, pclosed, sclosed, tt, cl, loss, ocreg, cvwait, cvnote>>

Next == \/ \E k \in LossKinds : Lose(k)
        \/ TTStep \/ CLStep
        \/ \E w \in W : \/ \E a \in Apis, m \in Modes : Call(w, a, m)
                        \/ WStep(w) \/ Timeout(w) \/ PeerAnswer(w)

Spec == Init /\ [][Next]_vars
(* weak fairness of the transport thread, of close(), and of every caller's loop (not of timeouts, the peer, *)
(* or the loss itself)                                                                                        *)
FairSpec == Spec /\ WF_vars(TTStep) /\ WF_vars(CLStep) /\ \A w \in W : WF_vars(WStep(w))

----------------------------------------------------------------------------
(* the property *)
Started(w) == wpc[w] \notin {"idle", "done"}
Stuck(w) == ShutdownComplete /\ Started(w) /\ ~ENABLED WStep(w)

TypeOK == /\ Role \in {"server", "client"}
          /\ active \in BOOLEAN /\ pclosed \in BOOLEAN /\ sclosed \in BOOLEAN
          /\ \E i \in 1..11 : TTOrder[i] = tt
          /\ \E i \in 1..8 : CLOrder[i] = cl
          /\ loss \in AllKinds \cup {"none"}
          /\ authev \in {"none", "clear", "set"}
          /\ ocreg \subseteq W /\ ocev \subseteq W /\ cvwait \subseteq W /\ cvnote \subseteq W

(* safety: once the shutdown has run to its end no call is left waiting for a wake-up nobody will send -      *)
(* in particular a call started after the loss returns                                                        *)
NoStuck == \A w \in W : ~Stuck(w)
ResultsInTable == \A w \in W : wres[w] # "none" => wres[w] \in Results(Family(wapi[w]))
(* the shutdown block clears `active` before anything is closed, and closes the packetizer before the socket *)
Order == /\ (pclosed => ~active \/ Omit = "clear")
         /\ (tt = "dead" => sclosed)
         /\ (ch.closed => ch.pipes \/ EofGuardOnClose)     \* a closed channel has closed input pipes

(* liveness *)
Inactive == (loss # "none") ~> ~active
WaitersReturn == \A w \in W : (loss # "none" /\ Started(w)) ~> (wpc[w] = "done")
=============================================================================
