----------------------------- MODULE ServerAuth -----------------------------
(* C14, C16.  Server side of ssh-userauth as implemented by                               *)
(*   AuthHandler._parse_userauth_request / _parse_userauth_info_response /                *)
(*   _send_auth_result, GssapiWithMicAuthHandler._parse_userauth_gssapi_token / _mic      *)
(*   (paramiko/auth_handler.py) and the dispatch in Transport.run (paramiko/transport.py).*)
(* One step = one client message, handled to completion by the server's run loop.         *)
(* The environment chooses the message and what the server application's credential       *)
(* callback returns for it (field cb).  Cryptography is symbolic: a publickey request     *)
(* carries the tuple its signature was made over and the key that made it; a GSS-API MIC  *)
(* carries the (session id, user) it was computed for.                                    *)
EXTENDS Naturals, Sequences, FiniteSets, TLC

CONSTANTS Users,               \* user names the client may try
          FailCap,             \* 10 in the code (_send_auth_result)
          ConfigSel,           \* server configurations explored: subset of ConfigNames
          MaxDepth,            \* messages per connection explored by the model checker (CONSTRAINT Bound)
          Focus,               \* "all" = every message at every step | "cap" = CapMessages only (long runs to the cap)
          \* ---- switches; TRUE/"" = the behaviour the property needs (see the .cfg of each run)
          GssHonoursCallback,  \* FALSE = pinned tree: both GSS branches hard-wire AUTH_SUCCESSFUL
          BlobOmits,           \* "" | "sid" | "user" | "service" | "alg" | "key": field left out of the signed blob
          KeepsResultAfterBadSig,  \* TRUE = a failed verify_ssh_sig does not reset result
          BlobUsesCurrentHash,    \* TRUE = the server rebuilds the signed data with the LATEST exchange hash instead of the session id
          OnlyConstantsReject,    \* TRUE = _send_auth_result rejects on the two rejecting constants only: any other callback value grants
          UnpinnedUser,           \* "" | a user name for which the mid-flight comparison does not fire ("anon": pin tested for truthiness)
          EmptyListPromotesPartial,  \* TRUE = "partial" with an empty get_allowed_auths() list is sent as full success
          ServiceRequestResets,   \* TRUE = accepting a (repeated) ssh-userauth SERVICE_REQUEST clears the pin and the failure counter
          PkOkCachesApproval,     \* TRUE = a signed request for the key just answered with PK_OK is not put to the application again
          RekeyResetsAuthState,   \* TRUE = a key re-exchange before authentication installs a fresh AuthHandler
          KeepsResultOnForeignLabel,  \* TRUE = a signature blob labelled with another algorithm than the request's keeps result
          ProbeAuthenticates,  \* TRUE = a PK_OK probe marks the session authenticated
          PinsUser,            \* FALSE = username comparison dropped
          PartialCounts,       \* TRUE = partial successes counted as failures
          ProbeFailCounts,     \* FALSE = a rejected UNSIGNED publickey probe ("is this key acceptable?" - key not acceptable) is
                               \* answered with a FAILURE built by hand that bypasses _send_auth_result: not counted, no cap
          CapOffset            \* disconnect at FailCap + CapOffset failures

GssMethods == {"gssapi-with-mic", "gssapi-keyex"}
\* methods: none password publickey keyboard-interactive gssapi-with-mic gssapi-keyex, "bogus" = any other name
Services   == {"ssh-connection", "other"}
Results    == {"ok", "partial", "fail"}
\* "junk" = the callback returns something that is none of the three documented constants (None from a callback without
\* an explicit return, an unknown int, a string, any object): not success, so it must never grant
\* User names are abstract: "anon" stands for the EMPTY user name on the wire (legal, and falsy in Python) - a user like
\* any other.  authUser = "" means that no request has named a user yet (AuthHandler.auth_username is None).
SigKinds   == {"absent", "good", "alt_sid", "omit_sid", "alt_user", "alt_service", "alt_alg", "alt_key", "wrong_key", "corrupt",
               "label_other", "label_garbage", "cur_hash"}
MicKinds   == {"good", "alt_sid", "alt_user"}
Toks       == {"more", "done", "error"}

\* ------------------------------------------------------------------ client messages
Blank == [k |-> "", user |-> "", service |-> "", method |-> "", cb |-> "fail", sig |-> "absent",
          mic |-> "good", change |-> FALSE, mechs |-> 1, mech_ok |-> TRUE, tok |-> "", allowed |-> "usual"]
\* allowed = what the application's get_allowed_auths(user) returns while this message is handled (it goes into the
\* FAILURE / partial-success reply): "usual" = a list with the common methods, "without" = a non-empty list that lacks the
\* method just tried, "empty" = nothing at all.  It is advice to the client and decides nothing.
Rq(u, sv, m) == [Blank EXCEPT !.k = "request", !.user = u, !.service = sv, !.method = m]

\* The service and then the user name are looked at before anything else in the request, and user names are
\* interchangeable: every variant of every method for one user on ssh-connection, representatives otherwise.
Primary == CHOOSE u \in Users : TRUE
UserRequests(u, sv) ==
  IF sv # "ssh-connection"
  THEN {[Rq(u, sv, "none") EXCEPT !.cb = "ok"], [Rq(u, sv, "password") EXCEPT !.cb = "ok"],
        [Rq(u, sv, "publickey") EXCEPT !.cb = "ok", !.sig = "good"]}
  ELSE IF u # Primary
  THEN {[Rq(u, sv, "none") EXCEPT !.cb = "ok"], [Rq(u, sv, "none") EXCEPT !.cb = "fail"],
        [Rq(u, sv, "password") EXCEPT !.cb = "ok"], [Rq(u, sv, "publickey") EXCEPT !.cb = "ok", !.sig = "good"],
        [Rq(u, sv, "publickey") EXCEPT !.cb = "ok", !.sig = "absent"],
        [Rq(u, sv, "keyboard-interactive") EXCEPT !.cb = "query"], [Rq(u, sv, "gssapi-keyex") EXCEPT !.cb = "ok"],
        Rq(u, sv, "gssapi-with-mic")}
  ELSE {[Rq(u, sv, m) EXCEPT !.cb = c] : m \in {"none", "bogus"}, c \in Results}
  \cup {[Rq(u, sv, "password") EXCEPT !.cb = c] : c \in Results}
  \cup {[Rq(u, sv, "password") EXCEPT !.cb = "ok", !.change = TRUE]}
  \cup {[Rq(u, sv, "publickey") EXCEPT !.cb = c, !.sig = s] : c \in Results, s \in SigKinds}
  \cup {[Rq(u, sv, "keyboard-interactive") EXCEPT !.cb = c] : c \in Results \cup {"query"}}
  \cup {[Rq(u, sv, "gssapi-keyex") EXCEPT !.cb = c, !.mic = mc] : c \in Results, mc \in MicKinds}
  \cup {[Rq(u, sv, "gssapi-with-mic") EXCEPT !.mechs = p[1], !.mech_ok = p[2]] : p \in {<<1, TRUE>>, <<2, TRUE>>, <<1, FALSE>>}}
  \cup {[Rq(u, sv, m) EXCEPT !.cb = "junk"] : m \in {"none", "bogus", "password", "keyboard-interactive", "gssapi-keyex"}}
  \cup {[Rq(u, sv, "publickey") EXCEPT !.cb = "junk", !.sig = sg] : sg \in {"absent", "good"}}
Continuations ==
       {[Blank EXCEPT !.k = "info_response", !.cb = c] : c \in Results \cup {"query"}}
  \cup {[Blank EXCEPT !.k = "gss_token", !.tok = t, !.cb = "ok"] : t \in Toks}
  \cup {[Blank EXCEPT !.k = "gss_mic", !.mic = mc, !.cb = c] : mc \in MicKinds, c \in Results}
  \cup {[Blank EXCEPT !.k = "info_response", !.cb = "junk"], [Blank EXCEPT !.k = "gss_mic", !.cb = "junk"]}
  \cup {[Blank EXCEPT !.k = "rekey", !.tok = t] : t \in {"client", "server"}}     \* a complete key re-exchange, started by t
  \* SSH_MSG_SERVICE_REQUEST sent again in the middle of the dialogue (paramiko's classic client does so before every
  \* attempt): "ssh-userauth" is accepted again, any other service is refused
  \cup {[Blank EXCEPT !.k = "service_request", !.service = sv] : sv \in {"ssh-userauth", "other"}}
BaseMessages == (UNION {UserRequests(u, sv) : u \in Users, sv \in Services}) \cup Continuations
\* the same attempts while the application offers an unusual list of methods that can continue: every way of getting a
\* partial success (one valid proof per method), and one failing and one succeeding attempt
OddList(q) == \/ q.cb = "partial" /\ q.user \in {"", Primary} /\ q.service \in {"", "ssh-connection"}
                 /\ q.sig \in {"absent", "good"} /\ q.mic = "good" /\ q.k \in {"request", "info_response", "gss_mic"}
              \/ q.k = "request" /\ q.method = "none" /\ q.user = Primary /\ q.service = "ssh-connection"
                 /\ q.cb \in {"ok", "fail"}
Messages == BaseMessages \cup {[q EXCEPT !.allowed = al] : q \in {x \in BaseMessages : OddList(x)}, al \in {"empty", "without"}}
\* a small alphabet of attempts that do not end in success, to walk up to the failure cap
CapMessages == LET u == Primary   v == CHOOSE x \in Users : x # u   sv == "ssh-connection" IN
  {[Rq(u, sv, "none") EXCEPT !.cb = "fail"], [Rq(u, sv, "password") EXCEPT !.cb = "partial"],
   [Rq(u, sv, "password") EXCEPT !.cb = "ok", !.change = TRUE],
   [Rq(u, sv, "publickey") EXCEPT !.cb = "ok", !.sig = "corrupt"], [Rq(u, sv, "publickey") EXCEPT !.cb = "ok", !.sig = "absent"],
   [Rq(u, sv, "publickey") EXCEPT !.cb = "fail", !.sig = "absent"],       \* unsigned probe, key rejected: a failed attempt
   [Rq(u, sv, "keyboard-interactive") EXCEPT !.cb = "query"], [Blank EXCEPT !.k = "info_response", !.cb = "fail"],
   [Rq(v, sv, "none") EXCEPT !.cb = "ok"], [Rq(u, sv, "none") EXCEPT !.cb = "ok"],
   [Blank EXCEPT !.k = "rekey", !.tok = "client"], [Blank EXCEPT !.k = "service_request", !.service = "ssh-userauth"]}

\* ------------------------------------------------------------------ symbolic signatures
\* what the signature of a publickey request was made over, and by which key.  "K" is the key named in the
\* request (the one the application is asked about), "A" the algorithm named in the request.
\* label = the algorithm name inside the signature blob.  "label_other": a genuine signature by the request's key made
\* with (and over a blob naming) another algorithm A2, presented under a request naming A; "label_garbage": a blob
\* labelled A2 followed by arbitrary bytes - needs no private key at all.
\* "cur_hash": the session id field holds the exchange hash of the MOST RECENT key exchange.  Until the first
\* re-exchange that is the session identifier itself (rk = FALSE: the very same bytes); afterwards it is another value.
Signed(q, rk) == [signer  |-> IF q.sig = "wrong_key" THEN "K2" ELSE IF q.sig = "label_garbage" THEN "nobody" ELSE "K",
              sid     |-> IF q.sig = "alt_sid" THEN "other" ELSE IF q.sig = "omit_sid" THEN "left out"
                          ELSE IF q.sig = "cur_hash" /\ rk THEN "H2" ELSE "this",
              user    |-> IF q.sig = "alt_user" THEN "someone else" ELSE q.user,
              service |-> IF q.sig = "alt_service" THEN "another service" ELSE q.service,
              alg     |-> IF q.sig \in {"alt_alg", "label_other"} THEN "A2" ELSE "A",
              key     |-> IF q.sig = "alt_key" THEN "K2" ELSE "K",
              label   |-> IF q.sig \in {"label_other", "label_garbage"} THEN "A2" ELSE "A",
              intact  |-> q.sig # "corrupt"]
\* the server first compares the blob's label with the request's algorithm, then rebuilds the signed data
\* (_get_session_blob) and lets the request's key verify (verify_ssh_sig)
Same(f, a, b) == BlobOmits = f \/ a = b
CodeVerifies(q, rk) == LET s == Signed(q, rk) IN
    IF s.label # "A" THEN KeepsResultOnForeignLabel
    ELSE /\ s.signer = "K" /\ s.intact
         /\ Same("sid", s.sid, IF BlobUsesCurrentHash /\ rk THEN "H2" ELSE "this") /\ Same("user", s.user, q.user) /\ Same("service", s.service, q.service)
         /\ Same("alg", s.alg, "A") /\ Same("key", s.key, "K")
\* ground truth the property speaks about: made by the request's key over exactly this session's values
SigValid(q, rk) == q.sig = "good" \/ (q.sig = "cur_hash" /\ ~rk)
MicValid(q) == q.mic = "good"

\* ------------------------------------------------------------------ state
VARIABLES cfg,           \* [gss: enable_auth_gssapi(), ctx: Transport.kexgss_ctxt present, bound: GSS handler table callable]
          authUser,      \* AuthHandler.auth_username ("" = None)
          failCount,     \* AuthHandler.auth_fail_count
          authenticated, \* Transport.is_authenticated()
          alive,         \* Transport.active
          mode,          \* "plain" | "gss": which object is Transport.auth_handler
          expect,        \* Transport._expected_packet: "any" | "tok" (61,50,5) | "tokmic" (61,66,50)
          rekeyed,       \* a key re-exchange has completed on this connection (Transport.H # Transport.session_id)
          offer,         \* the last publickey request on this connection was a probe answered with USERAUTH_PK_OK
          req,           \* the message handled by the last step
          cbs,           \* credential callbacks evaluated by the last step: Seq [name, user, res]
          out,           \* replies sent by the last step, in order
          grantedBy,     \* why the session counts as authenticated
          failed         \* number of USERAUTH_FAILURE (partial = false) replies sent so far
vars == <<cfg, authUser, failCount, authenticated, alive, mode, expect, offer, rekeyed, req, cbs, out, grantedBy, failed>>

Range(s) == {s[i] : i \in 1..Len(s)}
Nobody == [user |-> "", method |-> "", cb |-> "none", proof |-> FALSE]
Cb(n, u, r) == [name |-> n, user |-> u, res |-> r]

ConfigNames == {"plain", "gss", "gss+ctx", "gss+bound", "gss+ctx+bound"}
CfgOf(n) == [gss |-> n # "plain", ctx |-> n \in {"gss+ctx", "gss+ctx+bound"}, bound |-> n \in {"gss+bound", "gss+ctx+bound"}]

Init == /\ cfg \in {CfgOf(n) : n \in ConfigSel}
        /\ authUser = "" /\ failCount = 0 /\ authenticated = FALSE /\ alive = TRUE
        /\ mode = "plain" /\ expect = "any" /\ offer = FALSE /\ rekeyed = FALSE /\ req = Blank /\ cbs = <<>> /\ out = <<>>
        /\ grantedBy = Nobody /\ failed = 0

\* ------------------------------------------------------------------ the server's step function
\* control state handed from one handler to the next
Ctl == [authUser |-> authUser, failCount |-> failCount, authenticated |-> authenticated, alive |-> alive,
        mode |-> mode, expect |-> expect, offer |-> offer, rekeyed |-> rekeyed, al |-> "usual"]      \* al: see Handle
Ans(s, c, o) == [st |-> s, cbs |-> c, out |-> o]
Quiet(s) == Ans(s, <<>>, <<>>)
Die(s, c, o) == Ans([s EXCEPT !.alive = FALSE, !.authenticated = FALSE], c, o)   \* is_authenticated() = active /\ ...

\* _send_auth_result(username, method, result)  (then _disconnect_no_more_auth at the cap)
ReplyOf(res) == CASE res = "ok" -> "SUCCESS" [] res = "partial" -> "PARTIAL" [] OTHER -> "FAILURE"
Counts(res) == res = "fail" \/ (PartialCounts /\ res = "partial")
\* the list of methods that can continue (s.al) is copied into the reply and changes nothing else
SendResult(s, c, res0) ==
    LET res == IF EmptyListPromotesPartial /\ res0 = "partial" /\ s.al = "empty" THEN "ok"
               ELSE IF res0 = "junk" THEN (IF OnlyConstantsReject THEN "ok" ELSE "fail")   \* not AUTH_SUCCESSFUL: plain failure
               ELSE res0
        fc == IF Counts(res) THEN s.failCount + 1 ELSE s.failCount
        s1 == [s EXCEPT !.failCount = fc, !.authenticated = (s.authenticated \/ res = "ok")]
    IN  IF fc >= FailCap + CapOffset
          THEN Die(s1, c, <<ReplyOf(res), "DISCONNECT">>)
          ELSE Ans(s1, c, <<ReplyOf(res)>>)
\* result sent, then the handler raises: the run loop ends the transport
SendResultAndRaise(s, c, res) == LET a == SendResult(s, c, res) IN Die(a.st, a.cbs, a.out)

EffMethod(c, q) == IF q.method \in GssMethods /\ ~c.gss THEN "bogus" ELSE q.method

\* AuthHandler._parse_userauth_request  (s.mode is already "plain": the GSS handler restores its delegate first)
UserauthRequest(c, s, q) ==
    IF s.authenticated THEN Quiet(s)                                          \* "ignore"
    ELSE IF q.service # "ssh-connection" THEN Die(s, <<>>, <<"DISCONNECT">>)  \* _disconnect_service_not_available
    ELSE IF PinsUser /\ s.authUser # "" /\ s.authUser # UnpinnedUser /\ s.authUser # q.user
      THEN Die(s, <<>>, <<"DISCONNECT">>)                                     \* _disconnect_no_more_auth
    ELSE
      LET s1 == [s EXCEPT !.authUser = q.user]
          m  == EffMethod(c, q)
      IN CASE m \in {"none", "bogus"} ->                                      \* unknown methods fall through to check_auth_none
                SendResult(s1, <<Cb("none", q.user, q.cb)>>, q.cb)
           [] m = "password" ->
                IF q.change THEN SendResult(s1, <<>>, "fail")                 \* password change: rejected without asking
                ELSE SendResult(s1, <<Cb("password", q.user, q.cb)>>, q.cb)
           [] m = "publickey" ->
                \* the application is asked about the key on EVERY publickey request, probe or signed: the answer it
                \* gave to a probe (which may have been "partial", or may have changed since) approves nothing later
                LET cached == PkOkCachesApproval /\ s.offer /\ q.sig # "absent"
                    res == IF cached THEN "ok" ELSE q.cb
                    c1  == IF cached THEN <<>> ELSE <<Cb("publickey", q.user, q.cb)>>
                    s2  == [s1 EXCEPT !.offer = FALSE] IN
                \* a rejected key is a failed attempt whether the request was signed or was an unsigned probe: both go
                \* through _send_auth_result (counter, cap)
                IF res = "fail" THEN (IF q.sig = "absent" /\ ~ProbeFailCounts THEN Ans(s2, c1, <<"FAILURE">>)
                                      ELSE SendResult(s2, c1, "fail"))
                ELSE IF q.sig = "absent"
                  THEN Ans([s2 EXCEPT !.authenticated = ProbeAuthenticates, !.offer = TRUE], c1, <<"PK_OK">>)
                ELSE IF CodeVerifies(q, s.rekeyed) \/ KeepsResultAfterBadSig THEN SendResult(s2, c1, res)
                ELSE SendResult(s2, c1, "fail")
           [] m = "keyboard-interactive" ->
                LET c1 == <<Cb("keyboard-interactive", q.user, q.cb)>> IN
                IF q.cb = "query" THEN Ans(s1, c1, <<"INFO_REQUEST">>) ELSE SendResult(s1, c1, q.cb)
           [] m = "gssapi-with-mic" ->
                IF q.mechs > 1 \/ ~q.mech_ok THEN Die(s1, <<>>, <<"DISCONNECT">>)
                ELSE Ans([s1 EXCEPT !.mode = "gss", !.expect = "tok"], <<>>, <<"GSS_RESPONSE">>)
           [] m = "gssapi-keyex" ->
                IF ~c.ctx                                                     \* no context: failure reply, falls into the MIC check, raises
                  THEN LET a == SendResult(s1, <<>>, "fail")
                           b == SendResultAndRaise(a.st, <<>>, "fail") IN
                       IF a.st.alive THEN Ans(b.st, <<>>, a.out \o b.out) ELSE a
                       \* (once the cap has closed the transport the second reply can no longer be sent)
                ELSE IF ~MicValid(q) THEN SendResultAndRaise(s1, <<>>, "fail")
                ELSE SendResult(s1, <<Cb("gssapi-keyex", q.user, q.cb)>>, IF GssHonoursCallback THEN q.cb ELSE "ok")

\* AuthHandler._parse_userauth_info_response  (no check that a query is outstanding, none that auth is still open)
InfoResponse(s, q) ==
    LET c1 == <<Cb("keyboard-interactive", s.authUser, q.cb)>> IN
    IF q.cb = "query" THEN Ans(s, c1, <<"INFO_REQUEST">>) ELSE SendResult(s, c1, q.cb)

\* GssapiWithMicAuthHandler._parse_userauth_gssapi_token; the stub context decides from the token
GssToken(s, tok) ==
    CASE tok = "error" -> SendResultAndRaise([s EXCEPT !.mode = "plain"], <<>>, "fail")
      [] tok = "more"  -> Ans([s EXCEPT !.expect = "tokmic"], <<>>, <<"GSS_TOKEN">>)
      [] OTHER         -> Quiet(s)
\* GssapiWithMicAuthHandler._parse_userauth_gssapi_mic
GssMic(s, q) ==
    LET s1 == [s EXCEPT !.mode = "plain"] IN
    IF ~MicValid(q) THEN SendResultAndRaise(s1, <<>>, "fail")
    ELSE SendResult(s1, <<Cb("gssapi-with-mic", s.authUser, q.cb)>>, IF GssHonoursCallback THEN q.cb ELSE "ok")

\* Transport.run: _expected_packet, then dispatch through the current auth handler's table
WireType(q) == CASE q.k = "request" -> 50 [] q.k = "gss_mic" -> 66 [] q.k = "service_request" -> 5 [] OTHER -> 61
\* AuthHandler._parse_service_request: the authentication state (pin, counter, authenticated) is not touched
ServiceRequest(s, q) ==
    IF q.service # "ssh-userauth" THEN Die(s, <<>>, <<"DISCONNECT">>)        \* _disconnect_service_not_available
    ELSE IF ServiceRequestResets THEN Ans([s EXCEPT !.authUser = "", !.failCount = 0], <<>>, <<"SERVICE_ACCEPT">>)
    ELSE Ans(s, <<>>, <<"SERVICE_ACCEPT">>)
Crash(s) == Die(s, <<>>, <<>>)
\* A key re-exchange between two authentication messages (KEXINIT ... NEWKEYS, Transport._negotiate_keys /
\* _parse_newkeys).  The authentication state - pinned user, failure counter - lives in the AuthHandler object,
\* which _parse_newkeys creates only when there is none: a re-exchange changes nothing.  While a reply to the
\* GSS-API exchange is expected, KEXINIT is not among the expected types and ends the connection.
Rekey(s0) ==
    LET s == [s0 EXCEPT !.rekeyed = TRUE] IN
    IF s0.expect # "any" THEN Crash(s0)
    ELSE IF RekeyResetsAuthState /\ ~s.authenticated
      THEN Quiet([s EXCEPT !.authUser = "", !.failCount = 0, !.mode = "plain"])
    ELSE Quiet(s)
Handle(c, s0, q) ==
    IF ~s0.alive THEN Quiet(s0)
    ELSE IF q.k = "rekey" THEN Rekey(s0)
    ELSE IF s0.expect = "tok" /\ WireType(q) = 66 THEN Crash(s0)              \* MessageOrderError / SSHException
    ELSE IF s0.expect = "tokmic" /\ WireType(q) = 5 THEN Crash(s0)
    ELSE
      LET s == [s0 EXCEPT !.expect = "any", !.al = q.allowed] IN      \* al: the list the application offers during this step
      IF s.mode = "gss" THEN
           IF ~c.bound THEN Crash(s)                                          \* table of plain functions: TypeError
           ELSE CASE WireType(q) = 50 -> UserauthRequest(c, [s EXCEPT !.mode = "plain"], q)
                  [] WireType(q) = 5  -> ServiceRequest([s EXCEPT !.mode = "plain"], q)
                  [] WireType(q) = 61 -> GssToken(s, IF q.k = "gss_token" THEN q.tok ELSE "error")
                  [] OTHER            -> GssMic(s, q)
      ELSE CASE WireType(q) = 50 -> UserauthRequest(c, s, q)
             [] WireType(q) = 5  -> ServiceRequest(s, q)
             [] WireType(q) = 61 -> InfoResponse(s, q)
             [] OTHER            -> Ans(s, <<>>, <<"UNIMPLEMENTED">>)

\* ------------------------------------------------------------------ who was granted what, and why
Max(S) == CHOOSE x \in S : \A y \in S : y <= x
StepUser(q, au)   == IF q.k = "request" THEN q.user ELSE au
StepMethod(c, q, md) == IF q.k = "request" THEN EffMethod(c, q)
                        ELSE IF q.k = "gss_mic" \/ md = "gss" THEN "gssapi-with-mic" ELSE "keyboard-interactive"
LastRes(cs, u) == LET I == {i \in 1..Len(cs) : cs[i].user = u} IN IF I = {} THEN "none" ELSE cs[Max(I)].res
Proof(q, m) == CASE m = "publickey" -> SigValid(q, rekeyed) [] m \in GssMethods -> MicValid(q) [] OTHER -> TRUE
Grant(c, q, au, md, cs) == LET m == StepMethod(c, q, md) IN
    [user |-> StepUser(q, au), method |-> m, cb |-> LastRes(cs, StepUser(q, au)), proof |-> Proof(q, m)]
Granted(was, is, o) == (is /\ ~was) \/ "SUCCESS" \in Range(o)

NFail(o) == Cardinality({i \in 1..Len(o) : o[i] = "FAILURE"})
Step(q) ==
    \E a \in {Handle(cfg, Ctl, q)} :      \* (evaluated once)
    /\ failed' = failed + NFail(a.out)
    /\ req' = q /\ cfg' = cfg
    /\ authUser' = a.st.authUser /\ failCount' = a.st.failCount /\ authenticated' = a.st.authenticated
    /\ alive' = a.st.alive /\ mode' = a.st.mode /\ expect' = a.st.expect /\ offer' = a.st.offer /\ rekeyed' = a.st.rekeyed
    /\ cbs' = a.cbs /\ out' = a.out
    /\ grantedBy' = IF Granted(authenticated, a.st.authenticated, a.out)
                      THEN Grant(cfg, q, authUser, mode, a.cbs) ELSE grantedBy

\* a message to a dead server changes nothing (Handle): a few representatives are enough there
AfterDeath == {[Rq(u, "ssh-connection", "none") EXCEPT !.cb = "ok"] : u \in Users}
              \cup {[Blank EXCEPT !.k = "info_response", !.cb = "ok"], [Blank EXCEPT !.k = "gss_mic", !.cb = "ok"]}
Alphabet == IF Focus = "cap" THEN CapMessages ELSE Messages
Next == \E q \in (IF alive THEN Alphabet ELSE AfterDeath) : Step(q)
Spec == Init /\ [][Next]_vars
Bound == TLCGet("level") <= MaxDepth          \* CONSTRAINT; the .cfg files are written by checks/c14.py, c16.py
                                              \* (harness/drivers/auth.py: consts, mc_cfg): INVARIANT GrantNeedsApproval OneUser
                                              \* CapRespected, PROPERTY the step properties below, VIEW Control

(* ------------------------------------------------------------------ properties *)
(* The label of a step (req, cbs, out) is not needed to compute the next step, so the model checker  *)
(* identifies states by Control (VIEW): a few hundred states instead of tens of thousands.  TLC      *)
(* evaluates step properties ([][A]_vars) on EVERY transition it generates, also those into a state  *)
(* it has already seen - so everything that mentions req / cbs / out is a step property over the     *)
(* primed label, and the state invariants mention control variables only.                            *)
Control == <<cfg, authUser, failCount, authenticated, alive, mode, expect, offer, rekeyed, grantedBy, failed>>

\* C14
GrantNeedsApproval == authenticated => (grantedBy # Nobody /\ grantedBy.cb = "ok" /\ grantedBy.proof)
SuccessMeansAuthenticatedStep == "SUCCESS" \in Range(out') => authenticated'   \* (and then GrantNeedsApproval')
ProbeNeverAuthenticatesStep ==
    (req'.k = "request" /\ req'.method = "publickey" /\ req'.sig = "absent" /\ ~authenticated)
        => ("SUCCESS" \notin Range(out') /\ ~authenticated')
GrantIsAnnouncedStep == (authenticated' /\ ~authenticated) => "SUCCESS" \in Range(out')
SuccessMeansAuthenticated == [][SuccessMeansAuthenticatedStep]_vars
ProbeNeverAuthenticates   == [][ProbeNeverAuthenticatesStep]_vars
GrantIsAnnounced          == [][GrantIsAnnouncedStep]_vars
\* C16
OneUser == authenticated => grantedBy.user = authUser
Switches(q, au) == q.k = "request" /\ (q.service # "ssh-connection" \/ (au # "" /\ q.user # au))
SwitchEndsStep == (alive /\ ~authenticated /\ Switches(req', authUser))
                     => (~alive' /\ cbs' = <<>> /\ ~authenticated' /\ "SUCCESS" \notin Range(out'))
CapRespected == failed >= FailCap => ~alive                  \* ten failed attempts: disconnected
\* the disconnect that follows a result (<<reply, DISCONNECT>>) is the cap, and only the cap
CapDisconnect(o) == Len(o) >= 2 /\ o[Len(o)] = "DISCONNECT" /\ o[1] \in {"SUCCESS", "PARTIAL", "FAILURE"}
CapExactStep == CapDisconnect(out') => failed' >= FailCap
CapExact == [][CapExactStep]_vars
NoCheckAfterDeathStep == ~alive => (cbs' = <<>> /\ out' = <<>> /\ ~alive' /\ authenticated' = authenticated)
SwitchEnds        == [][SwitchEndsStep]_vars
NoCheckAfterDeath == [][NoCheckAfterDeathStep]_vars
UserPinned        == [][authUser # "" => authUser' = authUser]_vars
=============================================================================
