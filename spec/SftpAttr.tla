------------------------------ MODULE SftpAttr ------------------------------
(* C33.  SFTPAttributes._pack / _unpack (paramiko/sftp_attr.py:97-143).            *)
(*                                                                                *)
(* An attribute set has six optional numeric fields and a map of extended          *)
(* attributes.  _pack writes a flag word and then the flagged field groups in a    *)
(* fixed order; _unpack reads the flag word and then whatever it announces.  The   *)
(* state machine has one step per field group for the writer and for the reader:   *)
(*   PackFlags PackSize PackUidGid PackMode PackTimes PackExt                      *)
(*   UnpackFlags UnpackSize UnpackUidGid UnpackMode UnpackTimes UnpackExt          *)
(* A behaviour is a SEQUENCE of independent attribute objects (blocks): after one   *)
(* set has been encoded and decoded, NextBlock starts over with new objects.  What  *)
(* block B yields must depend on B's input only; `leak` is whatever a newly created *)
(* object inherits from earlier ones (nothing, in the design).                       *)
(* An object also has a LIFECYCLE: after a round the object that was encoded (KeepEncoder) or the one that was  *)
(* decoded (KeepDecoded) can be kept, edited (SetField / ClearField) and encoded again (Repack).  Such an     *)
(* object carries the flag word of its last _pack / _unpack (`stored`); the clauses are evaluated after every *)
(* pack and unpack against the fields the object has AT THAT MOMENT, so a flag word remembered from an earlier *)
(* state of the object must play no role.                                                                      *)
(* The wire is a sequence of *tokens* (u32 / u64 / string): how tokens become      *)
(* bytes is C39's business (WireCodec.tla).                                        *)
(*                                                                                *)
(* Numbers are sequences of 16-bit limbs, most significant first (TLC integers     *)
(* are 32-bit): a u32 has 2 limbs, a u64 has 4.  An optional field is a sequence    *)
(* of length 0 (absent) or 1 (present).  Byte strings are sequences of 0..255.      *)
EXTENDS Naturals, Sequences, FiniteSets, TLC

CONSTANTS U32Vals,     \* u32 values (limb pairs) the model checker uses for ids, modes and times
          U64Vals,     \* u64 values (4 limbs) for sizes
          Keys, Vals,  \* byte strings used as extended attribute names / values
          MaxExt,      \* largest extended map explored
          FixExtOrder, \* TRUE = the design (name read before value).  FALSE = faithful to the pinned code:
                       \*   `self.attr[msg.get_string()] = msg.get_string()` evaluates the right-hand side first,
                       \*   so the first string (the name) becomes the value and the second the key
          MaxBlocks,   \* number of attribute sets processed one after the other
          SharedExtMap,\* FALSE = the design (every new object has its own empty extended map).  TRUE = all
                       \*   default-constructed objects alias ONE map (a mutable default argument): what was
                       \*   decoded or set in place earlier shows up in every later object
          Reuse,       \* TRUE = objects may be kept, edited and encoded again (lifecycle actions enabled)
          MaxEdits,    \* most SetField / ClearField steps between two encodings of one object
          Mutation     \* "stale_flags" = _pack trusts a non-zero stored flag word instead of recomputing it;
                       \* "none" = the design; other values re-introduce a defect (sensitivity runs)

VARIABLES attrs,       \* the attribute set being encoded: the INPUT of the current block
          pc,          \* next step
          flags,       \* _flags of the encoded object after _pack (limb pair)
          wire,        \* tokens written so far
          rpos,        \* tokens consumed by the reader
          rflags,      \* _flags of the decoded object
          dec,         \* the decoded attribute set (so far)
          leak,        \* extended attributes a newly created object starts with (Seq of pairs)
          round,       \* number of the current block
          stored,      \* the flag word the object to be encoded carries from its past (<<0, 0>> for a new object)
          edits        \* SetField / ClearField steps since the object was kept
vars == <<attrs, pc, flags, wire, rpos, rflags, dec, leak, round, stored, edits>>

(* ---- data ---------------------------------------------------------------------- *)
None == <<>>
Some(v) == <<v>>
Present(o) == o # <<>>
Empty == [size |-> None, uid |-> None, gid |-> None, mode |-> None, atime |-> None, mtime |-> None, ext |-> <<>>]

U32(n) == [k |-> "u32", n |-> n, s |-> <<>>]
U64(n) == [k |-> "u64", n |-> n, s |-> <<>>]
Str(b) == [k |-> "str", n |-> <<>>, s |-> b]
\* a small count as a u32 token
Count(c) == U32(<<0, c>>)

\* the groups the wire format flags (uid/gid and atime/mtime are pairs)
HasSize(a)   == Present(a.size)
HasUidGid(a) == Present(a.uid) /\ Present(a.gid)
HasMode(a)   == Present(a.mode)
HasTimes(a)  == Present(a.atime) /\ Present(a.mtime)
HasExt(a)    == Len(a.ext) > 0
B(x) == IF x THEN 1 ELSE 0
\* FLAG_SIZE 1, FLAG_UIDGID 2, FLAG_PERMISSIONS 4, FLAG_AMTIME 8, FLAG_EXTENDED 0x80000000 as <<high limb, low limb>>
FlagWord(a) == <<32768 * B(HasExt(a)), B(HasSize(a)) + 2 * B(HasUidGid(a)) + 4 * B(HasMode(a)) + 8 * B(HasTimes(a))>>
Bit(w, n) == (w \div n) % 2 = 1
FSize(f) == Bit(f[2], 1)
FUidGid(f) == Bit(f[2], 2)
FMode(f) == Bit(f[2], 4)
FTimes(f) == Bit(f[2], 8)
FExt(f) == Bit(f[1], 32768)

RECURSIVE ExtTokens(_)
ExtTokens(e) == IF e = <<>> THEN <<>> ELSE <<Str(e[1][1]), Str(e[1][2])>> \o ExtTokens(Tail(e))
\* the whole encoding as a function of the attribute set (what the Pack* steps must add up to)
PackTokens(a) ==
     <<U32(FlagWord(a))>>
  \o (IF HasSize(a) THEN <<U64(a.size[1])>> ELSE <<>>)
  \o (IF HasUidGid(a) THEN <<U32(a.uid[1]), U32(a.gid[1])>> ELSE <<>>)
  \o (IF HasMode(a) THEN <<U32(a.mode[1])>> ELSE <<>>)
  \o (IF HasTimes(a) THEN <<U32(a.atime[1]), U32(a.mtime[1])>> ELSE <<>>)
  \o (IF HasExt(a) THEN <<Count(Len(a.ext))>> \o ExtTokens(a.ext) ELSE <<>>)

ExtMap(e) == {<<e[j][1], e[j][2]>> : j \in 1..Len(e)}
\* update map l in place with the pairs of e (dict semantics: an existing name keeps its position)
RECURSIVE Merge(_, _)
Merge(l, e) == IF e = <<>> THEN l
               ELSE LET hit == {j \in 1..Len(l) : l[j][1] = e[1][1]} IN
                    Merge(IF hit = {} THEN Append(l, e[1]) ELSE [j \in 1..Len(l) |-> IF j \in hit THEN e[1] ELSE l[j]], Tail(e))
Swapped(e) == {<<p[2], p[1]>> : p \in ExtMap(e)}
DistinctKeys(e) == \A j, k \in 1..Len(e) : j # k => e[j][1] # e[k][1]

(* ---- the property, clause by clause ------------------------------------------- *)
\* a = what was encoded, f = _flags after _pack
PackClauses(a, f) == IF f = FlagWord(a) THEN {} ELSE {"P_flags_after_pack"}

\* a = what was encoded, d = what was decoded, rf = _flags of the decoded object
Opt1(name, x, y) == IF Present(x) THEN (IF y = x THEN {} ELSE {name})
                    ELSE (IF Present(y) THEN {"P_absent_became_present"} ELSE {})
Pair(name, half, has, x1, x2, y1, y2) ==
  IF has THEN (IF y1 = x1 /\ y2 = x2 THEN {} ELSE {name})
  ELSE (IF (~Present(x1) /\ Present(y1)) \/ (~Present(x2) /\ Present(y2)) THEN {"P_absent_became_present"} ELSE {})
       \cup (IF (Present(x1) /\ y1 # x1) \/ (Present(x2) /\ y2 # x2) THEN {half} ELSE {})
RoundTripClauses(a, d, rf) ==
       Opt1("P_size", a.size, d.size)
  \cup Pair("P_uid_gid", "C_half_pair_not_encoded", HasUidGid(a), a.uid, a.gid, d.uid, d.gid)
  \cup Opt1("P_mode", a.mode, d.mode)
  \cup Pair("P_times", "C_half_pair_not_encoded", HasTimes(a), a.atime, a.mtime, d.atime, d.mtime)
  \cup (IF ExtMap(d.ext) = ExtMap(a.ext) /\ DistinctKeys(d.ext) THEN {}
        ELSE IF a.ext = <<>> THEN {"P_absent_became_present"}
        ELSE IF d.ext # <<>> /\ ExtMap(d.ext) \subseteq Swapped(a.ext) THEN {"P_extended_names_values_swapped"}
        ELSE {"P_extended"})
  \cup (IF rf = FlagWord(a) THEN {} ELSE {"P_flags_after_unpack"})

(* ---- value sets for the model checker (a .cfg cannot write tuples: use  U32Vals <- U32Quick ...) ---- *)
U32Quick == {<<0, 0>>, <<65535, 65535>>}
U32Full  == {<<0, 0>>, <<0, 1>>, <<65535, 65535>>}                                    \* 0, 1, 2^32-1
U64Quick == {<<0, 0, 0, 0>>, <<0, 1, 0, 0>>, <<65535, 65535, 65535, 65535>>}          \* 0, 2^32, 2^64-1
U64Full  == U64Quick \cup {<<0, 0, 0, 1>>, <<0, 0, 65535, 65535>>}                    \* ... 1, 2^32-1
U32One   == {<<65535, 65535>>}
U64One   == {<<0, 1, 0, 0>>}
U64Two   == {<<0, 1, 0, 0>>, <<65535, 65535, 65535, 65535>>}                            \* 2^32, 2^64-1
KeysOne  == {<<107>>}
KeysTwo  == {<<107>>, <<107, 64, 120, 46, 121>>}                                      \* "k", "k@x.y"
ValsTwo  == {<<>>, <<0, 255, 10>>}
ValsFull == ValsTwo \cup {<<118>>}

(* ---- the state machine --------------------------------------------------------- *)
Opt(S) == {None} \cup {Some(v) : v \in S}
PairOpt(S) == {<<None, None>>} \cup {<<Some(v), Some(w)>> : v \in S, w \in S}
KV == Keys \X Vals
ExtMaps == {e \in UNION {[1..n -> KV] : n \in 0..MaxExt} : DistinctKeys(e)}
Inputs == {[size |-> s, uid |-> ug[1], gid |-> ug[2], mode |-> m, atime |-> t[1], mtime |-> t[2], ext |-> e] :
             s \in Opt(U64Vals), ug \in PairOpt(U32Vals), m \in Opt(U32Vals), t \in PairOpt(U32Vals), e \in ExtMaps}

\* a newly created object (SFTPAttributes(), _from_msg, from_stat): all fields absent, extended map = leak
Fresh(lk) == [Empty EXCEPT !.ext = lk]
\* the object that gets encoded: the caller's fields on a new object; extended attributes are put into the map it came with
Obj == [attrs EXCEPT !.ext = Merge(Fresh(leak).ext, attrs.ext)]

Init == /\ attrs \in Inputs
        /\ pc = "PackFlags" /\ flags = <<0, 0>> /\ wire = <<>> /\ rpos = 0 /\ rflags = <<0, 0>>
        /\ leak = <<>> /\ round = 1 /\ dec = Fresh(<<>>) /\ stored = <<0, 0>> /\ edits = 0

Put(toks, next) == wire' = wire \o toks /\ pc' = next /\ UNCHANGED <<attrs, rpos, rflags, dec, round, stored, edits>>

PackFlags == /\ pc = "PackFlags"
             /\ flags' = IF Mutation = "stale_flags" /\ stored # <<0, 0>> THEN stored
                         ELSE IF Mutation = "mode_flag_not_set" THEN <<FlagWord(Obj)[1], FlagWord(Obj)[2] - 4 * B(HasMode(Obj))>>
                         ELSE FlagWord(Obj)
             /\ leak' = IF SharedExtMap THEN Obj.ext ELSE leak          \* setting names in place writes into the shared map
             /\ Put(<<U32(flags')>>, "PackSize")
PackSize == /\ pc = "PackSize" /\ UNCHANGED <<flags, leak>>
            /\ Put(IF FSize(flags) THEN <<U64(Obj.size[1])>> ELSE <<>>, "PackUidGid")
PackUidGid == /\ pc = "PackUidGid" /\ UNCHANGED <<flags, leak>>
              /\ Put(IF FUidGid(flags) THEN <<U32(Obj.uid[1]), U32(Obj.gid[1])>> ELSE <<>>, "PackMode")
PackMode == /\ pc = "PackMode" /\ UNCHANGED <<flags, leak>>
            /\ Put(IF FMode(flags) THEN <<U32(Obj.mode[1])>> ELSE <<>>, "PackTimes")
PackTimes == /\ pc = "PackTimes" /\ UNCHANGED <<flags, leak>>
             /\ Put(IF FTimes(flags) THEN <<U32(Obj.atime[1]), U32(Obj.mtime[1])>> ELSE <<>>, "PackExt")
PackExt == /\ pc = "PackExt" /\ UNCHANGED <<flags, leak>>
           /\ Put(IF FExt(flags)
                  THEN <<Count(IF Mutation = "ext_count_short" THEN Len(Obj.ext) - 1 ELSE Len(Obj.ext))>> \o ExtTokens(Obj.ext)
                  ELSE <<>>, "UnpackFlags")

\* the reader: Tok(j) is the j-th token after the read position
Tok(j) == wire[rpos + j]
Take(n, d, next) == rpos' = rpos + n /\ dec' = d /\ pc' = next /\ UNCHANGED <<attrs, flags, wire, round, stored, edits>>

UnpackFlags == /\ pc = "UnpackFlags" /\ UNCHANGED leak
               /\ rflags' = Tok(1).n
               /\ Take(1, dec, "UnpackSize")
UnpackSize == /\ pc = "UnpackSize" /\ UNCHANGED <<rflags, leak>>
              /\ IF FSize(rflags) THEN Take(1, [dec EXCEPT !.size = Some(Tok(1).n)], "UnpackUidGid")
                                  ELSE Take(0, dec, "UnpackUidGid")
UnpackUidGid == /\ pc = "UnpackUidGid" /\ UNCHANGED <<rflags, leak>>
                /\ IF FUidGid(rflags) THEN Take(2, [dec EXCEPT !.uid = Some(Tok(1).n), !.gid = Some(Tok(2).n)], "UnpackMode")
                                      ELSE Take(0, dec, "UnpackMode")
UnpackMode == /\ pc = "UnpackMode" /\ UNCHANGED <<rflags, leak>>
              /\ IF FMode(rflags) THEN Take(1, [dec EXCEPT !.mode = Some(Tok(1).n)], "UnpackTimes")
                                  ELSE Take(0, dec, "UnpackTimes")
UnpackTimes == /\ pc = "UnpackTimes" /\ UNCHANGED <<rflags, leak>>
               /\ IF FTimes(rflags)
                  THEN (IF Mutation = "times_swapped"
                        THEN Take(2, [dec EXCEPT !.atime = Some(Tok(2).n), !.mtime = Some(Tok(1).n)], "UnpackExt")
                        ELSE Take(2, [dec EXCEPT !.atime = Some(Tok(1).n), !.mtime = Some(Tok(2).n)], "UnpackExt"))
                  ELSE Take(0, dec, "UnpackExt")
UnpackExt == /\ pc = "UnpackExt" /\ UNCHANGED rflags
             /\ IF FExt(rflags)
                THEN LET c == Tok(1).n[2]
                         pairs == [j \in 1..c |-> IF FixExtOrder THEN <<Tok(2 * j).s, Tok(2 * j + 1).s>>
                                                                 ELSE <<Tok(2 * j + 1).s, Tok(2 * j).s>>] IN
                     /\ Take(1 + 2 * c, [dec EXCEPT !.ext = Merge(dec.ext, pairs)], "done")
                     /\ leak' = IF SharedExtMap THEN Merge(dec.ext, pairs) ELSE leak     \* ... and so does decoding into it
                ELSE Take(0, dec, "done") /\ UNCHANGED leak

\* the next, independent attribute set: new objects on both sides
NextBlock == /\ pc = "done" /\ round < MaxBlocks
             /\ attrs' \in Inputs
             /\ pc' = "PackFlags" /\ flags' = <<0, 0>> /\ wire' = <<>> /\ rpos' = 0 /\ rflags' = <<0, 0>>
             /\ dec' = Fresh(IF SharedExtMap THEN leak ELSE <<>>)
             /\ round' = round + 1 /\ stored' = <<0, 0>> /\ edits' = 0 /\ UNCHANGED leak

(* ---- the lifecycle of one object ------------------------------------------------- *)
Groups == {"size", "uidgid", "mode", "times", "ext"}
HasGroup(a, g) == CASE g = "size" -> HasSize(a) [] g = "uidgid" -> HasUidGid(a) [] g = "mode" -> HasMode(a)
                    [] g = "times" -> HasTimes(a) [] g = "ext" -> HasExt(a)
\* a with its group g as in b
WithGroup(a, g, b) == CASE g = "size" -> [a EXCEPT !.size = b.size]
                        [] g = "uidgid" -> [a EXCEPT !.uid = b.uid, !.gid = b.gid]
                        [] g = "mode" -> [a EXCEPT !.mode = b.mode]
                        [] g = "times" -> [a EXCEPT !.atime = b.atime, !.mtime = b.mtime]
                        [] g = "ext" -> [a EXCEPT !.ext = b.ext]
\* the object that was just encoded is kept: it remembers the flag word _pack computed
KeepEncoder == /\ Reuse /\ pc = "done" /\ round < MaxBlocks
               /\ pc' = "modify" /\ stored' = flags /\ edits' = 0
               /\ UNCHANGED <<attrs, flags, wire, rpos, rflags, dec, leak, round>>
\* the object that was just decoded (_from_msg) is kept: it remembers the flag word read off the wire
KeepDecoded == /\ Reuse /\ pc = "done" /\ round < MaxBlocks
               /\ pc' = "modify" /\ attrs' = dec /\ stored' = rflags /\ edits' = 0
               /\ UNCHANGED <<flags, wire, rpos, rflags, dec, leak, round>>
SetField(g, b) == /\ pc = "modify" /\ edits < MaxEdits /\ HasGroup(b, g)
                  /\ attrs' = WithGroup(attrs, g, b) /\ edits' = edits + 1
                  /\ UNCHANGED <<pc, flags, wire, rpos, rflags, dec, leak, round, stored>>
ClearField(g) == /\ pc = "modify" /\ edits < MaxEdits /\ HasGroup(attrs, g)
                 /\ attrs' = WithGroup(attrs, g, Empty) /\ edits' = edits + 1
                 /\ UNCHANGED <<pc, flags, wire, rpos, rflags, dec, leak, round, stored>>
\* the kept object (edited or not) is encoded again, and the result decoded into a new object
Repack == /\ pc = "modify"
          /\ pc' = "PackFlags" /\ flags' = <<0, 0>> /\ wire' = <<>> /\ rpos' = 0 /\ rflags' = <<0, 0>>
          /\ dec' = Fresh(IF SharedExtMap THEN leak ELSE <<>>)
          /\ round' = round + 1
          /\ UNCHANGED <<attrs, leak, stored, edits>>

Next == \/ PackFlags \/ PackSize \/ PackUidGid \/ PackMode \/ PackTimes \/ PackExt
        \/ UnpackFlags \/ UnpackSize \/ UnpackUidGid \/ UnpackMode \/ UnpackTimes \/ UnpackExt
        \/ NextBlock
        \/ KeepEncoder \/ KeepDecoded \/ Repack
        \/ (pc = "modify" /\ \E g \in Groups : ClearField(g) \/ \E b \in Inputs : SetField(g, b))   \* (guard first: Inputs is large)
Spec == Init /\ [][Next]_vars

(* ---- invariants (the statement of C33 on the model) ---------------------------- *)
\* (attrs is the input of the CURRENT block only: every invariant below therefore also says that what a block
\*  yields does not depend on the blocks before it)
Packing == pc \in {"PackFlags", "PackSize", "PackUidGid", "PackMode", "PackTimes", "PackExt"}
\* already-read tokens and the unread rest are the whole encoding; the reader never runs past its end
ReaderInside == rpos <= Len(wire) /\ SubSeq(wire, 1, rpos) \o SubSeq(wire, rpos + 1, Len(wire)) = wire
\* as soon as _pack has set the flag word it is exactly the groups present NOW (whatever the object carried before);
\* once _pack is over the steps add up to the whole-set encoding.  (While a kept object is being edited - pc =
\* "modify" - flags, wire and dec still describe its previous encoding.)
PackOK == /\ (pc \notin {"PackFlags", "modify"} => PackClauses(attrs, flags) = {})
          /\ (~Packing /\ pc # "modify" => wire = PackTokens(attrs))
\* the first token always is the flag word
FlagsFirst == pc # "PackFlags" => wire[1] = U32(flags)
\* a field that is absent is never decoded, at any step
AbsentStaysAbsent == pc # "modify" =>
                     /\ (~HasSize(attrs) => dec.size = None) /\ (~HasMode(attrs) => dec.mode = None)
                     /\ (~HasUidGid(attrs) => dec.uid = None /\ dec.gid = None)
                     /\ (~HasTimes(attrs) => dec.atime = None /\ dec.mtime = None)
                     /\ (~HasExt(attrs) => dec.ext = <<>>)
\* nothing is carried from one object to the next: a new object is empty
NoCarryOver == leak = <<>> /\ (pc = "PackFlags" => dec = Empty /\ Obj = attrs)
\* at the end everything written was consumed and every clause of the statement holds
RoundTrip == pc = "done" => rpos = Len(wire) /\ RoundTripClauses(attrs, dec, rflags) = {} /\ dec = attrs
\* emitted for spec -> code replay: one case per attribute set
Emit == (pc = "done" /\ round = 1) => PrintT(<<"CASE", attrs, flags, wire>>)
=============================================================================
