---------------------------- MODULE SigAlg_Trace ----------------------------
(* code -> spec for C07.  One record = one real verification:                      *)
(*   side "client": a full handshake in which the harness is the server; its host   *)
(*        key object signs the exchange hash with `sign` and names `blob`, the only *)
(*        host-key algorithm offered is decl (+ cert suffix); accepted = the client  *)
(*        passed _verify_key and sent NEWKEYS in the exchange `exch` ("initial", or   *)
(*        a re-exchange started by the client / the server after an honest initial   *)
(*        exchange with the same key)                                               *)
(*   side "server": a hand-driven client sent USERAUTH_REQUEST(publickey) naming    *)
(*        decl, with a genuine signature made with `sign` over the correct session  *)
(*        blob, the signature blob naming `blob`; accepted = USERAUTH_SUCCESS /      *)
(*        Transport.is_authenticated(); probe = the algorithm named by an unsigned   *)
(*        request for the same key sent first ("none" if there was none),           *)
(*        probe_ok = it was answered with PK_OK                                     *)
(*   enabled = the verifier's enabled algorithm names as read from the live          *)
(*        Transport (preferred_keys / preferred_pubkeys, cert suffix dropped)        *)
EXTENDS SigAlg, Sequences, Json, IOUtils, TLCExt
Batch == JsonDeserialize(IOEnv.TRACE_FILE)
VARIABLES tid, l, bad
tvars == <<tid, l, bad, vars>>
R == Batch[tid]
En == {R.enabled[i] : i \in 1..Len(R.enabled)}

TInit == tid \in 1..Len(Batch) /\ l = 1 /\ bad = {}
         /\ side = R.side /\ fam = Family(R.decl) /\ decl = R.decl /\ cert = R.cert /\ sign = R.sign /\ blob = R.blob
         /\ enabled = En /\ probe = R.probe /\ exch = R.exch /\ banner = R.banner /\ phase = "start"

Clause(ok, name) == IF ok THEN {} ELSE {name}

TNext == /\ l = 1 /\ l' = 2 /\ tid' = tid
         /\ phase' = IF R.accepted THEN "accepted" ELSE "rejected"
         /\ UNCHANGED <<side, fam, decl, cert, sign, blob, enabled, probe, exch, banner>>
         /\ bad' = Clause(UsesDeclaredP(R.accepted, decl, sign, blob), "P_accepts_algorithm_other_than_declared")
                   \cup Clause(OnlyEnabledP(R.accepted, sign, blob, enabled), "P_accepts_disabled_algorithm")
                   \cup Clause(~R.accepted => ~MayAccept(decl, sign, blob, enabled) \/ ~SessionAlive(probe, enabled),
                               "C_proper_signature_rejected")
                   \cup Clause(probe # "none" => (R.probe_ok = SessionAlive(probe, enabled)), "C_probe_answer_differs")
                   \cup Clause(R.accepted \in {PinnedAccepts(decl, sign, blob, enabled) /\ SessionAlive(probe, enabled),
                                              MayAccept(decl, sign, blob, enabled) /\ SessionAlive(probe, enabled)},
                               "C_matches_neither_pinned_nor_repaired_model")
TSpec == TInit /\ [][TNext]_tvars
Report == /\ (bad # {} => PrintT(<<"VERDICT", tid, bad>>))
          /\ (l = 2 => PrintT(<<"DONE", tid>>))
=============================================================================
