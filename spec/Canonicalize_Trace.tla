------------------------- MODULE Canonicalize_Trace -------------------------
(* code -> spec: each record is one call of the real canonicalize():            *)
(*   comps = the components the driver built the argument from,                  *)
(*   abs   = result starts with "/",  out = result split on "/" (empties dropped) *)
EXTENDS Canonicalize, Json, IOUtils, TLCExt
Batch == JsonDeserialize(IOEnv.TRACE_FILE)
VARIABLES tid, l, bad
tvars == <<tid, l, bad, vars>>
R == Batch[tid]
TInit == tid \in 1..Len(Batch) /\ l = 1 /\ bad = {} /\ Init
TNext == /\ l = 1 /\ l' = 2 /\ tid' = tid
         /\ path' = R.comps /\ stack' = Canon(R.comps) /\ escaped' = FALSE
         /\ bad' = (IF R.abs THEN {} ELSE {"P_not_absolute"})
                   \cup (IF NoDots(R.out) THEN {} ELSE {"P_dot_component"})
                   \cup (IF R.out = Canon(R.comps) THEN {} ELSE {"C_differs_from_fold"})
TSpec == TInit /\ [][TNext]_tvars
Report == /\ (bad # {} => PrintT(<<"VERDICT", tid, bad>>))
          /\ (l = 2 => PrintT(<<"DONE", tid>>))
=============================================================================
