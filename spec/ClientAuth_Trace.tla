------------------------- MODULE ClientAuth_Trace -------------------------
(* code -> spec for X01.  One trace = one call of the real SSHClient._auth with a    *)
(* recording transport / key loader / agent (harness/drivers/clientauth.py):          *)
(*   cfg    = the configuration record of ClientAuth.tla                              *)
(*   events = every outside call _auth made, in order:                                *)
(*            [k, a, b, pos, cert, o, pp]  (call kind, indexes, for discovered keys    *)
(*            the ~/.ssh position and whether it is the certificate, the outcome the    *)
(*            stub answered with, the passphrase argument class for loads)              *)
(*   final  = [status, saved]: how _auth ended; for raised_saved / propagated the index *)
(*            of the event whose exception object came out (identity), else 0           *)
(* The trace spec replays the recorded outcomes on the design spec's variables.  It   *)
(* is total: a call the transcription does not expect is recorded as a clause and the *)
(* behaviour clauses are then evaluated on the recorded call list alone.              *)
(*   P_ clauses: what a user relies on (ClientAuth.tla's invariants on the recording)  *)
(*   C_ clauses: the code no longer follows the transcription (evidence, not an alarm) *)
EXTENDS ClientAuth, Json, IOUtils, TLCExt
Batch == JsonDeserialize(IOEnv.TRACE_FILE)
VARIABLES tid, l, bad, derailed
tvars == <<tid, l, bad, derailed, vars>>
T == Batch[tid]
NEv == Len(T.events)
E(n) == T.events[n]

TInit == /\ tid \in 1..Len(Batch) /\ l = 1 /\ bad = {} /\ derailed = FALSE
         /\ cfg = T.cfg
         /\ pt = First(T.cfg) /\ twof = FALSE /\ nagent = 0 /\ saved = 0 /\ calls = <<>> /\ status = "running"

\* does recorded event e sit at call point p ?
Matches(e, p) ==
  /\ e.k = p.k
  /\ CASE p.k \in {"load", "fauth"}  -> e.a = p.a /\ e.b = p.b
       [] p.k = "agent"              -> e.a = p.a
       [] p.k \in {"dload", "dauth"} -> /\ p.a \in 1..Len(Discovered(cfg))
                                        /\ Discovered(cfg)[p.a] = [pos |-> e.pos, cert |-> e.cert]
                                        /\ e.b = (e.pos + 1) \div 2          \* key class of that position
       [] OTHER                      -> TRUE

Rec(e) == [p |-> P(e.k, e.a, e.b), o |-> e.o, pp |-> e.pp]

TCall == /\ l <= NEv /\ ~derailed
         /\ IF Matches(E(l), pt) /\ E(l).o \in Outcomes(pt, cfg)
            THEN LET r == After(cfg, pt, E(l).o, twof, nagent) IN
                   /\ calls' = Append(calls, [p |-> pt, o |-> E(l).o, pp |-> E(l).pp])
                   /\ pt' = r.pt /\ twof' = r.twof /\ nagent' = r.nagent /\ status' = r.status
                   /\ saved' = IF r.saved THEN l ELSE saved
                   /\ bad' = bad \cup (IF pt.k \in {"load", "dload"} /\ E(l).pp # PassArg(cfg) THEN {"P_passphrase_argument"} ELSE {})
                   /\ UNCHANGED derailed
            ELSE /\ bad' = bad \cup {IF pt.k \in {"end", "done"} THEN "C_call_after_end" ELSE "C_unexpected_call"}
                 /\ derailed' = TRUE
                 /\ UNCHANGED <<pt, twof, nagent, status, saved, calls>>
         /\ l' = l + 1
         /\ UNCHANGED <<tid, cfg>>

\* once derailed the remaining events are only consumed
TSkip == /\ l <= NEv /\ derailed
         /\ l' = l + 1
         /\ UNCHANGED <<tid, bad, derailed, vars>>

(* ---- behaviour clauses on the recorded call list (independent of the transcription) -- *)
RC == [n \in 1..NEv |-> Rec(E(n))]
RecClauses ==
     (IF \E i, j \in 1..NEv : i < j /\ Rank(RC[i].p) > Rank(RC[j].p) THEN {"P_order"} ELSE {})
\cup (IF \E i \in 1..NEv : Success(RC[i]) /\ i # NEv THEN {"P_call_after_success"} ELSE {})
\cup (IF (T.final.status = "returned") # (NEv > 0 /\ Success(RC[NEv])) THEN {"P_result_disagrees_with_last_answer"} ELSE {})
\cup (IF \E i \in 1..NEv : RC[i].p.k \in {"pw", "kbd"} /\ i # NEv THEN {"P_secret_not_last"} ELSE {})
\cup (IF \E i \in 1..NEv : RC[i].p.k = "kbd" /\ (T.cfg.password \/ ~\E j \in 1..(i - 1) : RC[j].o = "twof")
      THEN {"P_interactive_without_demand"} ELSE {})
\cup (IF \E i, j \in 1..NEv : i < j /\ RC[i].o = "twof" /\ RC[i].p.k \in {"pkey", "agent", "dauth"} /\ RC[j].p.k \notin {"pw", "kbd"}
      THEN {"P_key_offered_after_two_factor"} ELSE {})
\cup (IF T.final.status = "raised_saved" /\
         (T.final.saved \notin 1..NEv \/ \E j \in (T.final.saved + 1)..NEv : Caught(RC[j]))
      THEN {"P_raises_stale_error"} ELSE {})
\cup (IF T.final.status = "raised_nomethods" /\ \E j \in 1..NEv : Caught(RC[j]) THEN {"P_error_swallowed"} ELSE {})
\cup (IF T.final.status = "raised_other" THEN {"P_raises_foreign_error"} ELSE {})

TFinal == /\ l = NEv + 1
          /\ LET st == IF derailed THEN T.final.status
                       ELSE IF pt.k = "end" THEN (IF saved # 0 THEN "raised_saved" ELSE "raised_nomethods")
                       ELSE status IN
               /\ status' = st
               /\ bad' = bad \cup RecClauses
                             \cup (IF ~derailed /\ pt.k \notin {"end", "done"} THEN {"C_stopped_early"} ELSE {})
                             \cup (IF ~derailed /\ pt.k \in {"end", "done"} /\ st # T.final.status THEN {"C_status"} ELSE {})
                             \cup (IF ~derailed /\ st = T.final.status /\ st = "raised_saved" /\ T.final.saved # saved
                                   THEN {"C_saved"} ELSE {})
          /\ pt' = Done /\ l' = l + 1
          /\ UNCHANGED <<tid, cfg, twof, nagent, saved, calls, derailed>>

TNext == TCall \/ TSkip \/ TFinal
TSpec == TInit /\ [][TNext]_tvars
Report == l = NEv + 2 => /\ (bad # {} => PrintT(<<"VERDICT", tid, bad>>))
                         /\ PrintT(<<"DONE", tid>>)
=============================================================================
