------------------------ MODULE ChannelStreams_Trace ------------------------
(* code -> spec for C21.  One trace = what ONE channel endpoint returned in one    *)
(* run of the real code: either a channel of two real Transports (many channels,    *)
(* compression, rekeys, seeded chunking; events of the stdout and stderr reader      *)
(* threads merged by completion stamp) or one real Channel under linesched (combine  *)
(* switch racing with the transport thread).  The driver renders every read result   *)
(* from position-encoding payloads as runs {c, s, pos, n, ok}; this module stores    *)
(* them in the design spec's variables (got, swpc, buf, sent, status, ...) and       *)
(* evaluates the DESIGN SPEC'S invariants on the resulting state: per read the        *)
(* routing invariants, at the end (everything delivered and read) order, losslessness *)
(* and the exit status.                                                                *)
(*   t0 / t1 : global stamps taken before the call and after it returned;             *)
(*   comb_t0 / comb_t1 : the same for set_combine_stderr(True) (combine = "mid");      *)
(*   a read that ended before the switch began is in phase "off", one that began      *)
(*   after it returned in phase "on", anything else overlaps the switch.               *)
EXTENDS ChannelStreams, Json, IOUtils, TLCExt
Batch == JsonDeserialize(IOEnv.TRACE_FILE)
VARIABLES tid, l, bad
tvars == <<tid, l, bad, vars>>
T == Batch[tid]
N == Len(T.events)
C == T.chan
(*   combine = "onoff": set_combine_stderr(True) (comb_t0 / comb_t1) and later             *)
(*   set_combine_stderr(False) (off_t0 / off_t1) on the same channel; off_at = stderr     *)
(*   bytes the peer had written when the second call was made; a read that began after    *)
(*   it returned is in phase "offagain".                                                   *)
Phase(e) == IF T.combine = "off" THEN "off"
            ELSE IF T.combine = "onoff" THEN
                   (IF e.t1 < T.comb_t0 THEN "off"
                    ELSE IF e.t0 > T.off_t1 THEN "offagain"
                    ELSE IF e.t0 > T.comb_t1 /\ e.t1 < T.off_t0 THEN "on" ELSE "moved")
            ELSE IF T.combine = "before" THEN "on"
            ELSE IF e.t1 < T.comb_t0 THEN "off"
            ELSE IF e.t0 > T.comb_t1 THEN "on" ELSE "moved"
RunsOf(e) == [j \in 1..Len(e.runs) |-> Run(e.runs[j].c, e.runs[j].s, e.runs[j].pos, e.runs[j].n)]
Fails(ok, name) == IF ok THEN {} ELSE {name}

TInit == tid \in 1..Len(Batch) /\ l = 1 /\ bad = {} /\ Init

\* a read returned: the endpoint's history grows; a stderr read shows what the stderr buffer held
Read ==
  /\ l <= N /\ l' = l + 1 /\ tid' = tid
  /\ LET e == T.events[l] IN
       /\ got' = [got EXCEPT ![C][e.ep] = AppendRuns(@, RunsOf(e))]
       /\ swpc' = [swpc EXCEPT ![C] = Phase(e)]
       /\ offAt' = [offAt EXCEPT ![C] = IF T.combine = "onoff" THEN T.off_at ELSE 0]
       /\ buf' = [buf EXCEPT ![C].err = IF e.ep = "err" THEN RunsOf(e) ELSE <<>>]
       /\ wire' = <<Run(C, "out", 0, 0)>>                      \* not drained yet
       /\ UNCHANGED <<sent, statusSent, combine, moved, tpc, status, pstate, shut, statusEv, reported, win>>
       /\ bad' = Fails(RightChannel', "P_right_channel")
                 \cup Fails(RightStream', "P_right_stream")
                 \cup Fails(CombinedMeansNoStderr', "P_stderr_after_combine")
                 \cup Fails(\A j \in 1..Len(e.runs) : e.runs[j].ok, "P_intact")

\* every thread has finished, both endpoints are at EOF / drained
Final ==
  /\ l = N + 1 /\ l' = l + 1 /\ tid' = tid
  /\ wire' = <<>>
  /\ buf' = [buf EXCEPT ![C] = [out |-> <<>>, err |-> <<>>]]
  /\ sent' = [sent EXCEPT ![C] = [out |-> T.sent.out, err |-> T.sent.err]]
  /\ statusSent' = [statusSent EXCEPT ![C] = T.status_sent]
  /\ status' = [status EXCEPT ![C] = IF T.status_got = Unread THEN None ELSE T.status_got]
  /\ reported' = [reported EXCEPT ![C] = T.status_got]       \* what recv_exit_status() returned (Unread: not called)
  /\ UNCHANGED <<got, swpc, offAt, combine, moved, tpc, pstate, shut, statusEv, win>>
  /\ bad' = Fails(OutInOrder', "P_stdout_order")
            \cup Fails(ErrInOrder', "P_stderr_order")
            \cup Fails(Lossless', "P_lossless")
            \cup Fails(ExitStatusRight', "P_exit_status")

TSpec == TInit /\ [][Read \/ Final]_tvars
Report == /\ (bad # {} => PrintT(<<"VERDICT", tid, l - 1, bad>>))
          /\ (l = N + 2 => PrintT(<<"DONE", tid>>))
=============================================================================
