-------------------------- MODULE ClientRefusal_Gen --------------------------
(* spec -> code for C18.  ClientRefusal with the history of steps.                       *)
(* AllSpec: the design spec's Next with `hist` recorded; the VIEW is the design spec's    *)
(* variables, so the run IS the exhaustive model check of ClientRefusal (C18 is checked   *)
(* in it) and TLC (breadth first, one worker) reaches every state first by a shortest     *)
(* history.  EmitWit prints that history for every state whose last step is a client      *)
(* operation: such a shortest history contains client operations only (a server event     *)
(* changes nothing but `last`).  The check keeps one witness per control state, replays   *)
(* it on a real client and fires every server event of the alphabet (EVENTS) in the       *)
(* state reached.  GSpec in -simulate mode produces random mixed histories of bounded     *)
(* length (SimEmit).  ClientRefusal_Trace judges what the client answered.                *)
EXTENDS ClientRefusal
CONSTANT MaxLen
VARIABLE hist
GInit == Init /\ hist = <<>>
GNext == /\ Len(hist) < MaxLen
         /\ Next
         /\ hist' = Append(hist, <<last'.op, last'.arg, last'.flag>>)
GSpec == GInit /\ [][GNext]_<<vars, hist>>
AllNext == Next /\ hist' = Append(hist, <<last'.op, last'.arg, last'.flag>>)
AllSpec == GInit /\ [][AllNext]_<<vars, hist>>
\* the same restricted to client operations: reaches every control state (server events change nothing but `last`)
\* at a fraction of the cost; used for the witnesses while ClientRefusal!Spec is model-checked separately
OpsNext == ClientOp /\ hist' = Append(hist, <<last'.op, last'.arg, last'.flag>>)
OpsSpec == GInit /\ [][OpsNext]_<<vars, hist>>
ViewAll == vars
Control == [authed |-> authed, chan |-> chan, x11H |-> x11H, agentH |-> agentH, tcpH |-> tcpH,
            x11Req |-> x11Req, agentReq |-> agentReq, fwd |-> fwd, hadFwd |-> hadFwd, refusedLast |-> refusedLast, subsysReg |-> subsysReg, x11Out |-> x11Out]
EmitWit == last.op \notin {"global", "open", "chanreq"} => PrintT(<<"WIT", Control, hist>>)
SimEmit == Len(hist) = MaxLen => PrintT(<<"HIST", hist>>)
Events == {<<"global", k, w>> : k \in GlobalKinds, w \in BOOLEAN}
          \cup {<<"open", k, FALSE>> : k \in OpenKinds}
          \cup {<<"chanreq", t, w>> : t \in ReqTypes, w \in BOOLEAN}
ASSUME PrintT(<<"EVENTS", Events>>)
=============================================================================
