------------------------- MODULE AcceptQueue_Trace -------------------------
(* code -> spec for X02.  One trace = one schedule of real threads on a real          *)
(* Transport object (accept() callers, the transport thread queueing channels and,     *)
(* optionally, ending the session) under linesched.  Events are logged at the          *)
(* linearization points, in the order the scheduler gave them effect:                  *)
(*   [op |-> "queue",  ch |-> k]                 _queue_incoming_channel returned      *)
(*   [op |-> "end"]                              active := False (before notify_all)   *)
(*   [op |-> "accept", who, timed, ch (0 = None), expired (virtual clock passed the     *)
(*        deadline), active (value of Transport.active when the call returned)]         *)
(*   final: [queue |-> what is left in server_accepts, blocked |-> callers still in     *)
(*        accept() when nothing can run any more, ended |-> session ended]              *)
(* The contract state (set of queued, not yet delivered channels in order) is replayed. *)
EXTENDS Naturals, Sequences, FiniteSets, TLC, Json, IOUtils, TLCExt
Batch == JsonDeserialize(IOEnv.TRACE_FILE)
VARIABLES tid, l, q, act, bad
tvars == <<tid, l, q, act, bad>>
T == Batch[tid]
N == Len(T.events)
TInit == tid \in 1..Len(Batch) /\ l = 1 /\ q = <<>> /\ act = TRUE /\ bad = {}
InQ(k) == \E i \in 1..Len(q) : q[i] = k
Without(k) == SelectSeq(q, LAMBDA x : x # k)
Step ==
  /\ l <= N /\ l' = l + 1 /\ UNCHANGED tid
  /\ LET e == T.events[l] IN
     CASE e.op = "queue" -> q' = Append(q, e.ch) /\ UNCHANGED <<act, bad>>
       [] e.op = "end"   -> act' = FALSE /\ UNCHANGED <<q, bad>>
       [] OTHER ->        \* accept returned
            /\ UNCHANGED act
            /\ IF e.ch # 0
               THEN /\ q' = Without(e.ch)
                    /\ bad' = bad \cup (IF ~InQ(e.ch) THEN {"P_channel_delivered_twice_or_never_queued"} ELSE {})
                                  \cup (IF InQ(e.ch) /\ Head(q) # e.ch THEN {"P_not_fifo"} ELSE {})
               ELSE /\ UNCHANGED q
                    /\ bad' = bad \cup (IF ~e.timed /\ act THEN {"P_untimed_accept_returned_none_while_active"} ELSE {})
                                  \cup (IF e.timed /\ act /\ ~e.expired THEN {"P_timed_accept_returned_none_early"} ELSE {})
Final ==
  /\ l = N + 1 /\ l' = l + 1 /\ UNCHANGED <<tid, q, act>>
  /\ bad' = bad \cup (IF T.final.queue # q THEN {"P_queue_content_lost_or_reordered"} ELSE {})
                \cup (IF T.final.blocked > 0 /\ (Len(q) > 0 \/ ~act) THEN {"P_accept_blocked_with_channel_or_after_end"} ELSE {})
TSpec == TInit /\ [][Step \/ Final]_tvars
Report == l = N + 2 => /\ (bad # {} => PrintT(<<"VERDICT", tid, bad>>))
                       /\ PrintT(<<"DONE", tid>>)
=============================================================================
