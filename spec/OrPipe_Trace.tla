---------------------------- MODULE OrPipe_Trace ----------------------------
(* code -> spec for C24.  One trace = one schedule of real threads (transport    *)
(* feeding stdout/stderr or delivering EOF, readers draining either stream) on a  *)
(* real Channel after fileno(), run under linesched with a switch point at every  *)
(* source line of paramiko/pipe.py.  The contract state (bytes buffered per       *)
(* stream, eof) is replayed from the logged operations; the last record is the    *)
(* observation select([fd],[],[],0) made once every thread has finished.          *)
EXTENDS Naturals, Sequences, TLC, Json, IOUtils, TLCExt
Batch == JsonDeserialize(IOEnv.TRACE_FILE)
VARIABLES tid, l, out, err, eof, bad
tvars == <<tid, l, out, err, eof, bad>>
T == Batch[tid]
N == Len(T.events)
TInit == tid \in 1..Len(Batch) /\ l = 1 /\ bad = {}
         /\ out = Batch[tid].init[1] /\ err = Batch[tid].init[2] /\ eof = (Batch[tid].init[3] = 1)   \* EOF before fileno()
ShouldBeReadable == out > 0 \/ err > 0 \/ eof
Step ==
  /\ l <= N /\ l' = l + 1 /\ tid' = tid /\ bad' = {}
  /\ LET e == T.events[l] IN
     CASE e.op = "f1"  -> out' = out + e.n /\ UNCHANGED <<err, eof>>
       [] e.op = "f2"  -> err' = err + e.n /\ UNCHANGED <<out, eof>>
       [] e.op = "eof" -> eof' = TRUE /\ UNCHANGED <<out, err>>
       [] e.op = "r1"  -> out' = out - e.n /\ UNCHANGED <<err, eof>>     \* n = bytes the read returned
       [] e.op = "r2"  -> err' = err - e.n /\ UNCHANGED <<out, eof>>
Observe ==
  /\ l = N + 1 /\ l' = l + 1 /\ UNCHANGED <<tid, out, err, eof>>
  /\ bad' = IF ~T.quiescent THEN {"C_not_quiescent"}
            ELSE (IF T.obs.out = out /\ T.obs.err = err /\ T.obs.eof = eof THEN {} ELSE {"C_buffer_accounting"})
                 \cup (IF T.obs.readable <=> ShouldBeReadable THEN {}
                       ELSE IF ShouldBeReadable THEN {"P_not_readable_with_data_or_eof"}
                       ELSE {"P_readable_without_data"})
TSpec == TInit /\ [][Step \/ Observe]_tvars
Report == /\ (bad # {} => PrintT(<<"VERDICT", tid, l - 1, bad>>))
          /\ (l = N + 2 => PrintT(<<"DONE", tid>>))
=============================================================================
