--------------------------- MODULE BufferedStream ---------------------------
(* C42.  paramiko.file.BufferedFile wrapped around a byte stream (a channel, a     *)
(* socket ...) that delivers its bytes in arbitrary chunks and may accept writes   *)
(* partially.  The model follows the code's own loops (paramiko/file.py):          *)
(*   read(n)      CallRead    / ReadFetch*      / ReadReturn      (lines 193-213)  *)
(*   read()       CallReadAll / ReadAllFetch*   / ReadAllReturn   (lines 177-192)  *)
(*   readline(s)  CallReadline/ ReadlineFetch*  / ReadlineReturn  (lines 242-318,  *)
(*                without the universal-newline flag)                              *)
(*   write(d)     CallWrite   / WriteAccept*                      (lines 381-406,  *)
(*                _write_all 502-515)                                              *)
(*   flush/close  CallFlush / CallClose / WriteAccept*                             *)
(* Each Fetch is one call of the subclass's _read, each Accept one call of _write. *)
(* The reference ("exactly the underlying byte stream, lines end at newlines and   *)
(* respect size limits") is RefRead / RefLine on the not-yet-returned rest of the  *)
(* stream; the write side is sink \o pend \o wbuf = written, flush/close complete,  *)
(* line buffering delivers through the last newline.                               *)
EXTENDS Integers, Sequences, TLC

CONSTANTS Alphabet,     \* byte values of the model's streams; LF = 10 must be one of them
          MaxSrc,       \* longest input stream
          MaxOps,       \* calls per behaviour
          ReadArgs,     \* arguments (>= 0) of read(n) and readline(size); readline also runs without a limit (-1)
          MaxWrite,     \* longest argument of write
          Bufs,         \* bufsize values a file may be opened with: 0 unbuffered, 1 line buffered, > 1 that size
          DefaultBuf,   \* BufferedFile._DEFAULT_BUFSIZE (8192; only a request size, the stream decides what it delivers)
          Sides,        \* subset of {"r", "w", "rw"}: which half of the interface a behaviour uses (the halves share no state)
          LineFlushThroughNewline,  \* FALSE: line-buffered flush stops before the newline (seeded defect)
          KeepTruncatedTail,        \* FALSE: readline(size) forgets the bytes beyond size (seeded defect)
          WriteFails,               \* TRUE: one call of the stream's _write may raise (timeout ...) while a buffer is flushed
          RaiseAfterPartial,        \* TRUE: ... also after the same _write_all already pushed part of the data
          TailAtZero                \* TRUE: a failed flush() keeps the unsent tail in a buffer positioned at 0 (seeded defect)

LF == 10
Min(a, b) == IF a < b THEN a ELSE b
Max(a, b) == IF a > b THEN a ELSE b
Take(s, n) == SubSeq(s, 1, Min(n, Len(s)))
Drop(s, n) == SubSeq(s, Min(n, Len(s)) + 1, Len(s))
HasLF(s)   == \E i \in 1..Len(s) : s[i] = LF
FirstLF(s) == IF HasLF(s) THEN CHOOSE i \in 1..Len(s) : s[i] = LF /\ \A j \in 1..(i - 1) : s[j] # LF ELSE 0
LastLF(s)  == IF HasLF(s) THEN CHOOSE i \in 1..Len(s) : s[i] = LF /\ \A j \in (i + 1)..Len(s) : s[j] # LF ELSE 0
IsPrefix(p, s) == Len(p) <= Len(s) /\ SubSeq(s, 1, Len(p)) = p
SeqsUpTo(n) == UNION {[1..k -> Alphabet] : k \in 0..n}

(* ---- reference: what the statement says a call returns, given the rest of the stream ---- *)
RefRead(rest, n) == IF n < 0 THEN rest ELSE Take(rest, n)
RefLine(rest, lim) ==
  LET cap  == IF lim < 0 THEN rest ELSE Take(rest, lim)
      p    == FirstLF(cap)
  IN IF p = 0 THEN cap ELSE Take(cap, p)

(* the clauses of the statement on one returned value (used by the invariants below and by the   *)
(* trace spec): op in {"read", "readline"}, n the size argument (-1 = none), rest = stream bytes  *)
(* not yet returned, ret = the value returned                                                     *)
ReadBad(op, n, rest, ret) ==
     (IF ~IsPrefix(ret, rest) THEN {"P_stream_order"} ELSE {})
  \cup (IF n >= 0 /\ Len(ret) > n THEN {"P_size_limit"} ELSE {})
  \cup (IF ret = <<>> /\ n # 0 /\ rest # <<>> THEN {"P_empty_before_eof"} ELSE {})
  \cup (IF op = "read" /\ n < 0 /\ IsPrefix(ret, rest) /\ ret # rest THEN {"P_read_all_incomplete"} ELSE {})
  \cup (IF op = "readline" /\ \E i \in 1..(Len(ret) - 1) : ret[i] = LF THEN {"P_line_spans_newline"} ELSE {})
  \cup (IF op = "readline" /\ IsPrefix(ret, rest) /\ ret # <<>> /\ ret[Len(ret)] # LF
           /\ Len(ret) < Len(rest) /\ (n < 0 \/ Len(ret) < n) THEN {"P_line_cut_short"} ELSE {})
  \cup (IF op = "read" /\ n >= 0 /\ IsPrefix(ret, rest) /\ Len(ret) < Min(n, Len(rest)) /\ ret # <<>>
        THEN {"C_short_read"} ELSE {})

(* the clauses on the write side after a call returned: written/sunk include this call *)
WriteBad(op, buf, written_, sunk) ==
     (IF ~IsPrefix(sunk, written_) THEN {"P_write_order"} ELSE {})
  \cup (IF op \in {"flush", "close"} /\ sunk # written_ THEN {"P_flush_incomplete"} ELSE {})
  \cup (IF op = "write" /\ buf = 1 /\ Len(sunk) < LastLF(written_) THEN {"P_line_not_delivered"} ELSE {})
  \cup (IF op = "write" /\ buf = 0 /\ sunk # written_ THEN {"C_unbuffered_held"} ELSE {})
  \cup (IF op = "write" /\ buf > 1 /\ Len(written_) - Len(sunk) >= buf THEN {"C_buffer_overfull"} ELSE {})

(* ---- the file object ---- *)
VARIABLES Buf, side,            \* how the file was opened (fixed in Init)
          src, off,             \* the input stream and how much of it the stream has delivered
          rbuf, line, arg, eof, \* BufferedFile._rbuffer; locals of the running read call
          wbuf, pend,           \* BufferedFile._wbuffer; the data _write_all still has to push
          sink, written,        \* bytes the stream accepted; concatenation of all write() arguments
          returned,             \* concatenation of everything read calls returned
          pc, closed, ops,
          lastop, lastret, lastexp,   \* the last call, its value and what the reference says
          wx,                   \* write-failure bookkeeping: [start, restore, viaflush, wpos, fails, err] (see WriteRaise)
          ev                    \* the last step, for generated behaviours (kept out of the state VIEW)
vars == <<wx, Buf, side, src, off, rbuf, line, arg, eof, wbuf, pend, sink, written, returned, pc, closed, ops, lastop, lastret, lastexp, ev>>
View == <<wx, Buf, side, src, off, rbuf, line, arg, eof, wbuf, pend, sink, written, returned, pc, closed, ops, lastop, lastret, lastexp>>

Rest    == SubSeq(src, off + 1, Len(src))
BufSize == IF Buf > 1 THEN Buf ELSE DefaultBuf          \* self._bufsize
Buffered == Buf # 0
Event(t, op, n, d, a, b) == [t |-> t, op |-> op, n |-> n, d |-> d, a |-> a, b |-> b]

DoReads  == side \in {"r", "rw"}
DoWrites == side \in {"w", "rw"}
Init == /\ Buf \in Bufs /\ side \in Sides
        /\ src \in (IF DoReads THEN SeqsUpTo(MaxSrc) ELSE {<<>>})
        /\ off = 0 /\ rbuf = <<>> /\ line = <<>> /\ arg = 0 /\ eof = FALSE
        /\ wbuf = <<>> /\ pend = <<>> /\ sink = <<>> /\ written = <<>> /\ returned = <<>>
        /\ pc = "idle" /\ closed = FALSE /\ ops = 0
        /\ lastop = "none" /\ lastret = <<>> /\ lastexp = <<>>
        /\ ev = Event("init", "none", 0, <<>>, 0, 0)
        /\ wx = [start |-> <<>>, restore |-> <<>>, viaflush |-> FALSE, wpos |-> 0, fails |-> 0, err |-> FALSE]

CanCall == pc = "idle" /\ ~closed /\ ops < MaxOps
\* one call of _read(ask): the stream hands over 1..ask of its remaining bytes, nothing only at its end
Delivered(ask) == IF Rest = <<>> THEN {0} ELSE 1..Min(ask, Len(Rest))
Chunk(k) == SubSeq(src, off + 1, off + k)

(* read(n), n >= 0 *)
CallRead(n) ==
  /\ CanCall /\ DoReads /\ n >= 0
  /\ lastop' = "read" /\ arg' = n /\ ops' = ops + 1 /\ lastexp' = RefRead(rbuf \o Rest, n)
  /\ IF n <= Len(rbuf)
     THEN /\ lastret' = Take(rbuf, n) /\ rbuf' = Drop(rbuf, n) /\ returned' = returned \o Take(rbuf, n)
          /\ pc' = "idle" /\ ev' = Event("callret", "read", n, Take(rbuf, n), 0, 0)
          /\ UNCHANGED eof
     ELSE /\ pc' = "read_fill" /\ eof' = FALSE /\ ev' = Event("call", "read", n, <<>>, 0, 0)
          /\ UNCHANGED <<lastret, rbuf, returned>>
  /\ UNCHANGED <<src, off, line, wbuf, pend, sink, written, closed>>
ReadFetch ==
  /\ pc = "read_fill" /\ Len(rbuf) < arg /\ ~eof
  /\ LET need == arg - Len(rbuf)
         ask  == IF Buffered THEN Max(BufSize, need) ELSE need
     IN \E k \in Delivered(ask) :
          /\ IF k = 0 THEN eof' = TRUE /\ UNCHANGED <<rbuf, off>>
                      ELSE rbuf' = rbuf \o Chunk(k) /\ off' = off + k /\ UNCHANGED eof
          /\ ev' = Event("fetch", "read", 0, <<>>, ask, k)
  /\ UNCHANGED <<src, line, arg, wbuf, pend, sink, written, returned, pc, closed, ops, lastop, lastret, lastexp>>
ReadReturn ==
  /\ pc = "read_fill" /\ (Len(rbuf) >= arg \/ eof)
  /\ lastret' = Take(rbuf, arg) /\ rbuf' = Drop(rbuf, arg) /\ returned' = returned \o Take(rbuf, arg)
  /\ pc' = "idle" /\ ev' = Event("ret", "read", arg, Take(rbuf, arg), 0, 0)
  /\ UNCHANGED <<src, off, line, arg, eof, wbuf, pend, sink, written, closed, ops, lastop, lastexp>>

(* read() *)
CallReadAll ==
  /\ CanCall /\ DoReads
  /\ lastop' = "readall" /\ arg' = -1 /\ ops' = ops + 1 /\ lastexp' = RefRead(rbuf \o Rest, -1)
  /\ line' = rbuf /\ rbuf' = <<>> /\ eof' = FALSE /\ pc' = "readall_fill"
  /\ ev' = Event("call", "read", -1, <<>>, 0, 0)
  /\ UNCHANGED <<src, off, wbuf, pend, sink, written, returned, closed, lastret>>
ReadAllFetch ==
  /\ pc = "readall_fill" /\ ~eof
  /\ \E k \in Delivered(DefaultBuf) :
       /\ IF k = 0 THEN eof' = TRUE /\ UNCHANGED <<line, off>>
                   ELSE line' = line \o Chunk(k) /\ off' = off + k /\ UNCHANGED eof
       /\ ev' = Event("fetch", "read", 0, <<>>, DefaultBuf, k)
  /\ UNCHANGED <<src, rbuf, arg, wbuf, pend, sink, written, returned, pc, closed, ops, lastop, lastret, lastexp>>
ReadAllReturn ==
  /\ pc = "readall_fill" /\ eof
  /\ lastret' = line /\ returned' = returned \o line /\ line' = <<>> /\ pc' = "idle"
  /\ ev' = Event("ret", "read", -1, line, 0, 0)
  /\ UNCHANGED <<src, off, rbuf, arg, eof, wbuf, pend, sink, written, closed, ops, lastop, lastexp>>

(* readline(size): size = -1 for "no limit"; iteration (__next__) is readline(-1) *)
SizeHit == arg >= 0 /\ Len(line) >= arg        \* "if len(line) >= size: truncate line; break"
Break   == SizeHit \/ HasLF(line)              \* "if linefeed_byte in line: break"
CallReadline(size) ==
  /\ CanCall /\ DoReads
  /\ lastop' = "readline" /\ arg' = size /\ ops' = ops + 1 /\ lastexp' = RefLine(rbuf \o Rest, size)
  /\ line' = rbuf /\ eof' = FALSE /\ pc' = "readline_loop"
  /\ ev' = Event("call", "readline", size, <<>>, 0, 0)
  /\ UNCHANGED <<src, off, rbuf, wbuf, pend, sink, written, returned, closed, lastret>>
ReadlineFetch ==
  /\ pc = "readline_loop" /\ ~Break /\ ~eof
  /\ LET ask == IF arg >= 0 THEN arg - Len(line) ELSE BufSize
     IN \E k \in Delivered(ask) :
          /\ IF k = 0 THEN eof' = TRUE /\ UNCHANGED <<line, off>>
                      ELSE line' = line \o Chunk(k) /\ off' = off + k /\ UNCHANGED eof
          /\ ev' = Event("fetch", "readline", 0, <<>>, ask, k)
  /\ UNCHANGED <<src, rbuf, arg, wbuf, pend, sink, written, returned, pc, closed, ops, lastop, lastret, lastexp>>
ReadlineReturn ==
  /\ pc = "readline_loop" /\ (Break \/ eof)
  /\ LET tail == IF SizeHit /\ KeepTruncatedTail THEN Drop(line, arg) ELSE <<>>    \* self._rbuffer = line[size:]
         head == IF SizeHit THEN Take(line, arg) ELSE line                          \* line = line[:size]
         p    == FirstLF(head)
         ret  == IF p = 0 THEN head ELSE Take(head, p)
     IN /\ lastret' = ret /\ returned' = returned \o ret
        /\ rbuf' = IF ~Break THEN <<>>                       \* EOF: self._rbuffer = bytes()
                   ELSE IF p = 0 THEN tail ELSE Drop(head, p) \o tail
        /\ ev' = Event("ret", "readline", arg, ret, 0, 0)
  /\ line' = <<>> /\ pc' = "idle"
  /\ UNCHANGED <<src, off, arg, eof, wbuf, pend, sink, written, closed, ops, lastop, lastexp>>

(* write / flush / close *)
\* _wbuffer is a BytesIO: bytes plus a write position (wx.wpos; at the end of the bytes unless TailAtZero struck).
\* wx.start = the data handed to the running _write_all, wx.restore = what _wbuffer holds if that _write_all raises
\* (4.0.0 resets the buffer only after _write_all returned), wx.viaflush = it runs inside flush().
Put(b, p, d) == Take(b, p) \o d \o Drop(b, p + Len(d))
StartWriteAll(data) == /\ pend' = data /\ pc' = IF data = <<>> THEN "idle" ELSE "write_all"
Begin(data, restore, viaflush, newpos) ==
  wx' = [wx EXCEPT !.start = data, !.restore = restore, !.viaflush = viaflush, !.wpos = newpos, !.err = FALSE]
CallWrite(d) ==
  /\ CanCall /\ DoWrites /\ d # <<>>
  /\ lastop' = "write" /\ ops' = ops + 1 /\ written' = written \o d
  /\ ev' = Event("call", "write", 0, d, 0, 0)
  /\ IF ~Buffered THEN StartWriteAll(d) /\ Begin(d, <<>>, FALSE, 0) /\ UNCHANGED wbuf
     ELSE LET w  == Put(wbuf, wx.wpos, d)          \* self._wbuffer.write(data)
              np == wx.wpos + Len(d)                \* self._wbuffer.tell()
          IN
          IF Buf = 1
          THEN LET p == LastLF(d)                                  \* only the new data is scanned
                   q == p + Len(w) - Len(d)
                   cut == IF LineFlushThroughNewline THEN q ELSE q - 1
               IN IF p > 0 THEN StartWriteAll(Take(w, cut)) /\ wbuf' = Drop(w, cut) /\ Begin(Take(w, cut), w, FALSE, Len(Drop(w, cut)))
                           ELSE wbuf' = w /\ Begin(<<>>, <<>>, FALSE, np) /\ UNCHANGED <<pend, pc>>
          ELSE IF np >= Buf THEN StartWriteAll(w) /\ wbuf' = <<>> /\ Begin(w, w, TRUE, 0)
                            ELSE wbuf' = w /\ Begin(<<>>, <<>>, FALSE, np) /\ UNCHANGED <<pend, pc>>
  /\ UNCHANGED <<src, off, rbuf, line, arg, eof, sink, returned, closed, lastret, lastexp>>
WriteAccept ==          \* one call of _write(data): the stream takes 1..len(data) bytes
  /\ pc = "write_all" /\ pend # <<>>
  /\ \E k \in 1..Len(pend) :
       /\ sink' = sink \o Take(pend, k) /\ pend' = Drop(pend, k)
       /\ pc' = IF k = Len(pend) THEN "idle" ELSE "write_all"
       /\ ev' = Event("accept", lastop, 0, <<>>, Len(pend), k)
  /\ closed' = (closed \/ (lastop = "close" /\ pc' = "idle"))
  /\ UNCHANGED <<src, off, rbuf, line, arg, eof, wbuf, written, returned, ops, lastop, lastret, lastexp, wx>>
WriteRaise ==           \* one call of _write(data) raises: the running write / flush / close raises to its caller
  /\ pc = "write_all" /\ pend # <<>> /\ WriteFails /\ wx.fails < 1 /\ Buffered
  /\ (RaiseAfterPartial \/ pend = wx.start)
  /\ LET seeded == TailAtZero /\ wx.viaflush IN
       /\ wbuf' = IF seeded THEN pend ELSE wx.restore            \* BytesIO(wbuf[written - before:]) | buffer untouched
       /\ wx' = [wx EXCEPT !.wpos = IF seeded THEN 0 ELSE Len(wx.restore), !.fails = @ + 1, !.err = TRUE]
  /\ pend' = <<>> /\ pc' = "idle" /\ ev' = Event("raise", lastop, 0, <<>>, Len(pend), 0)
  /\ UNCHANGED <<src, off, rbuf, line, arg, eof, sink, written, returned, closed, ops, lastop, lastret, lastexp>>
CallFlush ==
  /\ CanCall /\ DoWrites
  /\ lastop' = "flush" /\ ops' = ops + 1 /\ StartWriteAll(wbuf) /\ wbuf' = <<>> /\ Begin(wbuf, wbuf, TRUE, 0)
  /\ ev' = Event("call", "flush", 0, <<>>, 0, 0)
  /\ UNCHANGED <<src, off, rbuf, line, arg, eof, sink, written, returned, closed, lastret, lastexp>>
CallClose ==
  /\ CanCall /\ DoWrites
  /\ lastop' = "close" /\ ops' = ops + 1 /\ StartWriteAll(wbuf) /\ wbuf' = <<>> /\ Begin(wbuf, wbuf, TRUE, 0)
  /\ closed' = (wbuf = <<>>)
  /\ ev' = Event("call", "close", 0, <<>>, 0, 0)
  /\ UNCHANGED <<src, off, rbuf, line, arg, eof, sink, written, returned, lastret, lastexp>>

Next == /\ \/ /\ \/ \E n \in ReadArgs : CallRead(n)
                 \/ \E n \in ReadArgs \cup {-1} : CallReadline(n)
                 \/ CallReadAll \/ ReadFetch \/ ReadReturn \/ ReadAllFetch \/ ReadAllReturn \/ ReadlineFetch \/ ReadlineReturn
              /\ UNCHANGED wx
           \/ \E d \in SeqsUpTo(MaxWrite) : CallWrite(d)
           \/ WriteAccept \/ WriteRaise \/ CallFlush \/ CallClose
        /\ UNCHANGED <<Buf, side>>
Spec == Init /\ [][Next]_vars

(* ---- properties ---- *)
Idle == pc = "idle"
\* nothing is lost, duplicated or reordered between the stream and the caller
Held == IF pc \in {"readall_fill", "readline_loop"} THEN line ELSE rbuf
ReadConservation == returned \o Held \o Rest = src
\* every returned value is what the statement says (all clauses of ReadBad, conformance ones included)
ReturnsReference == (Idle /\ lastop \in {"read", "readall", "readline"}) =>
                       /\ lastret = lastexp
                       /\ ReadBad(IF lastop = "readline" THEN "readline" ELSE "read", arg, lastret \o Held \o Rest, lastret) = {}
\* write side
WriteConservation == sink \o pend \o wbuf = written
\* a call that raised reported its error; after a failure the "immediately" / buffer-bound clauses no longer apply,
\* "complete and in order by flush or close" does
AfterFailure == {"P_line_not_delivered", "C_unbuffered_held", "C_buffer_overfull"}
WriteClauses == (Idle /\ lastop \in {"write", "flush", "close"} /\ ~wx.err) =>
                   WriteBad(lastop, Buf, written, sink) \ (IF wx.fails > 0 THEN AfterFailure ELSE {}) = {}
LineDelivered == (Idle /\ Buf = 1 /\ wx.fails = 0) => Len(sink) >= LastLF(written)
ClosedFlushed == closed => sink = written
=============================================================================
