------------------------------- MODULE Framing -------------------------------
(* C03.  One packet at a time through Packetizer.send_message:                  *)
(*   BuildPacket   _build_packet: padding, length field                          *)
(*   Encrypt       the cipher is applied to the packet (ETM / AES-GCM: not to    *)
(*                 the 4 length bytes)                                           *)
(*   AppendMac     the MAC (or the GCM tag) is appended, the bytes are written   *)
(*   SetOutboundCipher   a key switch on the SAME Packetizer: the framing mode,   *)
(*                 block size and MAC length are those of the new key epoch      *)
(* for every payload length 0..MaxN, block size, framing mode and MAC length,   *)
(* and every sequence of up to MaxSwitch key switches between them.             *)
(* The invariant is RFC 4253 section 6 on the packet that reaches the socket,   *)
(* judged with the mode of the epoch the packet is written in.                  *)
EXTENDS FramingDefs, TLC

CONSTANTS MaxN,         \* payload lengths 0..MaxN
          MaxSwitch,    \* key switches on one Packetizer
          PadBase,      \* the "3" of `padding = 3 + bsize - ...` (any other value is a mutation)
          StaleAlign    \* TRUE = mutation: the header length excluded from alignment is remembered from an
                        \* earlier epoch (lowered to 4 by an ETM / AEAD epoch, never put back) instead of
                        \* being taken from the current mode

BlockSizes == {8, 16}
MacSizes(mode) == IF mode = "plain" THEN {0} ELSE IF mode = "aead" THEN {16} ELSE {12, 16, 20, 32, 64}
BlocksOf(mode) == IF mode = "plain" THEN {8} ELSE IF mode = "aead" THEN {16} ELSE BlockSizes

VARIABLES n, b, mode, mac,   \* the configuration of the current key epoch and the payload length of the packet in hand
          stage,             \* "idle" | "built" | "encrypted" | "written"
          pkt,               \* what has been computed so far
          nsw,               \* key switches so far
          align              \* header bytes _build_packet counts into the aligned portion
vars == <<n, b, mode, mac, stage, pkt, nsw, align>>
None == [n |-> 0, b |-> 0, mode |-> "none", mac |-> 0, padlen |-> 0, len_field |-> 0, enc_len |-> 0, raw_len |-> 0]

Init == /\ mode \in Modes /\ b \in BlocksOf(mode) /\ mac \in MacSizes(mode)
        /\ n = 0 /\ stage = "idle" /\ pkt = None /\ nsw = 0 /\ align = AddLen(mode)

BuildPacket == /\ stage = "idle"
               /\ LET padding == PadBase + b - ((n + align) % b) IN
                    pkt' = [None EXCEPT !.n = n, !.b = b, !.mode = mode, !.mac = mac,
                                        !.padlen = padding, !.len_field = n + padding + 1]
               /\ stage' = "built" /\ UNCHANGED <<n, b, mode, mac, nsw, align>>
Encrypt     == /\ stage = "built"
               /\ pkt' = [pkt EXCEPT !.enc_len = IF LenInClear(mode) THEN pkt.len_field ELSE 4 + pkt.len_field]
               /\ stage' = "encrypted" /\ UNCHANGED <<n, b, mode, mac, nsw, align>>
AppendMac   == /\ stage = "encrypted"
               /\ pkt' = [pkt EXCEPT !.raw_len = 4 + pkt.len_field + mac]
               /\ stage' = "written" /\ UNCHANGED <<n, b, mode, mac, nsw, align>>
NextPayload == /\ stage = "written" /\ n < MaxN
               /\ n' = n + 1 /\ stage' = "idle" /\ pkt' = None /\ UNCHANGED <<b, mode, mac, nsw, align>>
\* set_outbound_cipher (from _activate_outbound): later packets are framed for the new epoch
SetOutboundCipher ==
               /\ stage = "written" /\ nsw < MaxSwitch
               /\ mode' \in Modes \ {"plain"} /\ b' \in BlocksOf(mode') /\ mac' \in MacSizes(mode')
               /\ align' = IF StaleAlign THEN (IF LenInClear(mode') THEN 4 ELSE align) ELSE AddLen(mode')
               /\ nsw' = nsw + 1 /\ n' = 0 /\ stage' = "idle" /\ pkt' = None
Next == BuildPacket \/ Encrypt \/ AppendMac \/ NextPayload \/ SetOutboundCipher
Spec == Init /\ [][Next]_vars

(* ---- properties ---- *)
Rfc4253      == stage = "written" => WellFramed(pkt)
AgreesDefs   == stage = "written" => pkt = Build(n, b, mode, mac)       \* the step-wise machine = the closed form
PadPeriodic  == stage = "written" /\ n >= b => pkt.padlen = Pad(n - b, b, mode)   \* padding depends on n mod b only
Emit         == (stage = "written" /\ nsw = 0) => PrintT(<<"CASE", mode, b, mac, n, pkt.padlen, pkt.len_field, pkt.raw_len>>)
=============================================================================
