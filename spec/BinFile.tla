------------------------------- MODULE BinFile -------------------------------
(* C27, reference half.  The semantics of a Python binary file object over a      *)
(* regular file (open(path, mode + "b", buffering = 0)) for the operations the    *)
(* property lists: read, readline, readlines, write, seek, tell, flush, truncate, *)
(* close.  Content is a sequence of byte values, the position a natural number.   *)
(* The module is validated against the reference implementation itself: the check *)
(* records the same random programs on real local files and TLC must accept them  *)
(* (BinFile_Trace with who = "local") before the spec is used to judge paramiko.  *)
EXTENDS Integers, Sequences, TLC

LF == 10
Min(a, b) == IF a < b THEN a ELSE b
Max(a, b) == IF a > b THEN a ELSE b
Zeros(n) == [i \in 1..n |-> 0]
Slice(s, from0, n) == SubSeq(s, from0 + 1, Min(Len(s), from0 + n))   \* 0-based offset, up to n bytes

\* mode record: [r |-> BOOLEAN, w |-> BOOLEAN, a |-> BOOLEAN]
ModeOf(m) == [r |-> m \in {"r", "r+", "w+", "a+", "x+"},
              w |-> m \in {"r+", "w", "w+", "a", "a+", "x", "x+"},
              a |-> m \in {"a", "a+"}]
Modes == {"r", "r+", "w", "w+", "a", "a+", "x", "x+"}
\* mode classes used in finding signatures
ModeClass(m) == CASE m = "r" -> "ro" [] m \in {"r+", "w+", "x+"} -> "rw" [] m \in {"w", "x"} -> "wo"
                  [] m = "a" -> "ao" [] m = "a+" -> "arw"

\* file state: [content, pos, mode, closed]
\* every operation maps (state, arguments) to [st |-> new state, ret |-> R]; R is uniformly typed
\* (TLC cannot compare a sequence with a string): k in {"bytes", "int", "none", "err", "lines"}
RBytes(b) == [k |-> "bytes", b |-> b, i |-> 0, ls |-> <<>>]
RInt(i)   == [k |-> "int", b |-> <<>>, i |-> i, ls |-> <<>>]
RLines(l) == [k |-> "lines", b |-> <<>>, i |-> 0, ls |-> l]
RNone     == [k |-> "none", b |-> <<>>, i |-> 0, ls |-> <<>>]
RErr      == [k |-> "err", b |-> <<>>, i |-> 0, ls |-> <<>>]

DoRead(st, n) ==   \* n < 0 means read to EOF
  IF st.closed \/ ~st.mode.r THEN [st |-> st, ret |-> RErr]
  ELSE LET avail == Max(0, Len(st.content) - st.pos)
           k == IF n < 0 THEN avail ELSE Min(n, avail)
       IN [st |-> [st EXCEPT !.pos = st.pos + k], ret |-> RBytes(Slice(st.content, st.pos, k))]

\* 0-based exclusive end of the line starting at p, at most lim bytes long (lim < 0: no limit)
RECURSIVE LineEnd(_, _, _, _)
LineEnd(c, p, lim, taken) ==
  IF p >= Len(c) \/ (lim >= 0 /\ taken >= lim) THEN p
  ELSE IF c[p + 1] = LF THEN p + 1 ELSE LineEnd(c, p + 1, lim, taken + 1)

DoReadline(st, lim) ==
  IF st.closed \/ ~st.mode.r THEN [st |-> st, ret |-> RErr]
  ELSE LET e == LineEnd(st.content, st.pos, lim, 0)
       IN [st |-> [st EXCEPT !.pos = Max(e, st.pos)], ret |-> RBytes(Slice(st.content, st.pos, e - st.pos))]

RECURSIVE LinesFrom(_, _)
LinesFrom(c, p) == IF p >= Len(c) THEN <<>>
                   ELSE LET e == LineEnd(c, p, -1, 0) IN <<Slice(c, p, e - p)>> \o LinesFrom(c, e)
DoReadlines(st) ==
  IF st.closed \/ ~st.mode.r THEN [st |-> st, ret |-> RErr]
  ELSE [st |-> [st EXCEPT !.pos = Max(Len(st.content), st.pos)], ret |-> RLines(LinesFrom(st.content, st.pos))]

WriteAt(c, at, data) ==
  LET padded == IF at > Len(c) THEN c \o Zeros(at - Len(c)) ELSE c
      tailFrom == at + Len(data)
  IN SubSeq(padded, 1, at) \o data \o (IF tailFrom < Len(padded) THEN SubSeq(padded, tailFrom + 1, Len(padded)) ELSE <<>>)
DoWrite(st, data) ==
  IF st.closed \/ ~st.mode.w THEN [st |-> st, ret |-> RErr]
  ELSE IF data = <<>> THEN [st |-> st, ret |-> RInt(0)]       \* a zero-length write does not even move an O_APPEND offset
  ELSE LET at == IF st.mode.a THEN Len(st.content) ELSE st.pos
       IN [st |-> [st EXCEPT !.content = WriteAt(st.content, at, data), !.pos = at + Len(data)], ret |-> RInt(Len(data))]

DoSeek(st, off, whence) ==
  IF st.closed THEN [st |-> st, ret |-> RErr]
  ELSE LET target == CASE whence = 0 -> off [] whence = 1 -> st.pos + off [] OTHER -> Len(st.content) + off
       IN IF target < 0 THEN [st |-> st, ret |-> RErr]
          ELSE [st |-> [st EXCEPT !.pos = target], ret |-> RInt(target)]

DoTell(st) == IF st.closed THEN [st |-> st, ret |-> RErr] ELSE [st |-> st, ret |-> RInt(st.pos)]

Resize(c, size) == IF size <= Len(c) THEN SubSeq(c, 1, size) ELSE c \o Zeros(size - Len(c))
DoTruncate(st, size) ==
  IF st.closed \/ ~st.mode.w THEN [st |-> st, ret |-> RErr]
  ELSE [st |-> [st EXCEPT !.content = Resize(st.content, size)], ret |-> RInt(size)]

DoFlush(st) == IF st.closed THEN [st |-> st, ret |-> RErr] ELSE [st |-> st, ret |-> RNone]
DoClose(st) == [st |-> [st EXCEPT !.closed = TRUE], ret |-> RNone]

Open(initial, modeStr) ==   \* "x"/"x+" require the file not to exist (the driver's job): they start empty like "w"/"w+"
  LET m == ModeOf(modeStr)
      c == IF modeStr \in {"w", "w+", "x", "x+"} THEN <<>> ELSE initial
  IN [content |-> c, pos |-> IF m.a THEN Len(c) ELSE 0, mode |-> m, closed |-> FALSE]

\* an event: [op, n, data, off, whence] (unused fields 0 / <<>>)
Apply(st, e) ==
  CASE e.op = "read"      -> DoRead(st, e.n)
    [] e.op = "readline"  -> DoReadline(st, e.n)
    [] e.op = "readlines" -> DoReadlines(st)
    [] e.op = "write"     -> DoWrite(st, e.data)
    [] e.op = "seek"      -> DoSeek(st, e.off, e.whence)
    [] e.op = "tell"      -> DoTell(st)
    [] e.op = "truncate"  -> DoTruncate(st, e.n)
    [] e.op = "flush"     -> DoFlush(st)
    [] e.op = "close"     -> DoClose(st)

\* "each call returns the same value": values are compared for the calls whose value paramiko documents
\* (read, readline, readlines, tell); write, seek, flush, truncate and close return None there by design and
\* are compared on raising / not raising (and, through later calls and the final bytes, on their effect)
ValueOps == {"read", "readline", "readlines", "tell"}
SameValue(op, refret, gotret) == IF op \in ValueOps THEN gotret = refret
                                 ELSE (gotret.k = "err") = (refret.k = "err")
=============================================================================
