------------------------------- MODULE Moduli -------------------------------
(* C43.  Group-exchange modulus selection (paramiko/primes.py, ModulusPack).      *)
(*                                                                               *)
(* A moduli file is a sequence of lines; a line is a record                      *)
(*   [mtype, tests, tries, size, bits]                                           *)
(* (`size` is the size FIELD of the line, `bits` the real bit length of the      *)
(* modulus: OpenSSH's files understate it by one, so bits \in {size, size+1} is   *)
(* what a well-formed line looks like).  A group is identified by the index of   *)
(* its line.  The state machine follows the code:                                *)
(*   ParseModulus   one step of read_file(): line `n` is weeded out or filed in   *)
(*                  pack[bits]                                                   *)
(*   GetModulus     the three loops of get_modulus(min, prefer, max)             *)
(* `FixMinBound` = FALSE is the pinned code (first loop lacks `b >= min`).        *)
EXTENDS Integers, Sequences, FiniteSets, TLC

CONSTANTS Mtypes, Tests, Tries,  \* values of the type / tests / tries fields the model checker uses
          Sizes, Deltas,         \* size fields; d \in Deltas gives bits = size + d - 1 (1, 2 well-formed;
                                 \* shifted by one because a TLC cfg cannot hold negative numbers)
          MaxLines,              \* longest file
          ReqVals,               \* min, prefer, max each range over this set (inverted triples included)
          FixMinBound,           \* TRUE: first loop also requires b >= min (the repair)
          MaxFiles,              \* files read one after the other into the SAME pack (1 = a pack reads one file)
          CacheSizes             \* seeded design error: get_modulus keeps the sorted size list of its first call
                                 \* and read_file() does not drop it

LineUniverse == {[mtype |-> m, tests |-> t, tries |-> r, size |-> s, bits |-> s + d - 1] :
                    m \in Mtypes, t \in Tests, r \in Tries, s \in Sizes, d \in Deltas}
Requests     == ReqVals \X ReqVals \X ReqVals

(* ---- line validity (transcription of _parse_modulus) ---- *)
Bit4(t)        == (t \div 4) % 2 = 1
PassesTests(l) == ~(l.mtype < 2 \/ l.tests < 4 \/ (Bit4(l.tests) /\ l.tests < 8 /\ l.tries < 100))
PassesBits(l)  == l.bits = l.size \/ l.bits = l.size + 1
Valid(l)       == PassesTests(l) /\ PassesBits(l)

ValidIdx(file)     == {i \in 1..Len(file) : Valid(file[i])}
BitSizes(file)     == {file[i].bits : i \in ValidIdx(file)}
Groups(file, b)    == {i \in ValidIdx(file) : file[i].bits = b}

Min(S) == CHOOSE x \in S : \A y \in S : x <= y
Max(S) == CHOOSE x \in S : \A y \in S : x >= y

(* ---- get_modulus as written (three loops over the sorted bit sizes) ---- *)
Loop1(S, mn, pf, mx, fix) == {b \in S : b >= pf /\ b <= mx /\ (fix => b >= mn)}
Loop2(S, mn, mx)          == {b \in S : b >= mn /\ b <= mx}
ChosenBits(S, mn, pf, mx, fix) ==
    IF Loop1(S, mn, pf, mx, fix) # {} THEN Min(Loop1(S, mn, pf, mx, fix))
    ELSE IF Loop2(S, mn, mx) # {} THEN Max(Loop2(S, mn, mx))
    ELSE IF mn > Min(S) THEN Max(S) ELSE Min(S)

(* ---- the statement of C43, read literally, for a notion of "size" ----          *)
(* sz(l) is either the real bit length or the size field (Appendix F: the check   *)
(* demands only what both readings demand).                                       *)
InRange(file, mn, mx, sz(_))    == {i \in ValidIdx(file) : sz(file[i]) >= mn /\ sz(file[i]) <= mx}
Wanted(file, mn, pf, mx, sz(_)) ==
    LET R  == InRange(file, mn, mx, sz)
        Up == {i \in R : sz(file[i]) >= pf}
    IN  IF R = {} THEN ValidIdx(file)          \* nothing demanded beyond validity
        ELSE IF Up # {} THEN {i \in Up : \A j \in Up : sz(file[i]) <= sz(file[j])}
        ELSE {i \in R : \A j \in R : sz(file[i]) >= sz(file[j])}
ByBits(l) == l.bits
BySize(l) == l.size
Acceptable(file, mn, pf, mx) == Wanted(file, mn, pf, mx, ByBits) \cup Wanted(file, mn, pf, mx, BySize)

(* ---- state machine ---- *)
VARIABLES file,      \* the moduli file being read
          n,         \* lines consumed
          pack,      \* bits -> set of line indices filed under that size
          discarded, \* line indices weeded out
          req,       \* the request served, or <<>> before get_modulus
          status,    \* "reading" | "offered" | "no_moduli" (get_modulus raised "no moduli available")
                     \* | "key_error" (the chosen size is not in the pack: only with CacheSizes)
          offer,     \* the groups of the chosen size (get_modulus returns a random one of them)
          cache,     \* the size list get_modulus remembered ({} = none); used only when CacheSizes
          nfiles,    \* files read into this pack so far
          prev       \* the earlier rounds on this pack: Seq(<<file, request>>)
vars == <<file, n, pack, discarded, req, status, offer, cache, nfiles, prev>>

RECURSIVE Files(_)
Files(k) == IF k = 0 THEN {<<>>} ELSE Files(k - 1) \cup {Append(f, l) : f \in Files(k - 1), l \in LineUniverse}

Init == /\ file \in Files(MaxLines)
        /\ n = 0 /\ pack = <<>> /\ discarded = {} /\ req = <<>> /\ status = "reading" /\ offer = {}
        /\ cache = {} /\ nfiles = 1 /\ prev = <<>>

ParseModulus ==
    /\ n < Len(file) /\ status = "reading"
    /\ n' = n + 1
    /\ LET l == file[n + 1] IN
         IF Valid(l)
         THEN /\ pack' = IF l.bits \in DOMAIN pack
                         THEN [pack EXCEPT ![l.bits] = @ \cup {n + 1}]
                         ELSE pack @@ (l.bits :> {n + 1})
              /\ UNCHANGED discarded
         ELSE /\ discarded' = discarded \cup {n + 1}
              /\ UNCHANGED pack
    /\ UNCHANGED <<file, req, status, offer, cache, nfiles, prev>>

GetModulus(r) ==
    /\ n = Len(file) /\ status = "reading"
    /\ req' = r
    /\ LET sizes  == IF CacheSizes /\ cache # {} THEN cache ELSE DOMAIN pack     \* sorted(self.pack.keys())
           chosen == ChosenBits(sizes, r[1], r[2], r[3], FixMinBound)
       IN  /\ cache' = IF cache = {} THEN DOMAIN pack ELSE cache
           /\ status' = IF sizes = {} THEN "no_moduli" ELSE IF chosen \in DOMAIN pack THEN "offered" ELSE "key_error"
           /\ offer' = IF sizes # {} /\ chosen \in DOMAIN pack THEN pack[chosen] ELSE {}
    /\ UNCHANGED <<file, n, pack, discarded, nfiles, prev>>

\* read_file() on a pack that has already served a request: the pack starts again from the new file
ReadFile(f) ==
    /\ status # "reading" /\ nfiles < MaxFiles
    /\ prev' = Append(prev, <<file, req>>)
    /\ file' = f /\ n' = 0 /\ pack' = <<>> /\ discarded' = {} /\ req' = <<>> /\ status' = "reading" /\ offer' = {}
    /\ nfiles' = nfiles + 1 /\ UNCHANGED cache

Next == ParseModulus \/ (\E r \in Requests : GetModulus(r)) \/ (\E f \in Files(MaxLines) : ReadFile(f))
Spec == Init /\ [][Next]_vars

(* ---- properties ---- *)
Offered == status = "offered"
PackIsValidLines == /\ \A b \in DOMAIN pack : pack[b] = {i \in 1..n : Valid(file[i]) /\ file[i].bits = b}
                    /\ discarded = {i \in 1..n : ~Valid(file[i])}
NeverInvalid     == Offered => \A i \in offer : Valid(file[i])                    \* P: weeded-out lines never offered
HonoursRange     == Offered => offer \subseteq Acceptable(file, req[1], req[2], req[3])   \* P: the selection rule
NoModuliOnlyWhenEmpty == (status = "no_moduli") <=> (req # <<>> /\ ValidIdx(file) = {})
OfferNonEmpty    == Offered => offer # {}
NoKeyError       == status # "key_error"           \* the size get_modulus settles on is one the pack has
\* spec -> code replay of whole histories on one pack (MaxFiles > 1): one CASE per finished last round
EmitHistory == (req # <<>> /\ nfiles = MaxFiles) => PrintT(<<"HIST", ToString(Append(prev, <<file, req>>))>>)
\* spec -> code replay: one CASE per finished behaviour
Emit == (req # <<>>) => PrintT(<<"CASE", file, req, status, offer,
                                 IF Offered THEN Acceptable(file, req[1], req[2], req[3]) ELSE {}>>)
=============================================================================
