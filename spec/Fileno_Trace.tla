---------------------------- MODULE Fileno_Trace ----------------------------
(* code -> spec for C24, concurrent first calls of Channel.fileno().  One trace = one  *)
(* schedule of real threads (N application threads calling fileno() on a channel that  *)
(* has no pipe yet, the transport thread feeding stdout / stderr) under linesched.     *)
(*   init   = <<bytes in stdout, bytes in stderr>> before any thread runs               *)
(*   events = feeds in the order they took effect ("f1"/"f2", n bytes)                  *)
(*   obs    = [out, err, fds: <<for every caller: [same, readable]>>]  taken once all    *)
(*            threads have finished: select() on the very descriptor each caller was     *)
(*            handed; same = it is the channel's current pipe                            *)
EXTENDS Naturals, Sequences, TLC, Json, IOUtils, TLCExt
Batch == JsonDeserialize(IOEnv.TRACE_FILE)
VARIABLES tid, l, out, err, bad, comb
tvars == <<tid, l, out, err, bad, comb>>
T == Batch[tid]
N == Len(T.events)
TInit == tid \in 1..Len(Batch) /\ l = 1 /\ bad = {} /\ out = Batch[tid].init[1] /\ err = Batch[tid].init[2] /\ comb = FALSE
HasData == out > 0 \/ err > 0
\*   further events: "cmb" = set_combine_stderr(True) returned (stderr bytes moved behind stdout; later stderr data goes to
\*   stdout), "r1" = a non-blocking recv() that returned n bytes
Step == /\ l <= N /\ l' = l + 1 /\ UNCHANGED <<tid, bad>>
        /\ LET e == T.events[l] IN
             CASE e.op = "f1"  -> out' = out + e.n /\ UNCHANGED <<err, comb>>
               [] e.op = "f2"  -> IF comb THEN out' = out + e.n /\ UNCHANGED <<err, comb>> ELSE err' = err + e.n /\ UNCHANGED <<out, comb>>
               [] e.op = "cmb" -> out' = out + err /\ err' = 0 /\ comb' = TRUE
               [] OTHER        -> out' = out - e.n /\ UNCHANGED <<err, comb>>
Observe ==
  /\ l = N + 1 /\ l' = l + 1 /\ UNCHANGED <<tid, out, err, comb>>
  /\ bad' = IF ~T.quiescent THEN {"C_not_quiescent"}
            ELSE (IF T.obs.out = out /\ T.obs.err = err THEN {} ELSE {"C_buffer_accounting"})
                 \cup (IF \E k \in 1..Len(T.obs.fds) : ~T.obs.fds[k].same THEN {"C_descriptors_differ"} ELSE {})
                 \cup (IF \E k \in 1..Len(T.obs.fds) : HasData /\ ~T.obs.fds[k].readable
                       THEN {"P_not_readable_with_data_or_eof"} ELSE {})
                 \cup (IF \E k \in 1..Len(T.obs.fds) : ~HasData /\ T.obs.fds[k].readable
                       THEN {"P_readable_without_data"} ELSE {})
TSpec == TInit /\ [][Step \/ Observe]_tvars
Report == l = N + 2 => /\ (bad # {} => PrintT(<<"VERDICT", tid, l - 1, bad>>))
                       /\ PrintT(<<"DONE", tid>>)
=============================================================================
