------------------------------ MODULE Channel ------------------------------
(* One SSH channel, both ends (sides "A" and "B"), at the grain of the critical  *)
(* sections of paramiko/channel.py: one action per locked section; handing a     *)
(* message to the transport (Transport._send_user_message) is a separate step    *)
(* from the locked section that built it (Channel._send:1189-1207, close:645-669,*)
(* shutdown:944-965, _handle_close:1176-1185, recv:683-710).                     *)
(*                                                                              *)
(* Properties decided on this model:                                            *)
(*   C19  WindowRespected  PacketBound  NoOverGrant                              *)
(*   C20  EveryByteCredited  Conservation  NoStarvation  Progress (FairSpec)     *)
(*   C22  EofOnce CloseOnce NoDataAfterCtl CloseAnswered ReleasedInv             *)
(*        NoSendAfterRelease                                                     *)
(*   C25  ReturnedMeansAll RaiseIfShut SendallNoSpin Progress                    *)
(*                                                                              *)
(* Toggles.  FixRace / FixSendall / FixCredit = FALSE is the pinned tree:        *)
(*   FixRace    TRUE: the message is handed over inside the locked section       *)
(*   HoldBack   TRUE (with FixRace = FALSE): the hand-over stays outside the lock *)
(*              but data messages built and not yet handed over are counted       *)
(*              (_sends_in_flight); EOF/CLOSE produced meanwhile are queued        *)
(*              (_ctl_pending) and handed over by the last in-flight sender         *)
(*              (_send_done) - no thread ever waits, the transport thread included  *)
(*   FixSendall TRUE: sendall raises when send() returns 0                       *)
(*   FixCredit  TRUE: discarded extended data (code # 1) is credited             *)
(* Mut re-introduces a defect (sensitivity runs): "none" | "no_decrement" |      *)
(*   "ignore_maxpkt" | "over_ack" | "thresh_lt" | "eof_twice" |                  *)
(*   "no_close_answer" | "no_unlink" | "early_return" | "no_flush" (HoldBack:     *)
(*   the last in-flight sender forgets the queued EOF/CLOSE) | "wait_window_only" *)
(*   (the window wait re-tests only the window, so a close wakes nobody) |         *)
(*   "no_exit_recheck" (a sender woken by a window adjust allocates window without  *)
(*   re-checking closed / eof_sent) | "credit_silent" (discarded extended data is   *)
(*   added to in_window_sofar but no WINDOW_ADJUST is sent for it) | "no_eof_notify" *)
(*   (_send_eof does not notify the window condition: a parked writer sleeps on) |   *)
(*   "combine_credits" (set_combine_stderr counts the moved stderr bytes in          *)
(*   in_window_sofar: credited again when read) | "eof_sent_stops_credit"            *)
(*   (_check_add_window also returns 0 once the side sent its own EOF) |             *)
(*   "done_always" (HoldBack: _send_done also runs on the exits of _send that never  *)
(*   counted a message: raise / return 0 / timeout) | "adjust_notify_one"            *)
(*   (_window_adjust wakes one waiter) | "set_closed_no_notify" (_set_closed wakes   *)
(*   nobody: transport loss leaves parked writers asleep) | "wait_full_message"      *)
(*   (the sender waits until the window covers the whole next message) |             *)
(*   "open_limit_shadowed" (the accepting side ignores the opener's max packet size) | *)
(*   "wake_restarts_timer" (every wake-up of a timed wait restarts the full timeout)  *)
EXTENDS Integers, Sequences, FiniteSets, TLC

CONSTANTS UsersA, UsersB,   \* user threads of each side (strings)
          Daemons,          \* subset of {"dA_out","dA_err","dB_out","dB_err"}: readers that read forever
          OpsA, OpsB,       \* calls a user thread of that side may make
          MaxCalls,         \* calls per user thread
          W0,               \* initial window, both directions
          MaxPkt,           \* largest chunk the sender cuts (out_max_packet_size - 64)
          PeerMax,          \* the peer's maximum packet size (>= MaxPkt in a faithful configuration)
          Thresh,           \* in_window_threshold
          SendN,            \* bytes per send / sendall call
          Codes,            \* extended-data type codes a sender uses (paramiko itself: {1})
          ReadSizes,        \* nbytes arguments of recv
          Modes,            \* subset of {"block","timed","nonblock"}: channel timeout classes
          Loss,             \* TRUE: a side's transport may die
          FixRace, HoldBack, FixSendall, FixCredit, Mut, SpinCap

Sides == {"A", "B"}
Peer(X) == IF X = "A" THEN "B" ELSE "A"
Users == UsersA \cup UsersB
Threads == Users \cup Daemons
DaemonKind(d) == IF d \in {"dA_out", "dB_out"} THEN "out" ELSE "err"
Side(t) == IF t \in UsersA THEN "A" ELSE IF t \in UsersB THEN "B"
           ELSE IF t \in {"dA_out", "dA_err"} THEN "A" ELSE "B"
OpsOf(t) == IF t \in UsersA THEN OpsA ELSE IF t \in UsersB THEN OpsB
            ELSE {IF DaemonKind(t) = "out" THEN "recv" ELSE "recv_err"}
ThreadsOf(X) == {t \in Threads : Side(t) = X}

SendOps == {"send", "send_err", "sendall", "sendall_err"}
AllOps  == {"sendall", "sendall_err"}
ErrOps  == {"send_err", "sendall_err"}
RecvOps == {"recv", "recv_err"}
ShutOps == {"shutdown_write", "shutdown_rw"}

Min(a, b) == IF a < b THEN a ELSE b
Msg(t, n, c) == [t |-> t, n |-> n, code |-> c]
DataT == {"DATA", "EXT"}
CtlT  == {"EOF", "CLOSE"}
SumIf(ms, T) == LET f[i \in 0..Len(ms)] == IF i = 0 THEN 0
                                           ELSE f[i - 1] + (IF ms[i].t \in T THEN ms[i].n ELSE 0)
                IN f[Len(ms)]
CntIf(ms, T) == Cardinality({i \in 1..Len(ms) : ms[i].t \in T})
RECURSIVE SetSum(_, _)
SetSum(S, f) == IF S = {} THEN 0 ELSE LET x == CHOOSE y \in S : TRUE IN f[x] + SetSum(S \ {x}, f)

VARIABLES
  \* ---- per-side parameters, fixed in Init (variables so that Channel_Trace can take them from a log):
  \*      win[X] = window X advertised for its inbound direction, thresh[X] = X's in_window_threshold,
  \*      maxpkt[X] = largest chunk X cuts (out_max_packet_size - 64), peermax[X] = what X's peer allows
  win, thresh, maxpkt, peermax,
  \* ---- channel state per side (the attributes of paramiko.Channel)
  outwin, eofSent, eofRecv, closed, pclosed, linked, alive, sofar, buf, tmo,
  \* ---- hold-back repair: data messages in flight and control messages queued behind them (per side)
  inflight, ctlq,
  \* ---- combine_stderr flag per side (set_combine_stderr(True))
  comb,
  \* ---- threads waiting on out_buffer_cv that have been notified and not yet run again
  woken,
  \* ---- timed waiters whose timeout budget is used up (and "late:<t>": t started a wait although it was)
  spent,
  \* ---- user threads
  pc, op, left, pend, held, calls, ctx, last, spins,
  \* ---- transport thread per side, wires
  tpc, tpend, wire,
  \* ---- observation of each side's outbound wire (what the properties talk about)
  sent, granted, adjSent, nEof, nClose, afterCtl, bigMsg, lateEmit, consumed, leaked, closeSeen

chan == <<outwin, eofSent, eofRecv, closed, pclosed, linked, alive, sofar, buf, tmo>>
thr  == <<pc, op, left, pend, held, calls, ctx, last, spins>>
tr   == <<tpc, tpend>>
eobs == <<sent, granted, adjSent, nEof, nClose, afterCtl, bigMsg, lateEmit>>
robs == <<consumed, leaked, closeSeen>>
par  == <<win, thresh, maxpkt, peermax>>
hb   == <<inflight, ctlq, comb, woken, spent>>
vars == <<par, chan, hb, thr, tr, wire, eobs, robs>>

(* both CLOSEs exchanged, seen from X: its own CLOSE is on the wire and the peer's was processed *)
Released(X) == nClose[X] > 0 /\ closeSeen[X]

(* closed or shut down for writing as the peer can see it: EOF or CLOSE already handed to the transport *)
ShutOnWire(X) == nEof[X] > 0 \/ nClose[X] > 0

(* ---- the observation bookkeeping (shared with Channel_Trace) ---- *)
\* side X hands the messages ms to its transport; late = the call started after Released(X)
Emit(X, ms, late) ==
  IF alive[X]
  THEN /\ wire' = [wire EXCEPT ![X] = @ \o ms]
       /\ sent' = [sent EXCEPT ![X] = @ + SumIf(ms, DataT)]
       /\ granted' = [granted EXCEPT ![Peer(X)] = @ + SumIf(ms, {"ADJUST"})]
       /\ adjSent' = [adjSent EXCEPT ![X] = @ + SumIf(ms, {"ADJUST"})]
       /\ nEof' = [nEof EXCEPT ![X] = @ + CntIf(ms, {"EOF"})]
       /\ nClose' = [nClose EXCEPT ![X] = @ + CntIf(ms, {"CLOSE"})]
       /\ afterCtl' = [afterCtl EXCEPT ![X] = @ \/ (CntIf(ms, DataT) > 0 /\ (nEof[X] > 0 \/ nClose[X] > 0))
                                              \/ (\E i, j \in 1..Len(ms) : i < j /\ ms[i].t \in CtlT /\ ms[j].t \in DataT)]
       /\ bigMsg' = [bigMsg EXCEPT ![X] = @ \/ (\E i \in 1..Len(ms) : ms[i].t \in DataT /\ ms[i].n > peermax[X])]
       /\ lateEmit' = [lateEmit EXCEPT ![X] = @ \/ (late /\ ms # <<>>)]
  ELSE UNCHANGED <<wire, eobs>>      \* _send_user_message drops the packet: connection is dead
NoEmit == UNCHANGED <<wire, eobs>>

NoLast == [op |-> "none", out |-> "none", left |-> 0, shut |-> FALSE, rel |-> FALSE]

InitPar ==
  /\ win = [X \in Sides |-> W0] /\ thresh = [X \in Sides |-> Thresh]
  \* side "A" opened the channel: A's sending limits come from B's OPEN_CONFIRMATION, B's from A's CHANNEL_OPEN.
  \* Mut = "open_limit_shadowed": the side that ACCEPTED the channel keeps its own (larger) maximum packet size instead of
  \* the one announced in the peer's CHANNEL_OPEN
  /\ maxpkt = [X \in Sides |-> IF Mut = "open_limit_shadowed" /\ X = "B" THEN MaxPkt + 1 ELSE MaxPkt]
  /\ peermax = [X \in Sides |-> PeerMax]
  /\ tmo \in [Sides -> Modes]
InitRest ==
  /\ outwin = [X \in Sides |-> win[Peer(X)]] /\ granted = [X \in Sides |-> win[Peer(X)]]
  /\ eofSent = [X \in Sides |-> FALSE] /\ eofRecv = [X \in Sides |-> FALSE]
  /\ closed = [X \in Sides |-> FALSE] /\ pclosed = [X \in Sides |-> FALSE] /\ linked = [X \in Sides |-> TRUE]
  /\ alive = [X \in Sides |-> TRUE] /\ sofar = [X \in Sides |-> 0]
  /\ inflight = [X \in Sides |-> 0] /\ ctlq = [X \in Sides |-> <<>>] /\ comb = [X \in Sides |-> FALSE] /\ woken = {} /\ spent = {}
  /\ buf = [X \in Sides |-> [out |-> 0, err |-> 0]]
  /\ pc = [t \in Threads |-> "idle"] /\ op = [t \in Threads |-> "none"] /\ left = [t \in Threads |-> 0]
  /\ pend = [t \in Threads |-> <<>>] /\ held = [t \in Threads |-> 0] /\ calls = [t \in Threads |-> 0]
  /\ ctx = [t \in Threads |-> [shut |-> FALSE, rel |-> FALSE, code |-> 1]]
  /\ last = [t \in Threads |-> NoLast] /\ spins = [t \in Threads |-> 0]
  /\ tpc = [X \in Sides |-> "idle"] /\ tpend = [X \in Sides |-> <<>>] /\ wire = [X \in Sides |-> <<>>]
  /\ sent = [X \in Sides |-> 0] /\ adjSent = [X \in Sides |-> 0]
  /\ nEof = [X \in Sides |-> 0] /\ nClose = [X \in Sides |-> 0] /\ afterCtl = [X \in Sides |-> FALSE]
  /\ bigMsg = [X \in Sides |-> FALSE] /\ lateEmit = [X \in Sides |-> FALSE]
  /\ consumed = [X \in Sides |-> 0] /\ leaked = [X \in Sides |-> 0] /\ closeSeen = [X \in Sides |-> FALSE]
Init == InitPar /\ InitRest

(* ------------------------------------------------------------------ user threads *)
EntryPc(o) == IF o = "zero_adjust" THEN "zadj_lock" ELSE IF o = "combine" THEN "comb_lock" ELSE IF o \in SendOps THEN "send_lock" ELSE IF o \in RecvOps THEN "recv_read"
              ELSE IF o = "close" THEN "close_lock" ELSE IF o = "shutdown_rw" THEN "shut_read" ELSE "shut_lock"

Start(t, o, c) ==
  LET X == Side(t) IN
  /\ pc[t] = "idle" /\ (t \in Daemons \/ calls[t] < MaxCalls) /\ o \in OpsOf(t)
  /\ pc' = [pc EXCEPT ![t] = EntryPc(o)]
  /\ op' = [op EXCEPT ![t] = o]
  /\ left' = [left EXCEPT ![t] = IF o \in SendOps THEN SendN ELSE 0]
  /\ calls' = [calls EXCEPT ![t] = IF t \in Daemons THEN 0 ELSE @ + 1]
  /\ ctx' = [ctx EXCEPT ![t] = [shut |-> ShutOnWire(X), rel |-> Released(X), code |-> c]]
  /\ UNCHANGED <<pend, held, last, spins, chan, hb, tr, robs>> /\ NoEmit

\* the call of thread t ends with outcome o; lf = bytes of the argument not handed over
Finish(t, o, lf) ==
  /\ pc' = [pc EXCEPT ![t] = "idle"]
  /\ last' = [last EXCEPT ![t] = [op |-> op[t], out |-> o, left |-> lf, shut |-> ctx[t].shut, rel |-> ctx[t].rel]]

(* Channel._send + _wait_for_send_window, first locked section (channel.py:1191-1203, 1303-1331) *)
Chunk(t, X) == IF Mut = "ignore_maxpkt" THEN Min(left[t], outwin[X]) ELSE Min(Min(left[t], outwin[X]), maxpkt[X])
DataMsg(t, k) == IF op[t] \in ErrOps THEN Msg("EXT", k, ctx[t].code) ELSE Msg("DATA", k, 0)

\* exits of _send on which no message was built: nothing to undo - unless Mut = "done_always" runs _send_done there too
ExitHB(t) == LET X == Side(t) IN
             /\ woken' = woken \ {t} /\ spent' = spent \ {t}
             /\ IF Mut = "done_always" /\ HoldBack /\ ~FixRace
               THEN /\ inflight' = [inflight EXCEPT ![X] = @ - 1] /\ comb' = comb
                    /\ IF inflight[X] = 1 /\ ctlq[X] # <<>>
                         THEN Emit(X, ctlq[X], FALSE) /\ ctlq' = [ctlq EXCEPT ![X] = <<>>]
                         ELSE NoEmit /\ ctlq' = ctlq
               ELSE UNCHANGED <<inflight, ctlq, comb>> /\ NoEmit
SendReturns0(t) ==      \* send() returns 0: closed or eof_sent seen inside _wait_for_send_window
  /\ IF op[t] \in AllOps
       THEN IF FixSendall
              THEN Finish(t, "raised", left[t]) /\ spins' = spins
              ELSE /\ pc' = [pc EXCEPT ![t] = "send_lock"] /\ last' = last      \* while s: sent = self.send(s)
                   /\ spins' = [spins EXCEPT ![t] = Min(@ + 1, SpinCap)]
       ELSE Finish(t, "ret0", left[t]) /\ spins' = spins
  /\ UNCHANGED <<op, left, pend, held, calls, ctx, chan, tr, robs>> /\ ExitHB(t)

SendReserve(t) ==
  LET X == Side(t)  k == Chunk(t, X) IN
  /\ outwin' = [outwin EXCEPT ![X] = IF Mut = "no_decrement" THEN @ ELSE @ - k]
  /\ left' = [left EXCEPT ![t] = @ - k]
  /\ IF FixRace
       THEN Emit(X, <<DataMsg(t, k)>>, ctx[t].rel) /\ pend' = pend /\ pc' = [pc EXCEPT ![t] = "send_done"]
       ELSE NoEmit /\ pend' = [pend EXCEPT ![t] = <<DataMsg(t, k)>>] /\ pc' = [pc EXCEPT ![t] = "send_emit"]
  /\ inflight' = [inflight EXCEPT ![X] = IF HoldBack /\ ~FixRace THEN @ + 1 ELSE @] /\ ctlq' = ctlq /\ comb' = comb /\ woken' = woken \ {t} /\ spent' = spent \ {t}
  /\ spins' = [spins EXCEPT ![t] = IF k = 0 THEN Min(@ + 1, SpinCap) ELSE @]      \* a chunk of 0 bytes: iteration without progress
  /\ UNCHANGED <<eofSent, eofRecv, closed, pclosed, linked, alive, sofar, buf, tmo>>
  /\ UNCHANGED <<op, held, calls, ctx, last, tr, robs>>

SendRaise(t) == /\ Finish(t, "raised", left[t])
                /\ UNCHANGED <<op, left, pend, held, calls, ctx, spins, chan, tr, robs>> /\ ExitHB(t)

\* the window test of _wait_for_send_window: `out_window_size == 0`.  Mut = "wait_full_message": the sender waits until the
\* window covers the whole next message min(size, max packet, initial window) ("silly window avoidance")
Want(t) == LET X == Side(t) IN Min(Min(left[t], maxpkt[X]), win[Peer(X)])
Insufficient(t) == IF Mut = "wait_full_message" THEN outwin[Side(t)] < Want(t) ELSE outwin[Side(t)] = 0
SendEntry(t) ==
  LET X == Side(t) IN
  /\ pc[t] = "send_lock"
  /\ IF closed[X] THEN SendRaise(t)                               \* socket.error("Socket is closed")
     ELSE IF eofSent[X] THEN SendReturns0(t)
     ELSE IF Insufficient(t)
       THEN IF tmo[X] = "nonblock" THEN SendRaise(t)              \* socket.timeout
            ELSE /\ pc' = [pc EXCEPT ![t] = "send_wait"]          \* out_buffer_cv.wait releases the lock
                 /\ woken' = woken \ {t} /\ spent' = spent \ {t} /\ UNCHANGED <<inflight, ctlq, comb>>
                 /\ UNCHANGED <<op, left, pend, held, calls, ctx, last, spins, chan, tr, robs>> /\ NoEmit
     ELSE SendReserve(t)

\* out_buffer_cv.notify_all() is called by _window_adjust, by _set_closed (close, peer CLOSE, transport loss via _unlink) and by
\* _send_eof (shutdown_write / shutdown(2) / the EOF part of a close).  A notified waiter is in `woken` until it runs again.
\* Mutations: "adjust_notify_one" (_window_adjust calls notify(): one waiter), "set_closed_no_notify" (_set_closed does not
\* notify), "no_eof_notify" (_send_eof does not notify - the tree before 7dcb3f9).
Waiters(X) == {u \in ThreadsOf(X) : pc[u] = "send_wait"}
NotifyAll(X) == woken \cup Waiters(X)
EofNotifies(X)    == ~eofSent[X] /\ Mut # "no_eof_notify"          \* _send_eof returns early when EOF was already sent
ClosedNotifies    == Mut # "set_closed_no_notify"
\* the woken sender, again under the lock, runs the loop test: window still insufficient -> closed / eof_sent: return 0, else
\* wait again (Mut = "wait_window_only": the wait re-tests only the window, a close is not looked at);
\* window there -> it leaves the loop and RE-CHECKS closed / eof_sent before allocating (channel.py: "we have some window
\* to squeeze into" / if self.closed or self.eof_sent: return 0).  Mut = "no_exit_recheck" drops that re-check.
ExitRecheck(X) == Mut # "no_exit_recheck" /\ (closed[X] \/ eofSent[X])
\* the time budget of a timed wait.  TimePasses(t): the channel timeout has elapsed since t stalled.  The pinned loop carries
\* the remaining time from one wait to the next, so a woken sender whose budget is spent raises;
\* Mut = "wake_restarts_timer": every wake-up restarts the full timeout (`if not cv.wait(timeout): raise`).
LateTag(t) == "late:" \o t
TimeDimension == "zero_adjust" \in OpsA \cup OpsB
TimePasses(t) ==
  /\ TimeDimension /\ pc[t] = "send_wait" /\ tmo[Side(t)] = "timed" /\ t \notin spent
  /\ spent' = spent \cup {t} /\ UNCHANGED <<inflight, ctlq, comb, woken>>
  /\ UNCHANGED <<chan, thr, tr, robs>> /\ NoEmit
\* a peer that sends a WINDOW_ADJUST of 0 bytes (legal, futile): _window_adjust notifies every waiter of the other side
ZeroAdjust(t) ==
  /\ pc[t] = "zadj_lock"
  /\ woken' = NotifyAll(Peer(Side(t))) /\ UNCHANGED <<inflight, ctlq, comb, spent>>
  /\ Finish(t, "returned", 0)
  /\ UNCHANGED <<op, left, pend, held, calls, ctx, spins, chan, tr, robs>> /\ NoEmit
SendWake(t) ==
  LET X == Side(t) IN
  /\ pc[t] = "send_wait" /\ t \in woken
  /\ IF t \in spent /\ Mut # "wake_restarts_timer"       \* timeout -= elapsed; if timeout <= 0.0: raise socket.timeout()
       THEN SendRaise(t)
     ELSE IF Insufficient(t)
       THEN IF (closed[X] \/ eofSent[X]) /\ Mut # "wait_window_only"
              THEN SendReturns0(t)
              ELSE /\ woken' = woken \ {t} /\ UNCHANGED <<inflight, ctlq, comb>>          \* wait again
                   /\ spent' = IF t \in spent THEN (spent \ {t}) \cup {LateTag(t)} ELSE spent   \* (only with wake_restarts_timer)
                   /\ UNCHANGED <<pc, op, left, pend, held, calls, ctx, last, spins, chan, tr, robs>> /\ NoEmit
       ELSE IF ExitRecheck(X) THEN SendReturns0(t) ELSE SendReserve(t)

SendTimer(t) ==         \* the timed wait expires: socket.timeout
  /\ pc[t] = "send_wait" /\ tmo[Side(t)] = "timed" /\ SendRaise(t)

SendEmit(t) ==          \* after the lock was released: transport._send_user_message(m)
  /\ pc[t] = "send_emit"
  /\ Emit(Side(t), pend[t], ctx[t].rel)
  /\ pend' = [pend EXCEPT ![t] = <<>>]
  /\ pc' = [pc EXCEPT ![t] = IF HoldBack /\ ~FixRace THEN "send_fin" ELSE "send_done"]
  /\ UNCHANGED <<op, left, held, calls, ctx, last, spins, chan, hb, tr, robs>>

SendFin(t) ==           \* HoldBack: _send_done, locked: one hand-over less; the last one takes the queued EOF/CLOSE along
  LET X == Side(t) IN
  /\ pc[t] = "send_fin"
  /\ inflight' = [inflight EXCEPT ![X] = @ - 1] /\ comb' = comb /\ woken' = woken /\ spent' = spent
  /\ IF inflight[X] > 1 \/ ctlq[X] = <<>> \/ Mut = "no_flush"
       THEN ctlq' = ctlq /\ pend' = pend /\ pc' = [pc EXCEPT ![t] = "send_done"]
       ELSE ctlq' = [ctlq EXCEPT ![X] = <<>>] /\ pend' = [pend EXCEPT ![t] = ctlq[X]] /\ pc' = [pc EXCEPT ![t] = "flush_emit"]
  /\ UNCHANGED <<op, left, held, calls, ctx, last, spins, chan, tr, robs>> /\ NoEmit

FlushEmit(t) ==         \* HoldBack: _send_done, after the lock: for m in msgs: _send_user_message(m)
  /\ pc[t] = "flush_emit"
  /\ Emit(Side(t), <<Head(pend[t])>>, FALSE)
  /\ pend' = [pend EXCEPT ![t] = Tail(@)]
  /\ pc' = [pc EXCEPT ![t] = IF Len(pend[t]) = 1 THEN "send_done" ELSE "flush_emit"]
  /\ UNCHANGED <<op, left, held, calls, ctx, last, spins, chan, hb, tr, robs>>

SendDone(t) ==
  /\ pc[t] = "send_done"
  /\ IF op[t] \in AllOps /\ left[t] > 0 /\ Mut # "early_return"
       THEN pc' = [pc EXCEPT ![t] = "send_lock"] /\ last' = last
       ELSE Finish(t, "returned", left[t])
  /\ UNCHANGED <<op, left, pend, held, calls, ctx, spins, chan, hb, tr, robs>> /\ NoEmit

(* Channel.recv / recv_stderr: BufferedPipe.read, then _check_add_window, then the adjust is handed over *)
Kind(t) == IF op[t] = "recv_err" THEN "err" ELSE "out"

RecvRead(t, n) ==
  LET X == Side(t)  k == Kind(t)  take == Min(n, buf[X][k]) IN
  /\ pc[t] = "recv_read" /\ buf[X][k] > 0
  /\ buf' = [buf EXCEPT ![X][k] = @ - take]
  /\ consumed' = [consumed EXCEPT ![X] = @ + take]
  /\ held' = [held EXCEPT ![t] = take]
  /\ pc' = [pc EXCEPT ![t] = "recv_ack"]
  /\ UNCHANGED <<outwin, eofSent, eofRecv, closed, pclosed, linked, alive, sofar, tmo>>
  /\ UNCHANGED <<op, left, pend, calls, ctx, last, spins, tr, leaked, closeSeen>> /\ NoEmit
  /\ UNCHANGED hb

RecvEmpty(t) ==         \* pipe closed and drained: b"" (then _check_add_window(0));  non-blocking, nothing there: socket.timeout
  LET X == Side(t) IN
  /\ pc[t] = "recv_read" /\ buf[X][Kind(t)] = 0 /\ (pclosed[X] \/ tmo[X] = "nonblock")
  /\ IF pclosed[X] THEN pc' = [pc EXCEPT ![t] = "recv_ack"] /\ last' = last
                   ELSE Finish(t, "raised", 0)
  /\ UNCHANGED <<op, left, pend, held, calls, ctx, spins, chan, tr, robs>> /\ NoEmit
  /\ UNCHANGED hb

RecvTimer(t) ==
  LET X == Side(t) IN
  /\ pc[t] = "recv_read" /\ buf[X][Kind(t)] = 0 /\ ~pclosed[X] /\ tmo[X] = "timed"
  /\ Finish(t, "raised", 0)
  /\ UNCHANGED <<op, left, pend, held, calls, ctx, spins, chan, tr, robs>> /\ NoEmit
  /\ UNCHANGED hb

OverThresh(X, s) == IF Mut = "thresh_lt" THEN s >= thresh[X] ELSE s > thresh[X]
\* _check_add_window(n) for side X: <<new sofar, ack>>
AddWindow(X, n) == IF closed[X] \/ eofRecv[X] \/ (Mut = "eof_sent_stops_credit" /\ eofSent[X]) THEN <<sofar[X], 0>>
                   ELSE IF OverThresh(X, sofar[X] + n)
                          THEN <<0, sofar[X] + n + (IF Mut = "over_ack" THEN 1 ELSE 0)>>
                          ELSE <<sofar[X] + n, 0>>

RecvAck(t) ==
  LET X == Side(t)  r == AddWindow(X, held[t]) IN
  /\ pc[t] = "recv_ack"
  /\ sofar' = [sofar EXCEPT ![X] = r[1]]
  /\ held' = [held EXCEPT ![t] = 0]
  /\ IF r[2] = 0 THEN Finish(t, IF held[t] = 0 THEN "eof" ELSE "returned", 0) /\ pend' = pend
                 ELSE /\ pend' = [pend EXCEPT ![t] = <<Msg("ADJUST", r[2], 0)>>]
                      /\ pc' = [pc EXCEPT ![t] = "recv_emit"] /\ last' = last
  /\ UNCHANGED <<outwin, eofSent, eofRecv, closed, pclosed, linked, alive, buf, tmo>>
  /\ UNCHANGED <<op, left, calls, ctx, spins, tr, robs>> /\ NoEmit
  /\ UNCHANGED hb

RecvEmit(t) ==
  /\ pc[t] = "recv_emit"
  /\ Emit(Side(t), pend[t], ctx[t].rel)
  /\ pend' = [pend EXCEPT ![t] = <<>>]
  /\ Finish(t, "returned", 0)
  /\ UNCHANGED <<op, left, held, calls, ctx, spins, chan, tr, robs>>
  /\ UNCHANGED hb

(* set_combine_stderr(True): one locked section moves what is buffered on stderr behind what is buffered on stdout *)
CombineLocked(t) ==
  LET X == Side(t) IN
  /\ pc[t] = "comb_lock"
  /\ comb' = [comb EXCEPT ![X] = TRUE] /\ UNCHANGED <<inflight, ctlq, woken, spent>>
  /\ buf' = IF comb[X] THEN buf ELSE [buf EXCEPT ![X] = [out |-> buf[X].out + buf[X].err, err |-> 0]]
  /\ sofar' = [sofar EXCEPT ![X] = IF Mut = "combine_credits" /\ ~comb[X] THEN @ + buf[X].err ELSE @]
  /\ Finish(t, "returned", 0)
  /\ UNCHANGED <<outwin, eofSent, eofRecv, closed, pclosed, linked, alive, tmo>>
  /\ UNCHANGED <<op, left, pend, held, calls, ctx, spins, tr, robs>> /\ NoEmit

(* close(), shutdown(1|2): locked section builds EOF / CLOSE, emitted after the lock is released *)
Held(X) == HoldBack /\ ~FixRace /\ inflight[X] > 0
CtlMsgs(X, withClose) ==
  (IF eofSent[X] /\ Mut # "eof_twice" THEN <<>> ELSE <<Msg("EOF", 0, 0)>>)
  \o (IF withClose THEN <<Msg("CLOSE", 0, 0)>> ELSE <<>>)

CloseLocked(t) ==
  LET X == Side(t)  ms == CtlMsgs(X, TRUE) IN
  /\ pc[t] = "close_lock"
  /\ IF closed[X]
       THEN Finish(t, "returned", 0) /\ UNCHANGED <<pend, chan, hb>> /\ NoEmit
       ELSE /\ eofSent' = [eofSent EXCEPT ![X] = TRUE]
            /\ closed' = [closed EXCEPT ![X] = TRUE] /\ pclosed' = [pclosed EXCEPT ![X] = TRUE]
            /\ UNCHANGED <<outwin, eofRecv, linked, alive, sofar, buf, tmo, inflight, comb>>
            /\ woken' = IF EofNotifies(X) \/ ClosedNotifies THEN NotifyAll(X) ELSE woken
            /\ spent' = spent
            /\ IF Held(X)                     \* _send_eof / _close_internal queue behind the data still on its way
                 THEN ctlq' = [ctlq EXCEPT ![X] = @ \o ms] /\ NoEmit /\ Finish(t, "returned", 0) /\ pend' = pend
               ELSE /\ ctlq' = ctlq
                    /\ IF FixRace THEN Emit(X, ms, ctx[t].rel) /\ Finish(t, "returned", 0) /\ pend' = pend
                               ELSE NoEmit /\ pend' = [pend EXCEPT ![t] = ms]
                                    /\ pc' = [pc EXCEPT ![t] = "ctl_emit"] /\ last' = last
  /\ UNCHANGED <<op, left, held, calls, ctx, spins, tr, robs>>

ShutRead(t) ==          \* shutdown(2): self.eof_received = 1 (no lock, pipes stay open)
  /\ pc[t] = "shut_read"
  /\ eofRecv' = [eofRecv EXCEPT ![Side(t)] = TRUE]
  /\ pc' = [pc EXCEPT ![t] = "shut_lock"]
  /\ UNCHANGED <<outwin, eofSent, closed, pclosed, linked, alive, sofar, buf, tmo>>
  /\ UNCHANGED <<op, left, pend, held, calls, ctx, last, spins, tr, robs>> /\ NoEmit
  /\ UNCHANGED hb

ShutLocked(t) ==        \* _send_eof under the lock
  LET X == Side(t)  ms == CtlMsgs(X, FALSE) IN
  /\ pc[t] = "shut_lock"
  /\ eofSent' = [eofSent EXCEPT ![X] = TRUE]
  /\ UNCHANGED <<outwin, eofRecv, closed, pclosed, linked, alive, sofar, buf, tmo, inflight, comb>>
  /\ woken' = IF EofNotifies(X) THEN NotifyAll(X) ELSE woken
  /\ spent' = spent
  /\ ctlq' = [ctlq EXCEPT ![X] = IF Held(X) THEN @ \o ms ELSE @]
  /\ IF ms = <<>> \/ Held(X) THEN Finish(t, "returned", 0) /\ pend' = pend /\ NoEmit
     ELSE IF FixRace THEN Emit(X, ms, ctx[t].rel) /\ Finish(t, "returned", 0) /\ pend' = pend
     ELSE NoEmit /\ pend' = [pend EXCEPT ![t] = ms] /\ pc' = [pc EXCEPT ![t] = "ctl_emit"] /\ last' = last
  /\ UNCHANGED <<op, left, held, calls, ctx, spins, tr, robs>>

CtlEmit(t) ==           \* for m in msgs: transport._send_user_message(m)
  /\ pc[t] = "ctl_emit"
  /\ Emit(Side(t), <<Head(pend[t])>>, ctx[t].rel)
  /\ pend' = [pend EXCEPT ![t] = Tail(@)]
  /\ IF Len(pend[t]) = 1 THEN Finish(t, "returned", 0) ELSE pc' = pc /\ last' = last
  /\ UNCHANGED <<op, left, held, calls, ctx, spins, chan, tr, robs>>
  /\ UNCHANGED hb

(* ------------------------------------------------------------------ transport thread of side X *)
Deliver(X) ==
  LET Y == Peer(X)  m == Head(wire[Y]) IN
  /\ tpc[X] = "idle" /\ alive[X] /\ wire[Y] # <<>>
  /\ IF ~linked[X]                                   \* "Ignoring message for dead channel"
     THEN /\ wire' = [wire EXCEPT ![Y] = Tail(@)]
          /\ UNCHANGED <<chan, hb, thr, tr, eobs, robs>>
     ELSE CASE m.t = "DATA" ->
            /\ wire' = [wire EXCEPT ![Y] = Tail(@)]
            /\ buf' = [buf EXCEPT ![X].out = @ + m.n]
            /\ UNCHANGED <<outwin, eofSent, eofRecv, closed, pclosed, linked, alive, sofar, tmo, hb, thr, tr, eobs, robs>>
          [] m.t = "EXT" /\ m.code = 1 ->
            /\ wire' = [wire EXCEPT ![Y] = Tail(@)]
            /\ buf' = IF comb[X] THEN [buf EXCEPT ![X].out = @ + m.n] ELSE [buf EXCEPT ![X].err = @ + m.n]
            /\ UNCHANGED <<outwin, eofSent, eofRecv, closed, pclosed, linked, alive, sofar, tmo, hb, thr, tr, eobs, robs>>
          [] m.t = "EXT" /\ m.code # 1 ->            \* _feed_extended: "unknown extended_data type; discarding"
            IF FixCredit /\ Mut = "credit_silent"      \* counted in in_window_sofar, but nobody sends the adjustment
            THEN /\ wire' = [wire EXCEPT ![Y] = Tail(@)]
                 /\ sofar' = [sofar EXCEPT ![X] = IF closed[X] \/ eofRecv[X] THEN @ ELSE @ + m.n]
                 /\ consumed' = [consumed EXCEPT ![X] = @ + m.n]
                 /\ UNCHANGED <<outwin, eofSent, eofRecv, closed, pclosed, linked, alive, buf, tmo, hb, thr, tr, eobs, leaked, closeSeen>>
            ELSE IF FixCredit
            THEN LET r == AddWindow(X, m.n) IN
                 /\ sofar' = [sofar EXCEPT ![X] = r[1]]
                 /\ consumed' = [consumed EXCEPT ![X] = @ + m.n]       \* disposed of on the application's behalf
                 /\ IF r[2] = 0 THEN wire' = [wire EXCEPT ![Y] = Tail(@)] /\ UNCHANGED eobs
                    ELSE /\ alive[X]
                         /\ wire' = [wire EXCEPT ![Y] = Tail(@), ![X] = Append(@, Msg("ADJUST", r[2], 0))]
                         /\ granted' = [granted EXCEPT ![Y] = @ + r[2]]
                         /\ adjSent' = [adjSent EXCEPT ![X] = @ + r[2]]
                         /\ UNCHANGED <<sent, nEof, nClose, afterCtl, bigMsg, lateEmit>>
                 /\ UNCHANGED <<outwin, eofSent, eofRecv, closed, pclosed, linked, alive, buf, tmo, hb, thr, tr, leaked, closeSeen>>
            ELSE /\ wire' = [wire EXCEPT ![Y] = Tail(@)]
                 /\ leaked' = [leaked EXCEPT ![X] = IF closed[X] \/ eofRecv[X] THEN @ ELSE @ + m.n]
                 /\ UNCHANGED <<chan, hb, thr, tr, eobs, consumed, closeSeen>>
          [] m.t = "ADJUST" ->                       \* _window_adjust
            /\ wire' = [wire EXCEPT ![Y] = Tail(@)]
            /\ outwin' = [outwin EXCEPT ![X] = @ + m.n]
            /\ IF Mut = "adjust_notify_one" /\ Waiters(X) # {}
                 THEN \E u \in Waiters(X) : woken' = woken \cup {u}
                 ELSE woken' = NotifyAll(X)
            /\ UNCHANGED <<eofSent, eofRecv, closed, pclosed, linked, alive, sofar, buf, tmo, inflight, ctlq, comb, spent, thr, tr, eobs, robs>>
          [] m.t = "EOF" ->                          \* _handle_eof
            /\ wire' = [wire EXCEPT ![Y] = Tail(@)]
            /\ IF eofRecv[X] THEN UNCHANGED <<eofRecv, pclosed>>
                             ELSE eofRecv' = [eofRecv EXCEPT ![X] = TRUE] /\ pclosed' = [pclosed EXCEPT ![X] = TRUE]
            /\ UNCHANGED <<outwin, eofSent, closed, linked, alive, sofar, buf, tmo, hb, thr, tr, eobs, robs>>
          [] m.t = "CLOSE" ->                        \* _handle_close: _close_internal + _unlink_channel, then emit
            LET ms == IF closed[X] \/ Mut = "no_close_answer" THEN <<>> ELSE CtlMsgs(X, TRUE) IN
            /\ closed' = [closed EXCEPT ![X] = TRUE] /\ pclosed' = [pclosed EXCEPT ![X] = TRUE]
            /\ eofSent' = [eofSent EXCEPT ![X] = TRUE]
            /\ linked' = [linked EXCEPT ![X] = (Mut = "no_unlink")]
            /\ closeSeen' = [closeSeen EXCEPT ![X] = TRUE]
            /\ UNCHANGED <<outwin, eofRecv, alive, sofar, buf, tmo, thr, consumed, leaked, inflight, comb>>
            /\ woken' = IF ~closed[X] /\ (EofNotifies(X) \/ ClosedNotifies) THEN NotifyAll(X) ELSE woken
            /\ spent' = spent
            /\ ctlq' = [ctlq EXCEPT ![X] = IF Held(X) THEN @ \o ms ELSE @]
            /\ IF FixRace \/ ms = <<>> \/ Held(X)
                 THEN /\ IF alive[X] /\ ~Held(X)
                           THEN /\ wire' = [wire EXCEPT ![Y] = Tail(@), ![X] = @ \o ms]
                                /\ nEof' = [nEof EXCEPT ![X] = @ + CntIf(ms, {"EOF"})]
                                /\ nClose' = [nClose EXCEPT ![X] = @ + CntIf(ms, {"CLOSE"})]
                           ELSE wire' = [wire EXCEPT ![Y] = Tail(@)] /\ UNCHANGED <<nEof, nClose>>
                      /\ UNCHANGED <<sent, granted, adjSent, afterCtl, bigMsg, lateEmit, tr>>
                 ELSE /\ wire' = [wire EXCEPT ![Y] = Tail(@)]
                      /\ tpend' = [tpend EXCEPT ![X] = ms] /\ tpc' = [tpc EXCEPT ![X] = "t_emit"]
                      /\ UNCHANGED eobs

TEmit(X) ==             \* _handle_close, after the lock: for m in msgs: _send_user_message(m)
  /\ tpc[X] = "t_emit"
  /\ Emit(X, <<Head(tpend[X])>>, FALSE)
  /\ tpend' = [tpend EXCEPT ![X] = Tail(@)]
  /\ tpc' = [tpc EXCEPT ![X] = IF Len(tpend[X]) = 1 THEN "idle" ELSE "t_emit"]
  /\ UNCHANGED <<chan, thr, robs>>
  /\ UNCHANGED hb

Lost(X) ==              \* Transport.run ends: active = False; every channel gets _unlink()
  /\ Loss /\ alive[X] /\ tpc[X] = "idle"
  /\ alive' = [alive EXCEPT ![X] = FALSE]
  /\ closed' = [closed EXCEPT ![X] = TRUE] /\ pclosed' = [pclosed EXCEPT ![X] = TRUE]
  /\ linked' = [linked EXCEPT ![X] = FALSE]
  /\ UNCHANGED <<outwin, eofSent, eofRecv, sofar, buf, tmo, thr, tr, robs>> /\ NoEmit
  /\ woken' = IF ~closed[X] /\ ClosedNotifies THEN NotifyAll(X) ELSE woken       \* _unlink: if self.closed: return; _set_closed()
  /\ UNCHANGED <<inflight, ctlq, comb, spent>>

(* ------------------------------------------------------------------ next-state relation *)
Step(t) == SendEntry(t) \/ SendWake(t) \/ SendEmit(t) \/ SendFin(t) \/ FlushEmit(t) \/ SendDone(t)
           \/ (\E n \in ReadSizes : RecvRead(t, n)) \/ RecvEmpty(t) \/ RecvAck(t) \/ RecvEmit(t)
           \/ ZeroAdjust(t) \/ CombineLocked(t) \/ CloseLocked(t) \/ ShutRead(t) \/ ShutLocked(t) \/ CtlEmit(t)
Timer(t) == SendTimer(t) \/ RecvTimer(t) \/ TimePasses(t)
StartAny(t) == \E o \in OpsOf(t) : \E c \in (IF o \in ErrOps THEN Codes ELSE {1}) : Start(t, o, c)

Next == /\ \/ \E t \in Threads : StartAny(t) \/ Step(t) \/ Timer(t)
           \/ \E X \in Sides : Deliver(X) \/ TEmit(X) \/ Lost(X)
        /\ UNCHANGED par

Spec == Init /\ [][Next]_vars
FairSpec == /\ Spec
            /\ (\A t \in Threads : WF_vars(Step(t) /\ UNCHANGED par))
            /\ (\A d \in Daemons : WF_vars(StartAny(d) /\ UNCHANGED par))
            /\ (\A X \in Sides : WF_vars(Deliver(X) /\ UNCHANGED par) /\ WF_vars(TEmit(X) /\ UNCHANGED par))

(* ------------------------------------------------------------------ properties *)
(* C19 *)
WindowRespected == \A X \in Sides : sent[X] <= granted[X]
PacketBound     == \A X \in Sides : ~bigMsg[X]
NoOverGrant     == \A X \in Sides : adjSent[X] <= consumed[X]
(* C20 *)
EveryByteCredited == \A X \in Sides : leaked[X] = 0
PendSum(X, T) == SetSum(ThreadsOf(X), [t \in Threads |-> SumIf(pend[t], T)])
HeldSum(X)    == SetSum(ThreadsOf(X), [t \in Threads |-> held[t]])
\* direction Peer(X) -> X: every byte of the initial window is somewhere
Conservation == \A X \in Sides : LET Y == Peer(X) IN
  (~eofRecv[X] /\ ~closed[X] /\ alive[X] /\ alive[Y]) =>
     win[X] = outwin[Y] + PendSum(Y, DataT) + SumIf(wire[Y], DataT) + buf[X].out + buf[X].err + HeldSum(X)
          + sofar[X] + PendSum(X, {"ADJUST"}) + SumIf(wire[X], {"ADJUST"})
\* safety form of Progress: nothing in flight or pending, every reader drained its stream, and a sender still waits
AtRest(t) == \/ pc[t] = "idle"
             \/ pc[t] = "send_wait" /\ t \notin woken             \* parked: nothing but a notification moves it
             \/ pc[t] = "recv_read" /\ buf[Side(t)][Kind(t)] = 0 /\ ~pclosed[Side(t)]
Starved(t) == LET X == Side(t)  Y == Peer(X) IN
  /\ pc[t] = "send_wait" /\ t \notin woken /\ tmo[X] = "block" /\ ~closed[X] /\ ~eofSent[X]
  /\ wire[X] = <<>> /\ wire[Y] = <<>> /\ tpc[Y] = "idle" /\ alive[X] /\ alive[Y] /\ ~closed[Y] /\ ~eofRecv[Y]
  /\ buf[Y].out = 0 /\ buf[Y].err = 0 /\ tpc[X] = "idle" /\ \A u \in Threads : AtRest(u)
NoStarvation == \A t \in Threads : ~Starved(t)
InCall(t)  == pc[t] # "idle"
Progress   == \A t \in Users : [](InCall(t) /\ op[t] \in SendOps => <>(~InCall(t)))     \* C20 / C25 liveness
(* C22 *)
EofOnce        == \A X \in Sides : nEof[X] <= 1
CloseOnce      == \A X \in Sides : nClose[X] <= 1
NoDataAfterCtl == \A X \in Sides : ~afterCtl[X]
\* a peer CLOSE that was processed is answered; not yet on the wire only while a close() of this side is in its hand-over
\* gap or (HoldBack) a data hand-over of this side is still in flight with the CLOSE queued behind it.  The observable form
\* (used by Channel_Trace, which cannot see the queue) excuses "a send or close call of this side is still in progress";
\* the exact form is checked on the model.  At rest both demand the CLOSE on the wire.
CloseAnswered  == \A X \in Sides : (closeSeen[X] /\ tpc[X] = "idle" /\ alive[X]) =>
                     (nClose[X] >= 1 \/ \E t \in ThreadsOf(X) : pc[t] # "idle" /\ op[t] \in SendOps \cup {"close"})
CloseAnsweredExact == \A X \in Sides : (closeSeen[X] /\ tpc[X] = "idle" /\ alive[X]) =>
                     \/ nClose[X] >= 1
                     \/ \E t \in ThreadsOf(X) : CntIf(pend[t], {"CLOSE"}) > 0          \* being handed over right now
                     \/ inflight[X] > 0 /\ CntIf(ctlq[X], {"CLOSE"}) > 0                \* held back behind data in flight
\* liveness forms (FairSpec): a processed peer CLOSE is eventually answered on the wire; the queue eventually drains
AnsweredEventually == \A X \in Sides : [](closeSeen[X] /\ alive[X] => <>(nClose[X] >= 1 \/ ~alive[X]))
DrainsEventually   == \A X \in Sides : [](ctlq[X] # <<>> => <>(ctlq[X] = <<>>))
\* HoldBack: the counter is exactly the number of data messages built and not yet through _send_done
InflightBalanced == \A X \in Sides : inflight[X] = IF HoldBack /\ ~FixRace
                        THEN Cardinality({t \in ThreadsOf(X) : pc[t] \in {"send_emit", "send_fin"}}) ELSE 0
\* nothing stays queued once no data hand-over is in flight
QueueDrains    == \A X \in Sides : inflight[X] = 0 => ctlq[X] = <<>>
\* (not in the statement of C22; protocol hygiene) EOF never follows the side's own CLOSE
NoEofAfterClose == \A X \in Sides : \A i, j \in 1..Len(wire[X]) : i < j => ~(wire[X][i].t = "CLOSE" /\ wire[X][j].t = "EOF")
ReleasedInv    == \A X \in Sides : Released(X) => ~linked[X]
NoSendAfterRelease == /\ \A X \in Sides : ~lateEmit[X]
                      /\ \A t \in Threads : (last[t].rel /\ last[t].op \in SendOps) => last[t].out = "raised"
(* C25 *)
\* "raise if it times out": a timed sender never starts another wait once its timeout has elapsed since it stalled
TimedSendEndsInTime == \A t \in Threads : LateTag(t) \notin spent
\* a sender parked in the window wait is never left there once the window reopened or the channel was closed.
\* NoHangInWindowWait is an AT-REST predicate (Channel_Trace evaluates it when a schedule of the real code has ended);
\* HangFree is its model form: no state in which every call in progress is stuck for good while one of them is such a sender.
\* what the statement demands (independent of the mutation toggles): window reopened, channel closed, or shut down for writing
ShouldWake(t) == outwin[Side(t)] > 0 \/ closed[Side(t)] \/ eofSent[Side(t)]
\* liveness form that needs no reader: once the side is closed or shut down for writing, every send call in progress ends
ShutEndsSends == \A t \in Threads : [](pc[t] # "idle" /\ op[t] \in SendOps /\ (closed[Side(t)] \/ eofSent[Side(t)]) => <>(pc[t] = "idle"))
NoHangInWindowWait == \A t \in Threads : pc[t] = "send_wait" => ~ShouldWake(t)
StuckForGood(t) == \/ pc[t] = "idle"
                   \/ pc[t] = "send_wait" /\ t \notin woken /\ tmo[Side(t)] = "block"
                   \/ pc[t] = "recv_read" /\ buf[Side(t)][Kind(t)] = 0 /\ ~pclosed[Side(t)] /\ tmo[Side(t)] = "block"
Rest == /\ \A t \in Threads : StuckForGood(t)
        /\ \A X \in Sides : tpc[X] = "idle" /\ (wire[X] = <<>> \/ ~alive[Peer(X)])
HangFree == Rest => NoHangInWindowWait
ReturnedMeansAll == \A t \in Threads : (last[t].op \in AllOps /\ last[t].out = "returned") => last[t].left = 0
RaiseIfShut      == \A t \in Threads : (last[t].op \in AllOps /\ last[t].shut) => last[t].out \notin {"returned", "ret0"}
SendallOutcome   == \A t \in Threads : last[t].op \in AllOps => last[t].out \in {"returned", "raised"}
SendallNoSpin    == \A t \in Threads : spins[t] < SpinCap
=============================================================================
