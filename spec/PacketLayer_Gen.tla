--------------------------- MODULE PacketLayer_Gen ---------------------------
(* spec -> code generation for C01: honest behaviours of PacketLayer with a      *)
(* history variable.  A behaviour is emitted when every message has been sent    *)
(* and read.  Each SendMessage carries a payload-length class which the driver   *)
(* renders to a concrete length relative to the cipher's block size; Arrive(k)   *)
(* is rendered to a socket read schedule (k cells of the byte stream, then a     *)
(* socket timeout).                                                              *)
EXTENDS PacketLayer
CONSTANT LenClasses
VARIABLE hist
gvars == <<vars, hist>>
Done  == Len(sent) = NMsgs /\ wire = <<>> /\ wcells = Cells
GInit == Init /\ hist = <<>>
GNext == /\ ~Done
         /\ \/ \E lc \in LenClasses : SendMessage /\ hist' = Append(hist, <<"Send", lc>>)
            \/ \E m \in Modes : ActivateOutbound(m) /\ hist' = Append(hist, <<"Switch", m>>)
            \/ RaiseNeedRekey /\ hist' = Append(hist, <<"Need", "">>)
            \/ \E k \in 1..Cells : PartialSend(k) /\ hist' = Append(hist, <<"Write", ToString(k)>>)
            \* a socket timeout inside write_all changes nothing (the same bytes are offered again)
            \/ wcells < Cells /\ Len(hist) > 0 /\ hist[Len(hist)][1] # "WTimeout"
                  /\ hist' = Append(hist, <<"WTimeout", "">>) /\ UNCHANGED vars
            \/ \E k \in 1..MaxChunk : Arrive(k) /\ hist' = Append(hist, <<"Arrive", ToString(k)>>)
            \/ ReadMessage /\ hist' = Append(hist, <<"Read", "">>)
GSpec == GInit /\ [][GNext]_gvars
EmitBeh == Done => PrintT(<<"BEH", cfg.strict, cfg.zlib, cfg.mode0, hist, delivered>>)
=============================================================================
