--------------------------- MODULE SetAttr_Session ---------------------------
(* C31, sequences.  One served file, one open SFTPFile handle, and a sequence of   *)
(* steps: attribute changes of different kinds through the handle (SFTPFile.chmod / *)
(* chown / utime / truncate -> FSETSTAT -> the helper of SetAttr) interleaved with   *)
(* other mutations of the same file (a write, os.chmod / os.chown / os.utime /       *)
(* os.truncate behind the handle's back).  Every handle step must have the meaning   *)
(* of the ONE os.* call it names on the file as it is at that moment: SetAttr's      *)
(* Verdict with file0 = the file before the step, attr = the named change.           *)
(* What the client puts on the wire is `sent`: a fresh attribute block holding only  *)
(* the named fields (paramiko 4.0.0), or - SharedBlock = TRUE, a seeded defect - one  *)
(* block per handle that accumulates every field ever set through it.               *)
EXTENDS SetAttr
CONSTANTS MaxSteps, SharedBlock
VARIABLES hblock,      \* the fields a per-handle block would hold (has_* flags and values)
          hist         \* the steps taken, as integer tuples <<route, kind, v1, v2>> (for spec -> code replay)
svars == <<vars, hblock, hist>>

Empty == [has_perm |-> FALSE, perm |-> First(Perms), has_own |-> FALSE, uid |-> First(Ids), gid |-> First(Ids),
          has_time |-> FALSE, atime |-> First(Times), mtime |-> First(Times), time_now |-> FALSE,
          now_lo |-> <<0, 0>>, now_hi |-> <<0, 0>>, has_size |-> FALSE, size |-> 0]
PermReq(p)    == [Empty EXCEPT !.has_perm = TRUE, !.perm = p]
OwnReq(u, g)  == [Empty EXCEPT !.has_own = TRUE, !.uid = u, !.gid = g]
TimeReq(a, m) == [Empty EXCEPT !.has_time = TRUE, !.atime = a, !.mtime = m]
SizeReq(n)    == [Empty EXCEPT !.has_size = TRUE, !.size = n]
\* SFTPFile.truncate builds its own block in every version; the other three share the handle's block
Merge(b, a) == [b EXCEPT !.has_perm = b.has_perm \/ a.has_perm, !.perm = IF a.has_perm THEN a.perm ELSE b.perm,
                         !.has_own = b.has_own \/ a.has_own, !.uid = IF a.has_own THEN a.uid ELSE b.uid,
                         !.gid = IF a.has_own THEN a.gid ELSE b.gid,
                         !.has_time = b.has_time \/ a.has_time, !.atime = IF a.has_time THEN a.atime ELSE b.atime,
                         !.mtime = IF a.has_time THEN a.mtime ELSE b.mtime]
Requests == {PermReq(p) : p \in Perms} \cup {OwnReq(u, u) : u \in Ids} \cup {TimeReq(t, t) : t \in Times}
            \cup {SizeReq(n) : n \in {1, 3}}
Later == <<70001, 0>>      \* the clock at a write or a size change made behind the handle's back

Code(route, a) == IF a.has_perm THEN <<route, 1, a.perm, 0>>
                  ELSE IF a.has_own THEN <<route, 2, a.uid, a.gid>>
                  ELSE IF a.has_time THEN <<route, 3, a.atime[1], a.mtime[1]>>
                  ELSE <<route, 4, a.size, 0>>

SInit == /\ file0 = PlainFile(<<1, 2>>, First(Perms))
         /\ file = file0 /\ attr = Empty /\ pc = "env" /\ hblock = Empty /\ hist = <<>>
\* an attribute change through the handle
ByHandle(a) ==
  /\ Len(hist) < MaxSteps
  /\ LET shared == SharedBlock /\ ~a.has_size
         sent   == IF shared THEN Merge(hblock, a) ELSE a
     IN /\ file' = HelperResult(file, sent)
        /\ hblock' = IF shared THEN sent ELSE hblock
  /\ file0' = file /\ attr' = a /\ pc' = "done" /\ hist' = Append(hist, Code(0, a))
\* the same kinds of change made directly on the served file (os.chmod ...), and a write
Behind(a) ==
  /\ Len(hist) < MaxSteps
  /\ file' = [HelperResult(file, a) EXCEPT !.mtime = IF a.has_size THEN Later ELSE @]
  /\ file0' = file /\ attr' = a /\ pc' = "env" /\ hist' = Append(hist, Code(1, a)) /\ UNCHANGED hblock
Write ==
  /\ Len(hist) < MaxSteps
  /\ file' = [file EXCEPT !.content = <<3>> \o Tail(@ \o <<0>>), !.mtime = Later]
  /\ file0' = file /\ attr' = Empty /\ pc' = "env" /\ hist' = Append(hist, <<1, 5, 0, 0>>) /\ UNCHANGED hblock
SNext == \E a \in Requests : ByHandle(a) \/ Behind(a)
         \/ Write
SSpec == SInit /\ [][SNext]_svars

\* every handle step means exactly the os.* call it names (SetAttr!Verdict looks at pc = "done" states)
SessionMeaning == Verdict = {}
EmitSession == Len(hist) = MaxSteps => PrintT(<<"SESSION", hist>>)
=============================================================================
