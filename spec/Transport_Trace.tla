--------------------------- MODULE Transport_Trace ---------------------------
(* code -> spec for C12 / C15.  One trace = one real session; each event is one   *)
(* message a scripted peer sent to the victim transport, with the victim's state  *)
(* before it (authenticated?, auth handler present?, class of the channel number) *)
(* and what was observed after the victim had fully handled it (the next message  *)
(* it read was the marker that follows every probe): reply, still active, new     *)
(* ServerInterface callbacks, size of the channel table and accept queue.         *)
EXTENDS Transport, Json, IOUtils, TLCExt
Batch == JsonDeserialize(IOEnv.TRACE_FILE)
VARIABLES tid, l, bad
tvars == <<tid, l, bad, vars>>
T == Batch[tid].events
E == T[l]
TInit == /\ tid \in 1..Len(Batch) /\ l = 1 /\ bad = {}
         /\ active = TRUE /\ authed = FALSE /\ authHandler = FALSE /\ expected = {} /\ strictPending = FALSE
         /\ chans = {} /\ seen = {} /\ inKex = FALSE /\ seqIn = 0 /\ cb = {} /\ last = Obs(0, 0, "none", NoReply, 0)
\* bind the logged pre-state, then take the spec's Recv on it
Bound(e) == /\ authed = e.authed /\ authHandler = e.authHandler
            /\ chans = (IF e.chan = "live" THEN {1} ELSE {}) /\ seen = (IF e.chan \in {"live", "seen"} THEN {1} ELSE {})
            /\ seqIn = e.seq % SeqMod
K(e) == LET k == CASE e.t = IGNORE -> "skipped" [] e.t = DISCONNECT -> "disconnect" [] e.t = DEBUG -> "skipped"
                   [] e.t \in TransportTable ->
                        IF Role = "server" /\ e.t > HighestUserauth /\ ~e.authed
                          THEN (IF e.t \in {GLOBAL_REQUEST, CHANNEL_OPEN} THEN "refused" ELSE "refused_empty_reply")
                          ELSE "handled"
                   [] e.t \in ChannelTable -> IF e.chan = "live" THEN "chan_handled" ELSE IF e.chan = "seen" THEN "chan_dead_ignored" ELSE "die_unknown_channel"
                   [] e.authHandler /\ e.t \in AuthTable(Role) -> "auth_handled"
                   [] OTHER -> IF e.t = UNIMPL THEN "unhandled_silent" ELSE "unhandled_answered"
        IN k
TNext ==
  /\ l <= Len(T) /\ l' = l + 1 /\ tid' = tid
  /\ UNCHANGED vars
  /\ LET e == E
         k == K(e)
         reply == IF e.reply = <<>> THEN NoReply ELSE e.reply
     IN bad' =
        \* ---- C12: the spec and the live tables agree the type is unhandled
        (IF k = "unhandled_answered" /\ ~e.live_handled /\ e.authed
           THEN (IF reply # NoReply /\ reply[1] = UNIMPL THEN {} ELSE {"P_no_unimplemented_reply"})
                \cup (IF reply # NoReply /\ reply[1] = UNIMPL /\ (reply[2] # e.seq \/ reply[3] # e.seq_hi)   \* 16-bit limbs
                        THEN {"P_unimplemented_wrong_seqno"} ELSE {})
                \cup (IF e.active /\ e.continues THEN {} ELSE {"P_session_ended_by_unhandled_type"})
           ELSE {})
        \cup (IF e.t = UNIMPL /\ reply # NoReply THEN {"P_unimplemented_was_answered"} ELSE {})
        \cup (IF e.t = UNIMPL /\ e.authed /\ ~(e.active /\ e.continues) THEN {"P_session_ended_by_unimplemented"} ELSE {})
        \* ---- C15: server, not authenticated
        \cup (IF Role = "server" /\ ~e.authed /\ e.t >= 80 /\ e.t <= 100
                THEN (IF e.conn_cb THEN {"P_preauth_application_consulted"} ELSE {})
                     \cup (IF e.nchans = 0 /\ e.accepts = 0 THEN {} ELSE {"P_preauth_channel_created"})
                     \cup (IF e.delivered THEN {"P_preauth_channel_data_delivered"} ELSE {})
                     \cup (IF e.active /\ e.t = GLOBAL_REQUEST /\ (reply = NoReply \/ reply[1] # REQUEST_FAILURE)
                             THEN {"P_preauth_global_request_not_refused"} ELSE {})
                     \cup (IF e.active /\ e.t = CHANNEL_OPEN /\ (reply = NoReply \/ reply[1] # OPEN_FAILURE)
                             THEN {"P_preauth_channel_open_not_refused"} ELSE {})
                ELSE {})
        \* ---- conformance: the coarse reaction the dispatch model predicts
        \cup (IF Dies(k) /\ e.active /\ k # "refused_empty_reply" THEN {"C_model_says_terminates"} ELSE {})
        \cup (IF k \in {"skipped", "unhandled_silent", "chan_dead_ignored"} /\ reply # NoReply THEN {"C_model_says_silent"} ELSE {})
TSpec == TInit /\ [][TNext]_tvars
Report == /\ (bad # {} => PrintT(<<"VERDICT", tid, l - 1, bad>>))
          /\ (l = Len(T) + 1 => PrintT(<<"DONE", tid>>))
=============================================================================
