------------------------------- MODULE SigAlg -------------------------------
(* C07.  Which signature algorithm a verifier accepts.                             *)
(*                                                                                 *)
(*  side "client": Transport._verify_key - the host-key signature over the         *)
(*                 exchange hash of ANY key exchange (the initial one or a          *)
(*                 re-exchange); `decl` is the host-key algorithm NEGOTIATED        *)
(*                 for that exchange                                                *)
(*  side "server": AuthHandler._parse_userauth_request, publickey branch - the      *)
(*                 signature over the session blob; `decl` is the algorithm NAMED   *)
(*                 in the request                                                   *)
(*                                                                                 *)
(* A case is (side, decl, cert form?, sign, blob, enabled):                         *)
(*   sign   the algorithm the signature was really made with (the hash for RSA,     *)
(*          the curve = key for ECDSA); the key presented is the one that can       *)
(*          make it                                                                 *)
(*   blob   the algorithm name written in the signature blob                        *)
(*   enabled  the verifier's enabled algorithms of that kind (preferred_keys /       *)
(*          preferred_pubkeys after disabled_algorithms)                            *)
(*                                                                                 *)
(* The verifier walks   [Probe ->] CheckDeclared -> LoadKey -> VerifySig.           *)
(* Server side a request may be preceded by an unsigned PROBE for the same key       *)
(* naming algorithm `probe` (answered PK_OK, or the session is ended when `probe`    *)
(* is not enabled); the probe must not influence the decision on the signed          *)
(* request that follows.                                                             *)
(* Fix = FALSE is the pinned code: RSAKey.verify_ssh_sig takes the hash from the    *)
(* blob, ECDSAKey loads a key of any curve and compares the blob with the KEY's     *)
(* curve; nothing compares the blob with `decl` or with the enabled set.            *)
(* Fix = TRUE adds the comparison blob = Base(decl) before verifying.               *)
EXTENDS Naturals, FiniteSets, TLC

CONSTANTS Fix,        \* FALSE = pinned code, TRUE = repaired
          Sides,      \* subset of {"client", "server"}
          Families,   \* subset of {"rsa", "ecdsa", "ed25519"}
          EnabledChoice,   \* "all" = every subset of the family's names, "few" = full set and full minus one name
          ExchChoice,      \* "initial" = the first key exchange only, "all" = also re-exchanges started by either peer
          BannerChoice,    \* "default" = the peer identifies as paramiko, "all" = server-side RSA requests also under
                           \* the client identification strings in Banners (the verdict must not depend on it)
          ProbeChoice,     \* "none" = signed requests only, "all" = also every probe-then-sign sequence (server)
          Mut         \* "none" | "no_enabled_check" | "probe_caches_key" | "algcheck_first_exchange_only" | "sigtype_compat" (sensitivity)

RSA   == {"ssh-rsa", "rsa-sha2-256", "rsa-sha2-512"}
ECDSA == {"ecdsa-sha2-nistp256", "ecdsa-sha2-nistp384", "ecdsa-sha2-nistp521"}
ED    == {"ssh-ed25519"}
\* client identification strings a request may arrive under; OpenSSH 7.2 - 7.7 clients are the ones sshd grants
\* its SSH_BUG_SIGTYPE tolerance to
Banners     == {"paramiko", "openssh_7_2", "openssh_7_4", "openssh_7_7", "openssh_8_9", "putty"}
SigtypeBug  == {"openssh_7_2", "openssh_7_4", "openssh_7_7"}
Names(f) == CASE f = "rsa" -> RSA [] f = "ecdsa" -> ECDSA [] f = "ed25519" -> ED
Family(a) == CASE a \in RSA -> "rsa" [] a \in ECDSA -> "ecdsa" [] a \in ED -> "ed25519" [] OTHER -> "foreign"
\* a name of another family, used as a mismatched blob name
Foreign(f) == IF f = "rsa" THEN "ssh-ed25519" ELSE "ssh-rsa"
\* only RSA has several signature algorithms per key, so only RSA certificates name an algorithm of their own
CertForms(f) == IF f = "rsa" THEN BOOLEAN ELSE {FALSE}
EnabledSets(f) == IF EnabledChoice = "all" THEN SUBSET Names(f)
                  ELSE {Names(f)} \cup {Names(f) \ {x} : x \in Names(f)}

VARIABLES side, fam, decl, cert, sign, blob, enabled,    \* the case (constant along a behaviour)
          exch,     \* client side: which key exchange carries the signature: "initial" | "rekey_client" | "rekey_server"
                    \* (a re-exchange follows an honest initial one; the same algorithm is negotiated again)
          banner,   \* class of the PEER's identification string (Transport.remote_version) - chosen by the peer
          probe,    \* "none", or the algorithm named by the unsigned probe sent first (server side)
          phase     \* "start" | "probed" | "declared_ok" | "key_loaded" | "accepted" | "rejected"
vars == <<side, fam, decl, cert, sign, blob, enabled, probe, exch, banner, phase>>

Init == /\ side \in Sides /\ fam \in Families
        /\ decl \in Names(fam) /\ cert \in CertForms(fam)
        /\ sign \in Names(fam)
        /\ blob \in Names(fam) \cup {Foreign(fam)}
        /\ enabled \in EnabledSets(fam)
        /\ exch \in {"initial"} \cup (IF side = "client" /\ ExchChoice = "all" THEN {"rekey_client", "rekey_server"} ELSE {})
        /\ probe \in {"none"} \cup (IF side = "server" /\ ProbeChoice = "all" THEN Names(fam) ELSE {})
        /\ banner \in {"paramiko"} \cup (IF side = "server" /\ fam = "rsa" /\ probe = "none" /\ BannerChoice = "all"
                                        THEN Banners ELSE {})
        /\ phase = "start"

(* unsigned request: _generate_key_from_request + check_auth_publickey, then PK_OK; an algorithm that is not   *)
(* enabled ends the session (_disconnect_no_more_auth)                                                       *)
SessionAlive(pr, en) == pr = "none" \/ pr \in en
Probe ==
    /\ phase = "start" /\ probe # "none"
    /\ phase' = IF SessionAlive(probe, enabled) THEN "probed" ELSE "rejected"
    /\ UNCHANGED <<side, fam, decl, cert, sign, blob, enabled, probe, exch, banner>>

(* client: the algorithm is negotiated from the client's own enabled list (C05);                       *)
(* server: _generate_key_from_request refuses an algorithm that is not in preferred_pubkeys            *)
\* seeded error "probe_caches_key": the key object built for an answered probe is reused, skipping this check
CheckDeclared ==
    /\ (phase = "start" /\ probe = "none") \/ phase = "probed"
    /\ phase' = IF \/ decl \in enabled
                   \/ Mut = "no_enabled_check"
                   \/ (Mut = "probe_caches_key" /\ phase = "probed")
                THEN "declared_ok" ELSE "rejected"
    /\ UNCHANGED <<side, fam, decl, cert, sign, blob, enabled, probe, exch, banner>>

(* _key_info[decl](Message(blob)): the key class of decl's family parses the presented key; the ECDSA   *)
(* class accepts every curve, whatever curve decl names                                                *)
LoadKey ==
    /\ phase = "declared_ok"
    /\ phase' = IF Family(sign) = Family(decl) THEN "key_loaded" ELSE "rejected"
    /\ UNCHANGED <<side, fam, decl, cert, sign, blob, enabled, probe, exch, banner>>

(* key.verify_ssh_sig(data, sig): RSA picks the hash named by the blob, ECDSA / Ed25519 compare the blob  *)
(* with the key's own name; a genuine signature made with `sign` verifies exactly when that is `sign`    *)
KeyAccepts == blob = sign
VerifySig ==
    /\ phase = "key_loaded"
    \* seeded error "algcheck_first_exchange_only": the comparison with the negotiated algorithm sits in the
    \* first-exchange arm of _verify_key
    \* seeded error "sigtype_compat": for clients announcing OpenSSH 7.2-7.7 a request naming ssh-rsa may carry an
    \* rsa-sha2-* signature
    /\ phase' = IF (Fix /\ ~(Mut = "algcheck_first_exchange_only" /\ exch # "initial")
                       /\ ~(Mut = "sigtype_compat" /\ banner \in SigtypeBug /\ decl = "ssh-rsa"
                            /\ blob \in {"rsa-sha2-256", "rsa-sha2-512"})
                    => blob = decl) /\ KeyAccepts
                THEN "accepted" ELSE "rejected"
    /\ UNCHANGED <<side, fam, decl, cert, sign, blob, enabled, probe, exch, banner>>

Next == Probe \/ CheckDeclared \/ LoadKey \/ VerifySig
Spec == Init /\ [][Next]_vars

(* ---- the property, as predicates shared with SigAlg_Trace -------------------- *)
\* the signature uses the negotiated / declared algorithm (cert forms name the same signature algorithm)
UsesDeclaredP(acc, d, s, b)  == acc => (b = d /\ s = d)
\* ... and it is one the verifier has enabled
OnlyEnabledP(acc, s, b, en)  == acc => (s \in en /\ b \in en)
\* what the statement lets a verifier accept at most
MayAccept(d, s, b, en)       == b = d /\ s = d /\ d \in en
\* what the pinned code does (conformance)
PinnedAccepts(d, s, b, en)   == d \in en /\ Family(s) = Family(d) /\ b = s

UsesDeclared == UsesDeclaredP(phase = "accepted", decl, sign, blob)
OnlyEnabled  == OnlyEnabledP(phase = "accepted", sign, blob, enabled)
Exact        == phase = "accepted" => MayAccept(decl, sign, blob, enabled)
\* the repaired verifier still accepts every proper signature
Complete     == phase = "rejected" => ~MayAccept(decl, sign, blob, enabled) \/ ~SessionAlive(probe, enabled)

Final == phase \in {"accepted", "rejected"}
Emit  == Final => PrintT(<<"CASE", side, fam, decl, cert, sign, blob, enabled, phase, probe, exch, banner>>)
=============================================================================
