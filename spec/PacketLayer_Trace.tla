-------------------------- MODULE PacketLayer_Trace --------------------------
(* code -> spec for C01 (honest streams) and C02 (edited streams).               *)
(* A trace is what one sender Packetizer / one receiver Packetizer really did:   *)
(*   [strict, zlib, mode0, ev]   mode0 = framing mode of the first key epoch,    *)
(*                        ev = sequence of events [a, i, r, got, seq]            *)
(*   a = "Send"   i = message id, seq = sender's sequence number before the call *)
(*       "Switch" _activate_outbound was called (seq as above), r = framing mode *)
(*                of the new key epoch ("classic" | "etm" | "aead")              *)
(*       "Flip" / "DelByte" / "InsByte" / "Drop" / "Replay" / "Swap" / "Cut"     *)
(*                the harness edited packet i of the bytes in flight (r = region)*)
(*       "Read"   read_message returned: r = "data" | "newkeys", got = id of the *)
(*                sent message with the same type and payload bytes (0 = none),  *)
(*                seq = Message.seqno                                            *)
(*       "Fail"   read_message raised (r = exception class)                      *)
(*       "Wait"   read_message wanted bytes that are not coming                  *)
(*       "End"    the driver stopped                                             *)
(* Every event takes the corresponding action of PacketLayer (arrival of bytes   *)
(* is not observable and is filled in with Arrive).  The step is total:          *)
(* bad' = names of the clauses that fail.  P_ clauses are the statements of      *)
(* C01 / C02 evaluated on what the CODE delivered (cdel); C_ clauses compare the *)
(* code with the model's own run.                                                *)
(* P_edited_accepted: read_message handed up a packet some byte of which (MAC    *)
(* and padding included) had been changed - even if the payload is what was sent *)
(* the integrity check did not cover the whole packet.                           *)
EXTENDS PacketLayer, Json, IOUtils, TLCExt
Batch == JsonDeserialize(IOEnv.TRACE_FILE)
VARIABLES tid, l, bad, cdel
tvars == <<tid, l, bad, cdel, vars>>
R  == Batch[tid]
E  == R.ev[l]
Min(a, b) == IF a < b THEN a ELSE b
S(c, name) == IF c THEN {name} ELSE {}

TInit == /\ tid \in 1..Len(Batch) /\ l = 1 /\ bad = {} /\ cdel = <<>>
         /\ Init /\ cfg = [strict |-> R.strict, zlib |-> R.zlib, mode0 |-> R.mode0, mut |-> "none"]

CanRead == rstate = "ok" /\ wire # <<>>
Stuck   == UNCHANGED vars

SendStep ==
    /\ cdel' = cdel
    /\ IF Len(sent) < NMsgs
         THEN /\ SendMessage
              /\ bad' = S(E.i # Len(sent) + 1, "C_mid") \cup S(E.seq >= 0 /\ E.seq # sseq, "C_seq_out")
         ELSE Stuck /\ bad' = {"C_spec_stuck"}

SwitchStep ==
    /\ cdel' = cdel
    /\ IF nsw < MaxSwitch
         THEN ActivateOutbound(E.r) /\ bad' = S(E.seq >= 0 /\ E.seq # sseq, "C_seq_out")
         ELSE Stuck /\ bad' = {"C_spec_stuck"}

AttackStep ==
    /\ cdel' = cdel
    /\ LET A == CASE E.a = "Flip"    -> Flip(E.i, E.r)
                  [] E.a = "DelByte" -> DelByte(E.i)
                  [] E.a = "InsByte" -> InsByte(E.i)
                  [] E.a = "Drop"    -> Drop(E.i)
                  [] E.a = "Replay"  -> Replay(E.i)
                  [] E.a = "Swap"    -> Swap(E.i)
                  [] E.a = "Cut"     -> Cut(E.i)
       IN IF Untouched(E.i) /\ ntamper < MaxTamper /\ (E.a = "Swap" => E.i < Len(wire))
            THEN A /\ bad' = {}
            ELSE Stuck /\ bad' = {"C_spec_stuck"}

\* read_message returned a message
ReadStep ==
    LET cd == IF E.r = "data" THEN Append(cdel, E.got) ELSE cdel IN
    /\ cdel' = cd
    /\ IF CanRead
         THEN /\ ReadMessage /\ rstate' # "waiting"
              /\ bad' = S(E.r = "data" /\ E.got = Alien, "P_alien")
                        \cup S(E.r = "data" /\ E.got # Alien /\ ~IsPrefix(cd, sent), "P_order")
                        \cup S(~Head(wire).intact, "P_edited_accepted")
                        \cup S(rstate' # "ok" \/ delivered' # cd, "C_diverges")
                        \cup S(Head(wire).kind # E.r, "C_kind")
                        \cup S(E.seq # rseq, "C_seq_in")
         ELSE /\ Stuck
              /\ bad' = S(E.r = "data" /\ E.got = Alien, "P_alien")
                        \cup S(E.r = "data" /\ E.got # Alien /\ ~IsPrefix(cd, sent), "P_order")
                        \cup {"C_diverges"}

\* read_message raised / would block forever
StopStep ==
    LET want == IF E.a = "Fail" THEN "failed" ELSE "waiting" IN
    /\ cdel' = cdel
    /\ IF CanRead
         THEN LET o == Outcomes(Head(wire)) IN
              /\ ReadMessage
              /\ rstate' = IF want \in o THEN want ELSE CHOOSE x \in o : TRUE
              /\ bad' = S("ok" \in o /\ ntamper = 0, "P_fails_honest")
                        \cup S("ok" \in o /\ ntamper > 0, "C_fails_early")
                        \cup S("ok" \notin o /\ want \notin o, "C_terminal")
         ELSE /\ Stuck
              /\ bad' = S(ntamper = 0 /\ E.a = "Fail", "P_fails_honest")

EndStep ==
    /\ cdel' = cdel /\ Stuck
    /\ bad' = S(ntamper = 0 /\ cdel # sent, "P_loss")
              \cup S(~IsPrefix(cdel, sent), "P_order")
              \cup S(cdel # delivered, "C_diverges")

NeedArrive == E.a \in {"Read", "Fail", "Wait"} /\ arrived < Cells * Len(wire)

TNext == /\ l <= Len(R.ev)
         /\ tid' = tid
         /\ IF NeedArrive
              THEN /\ Arrive(Min(MaxChunk, Cells * Len(wire) - arrived))
                   /\ UNCHANGED <<l, bad, cdel>>
              ELSE /\ l' = l + 1
                   /\ CASE E.a = "Send"   -> SendStep
                        [] E.a = "Switch" -> SwitchStep
                        [] E.a = "Read"   -> ReadStep
                        [] E.a \in {"Fail", "Wait"} -> StopStep
                        [] E.a = "End"    -> EndStep
                        [] OTHER          -> AttackStep
TSpec == TInit /\ [][TNext]_tvars
Report == /\ (bad # {} => PrintT(<<"VERDICT", tid, l - 1, bad>>))
          /\ (l = Len(R.ev) + 1 => PrintT(<<"DONE", tid>>))
=============================================================================
