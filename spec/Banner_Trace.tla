---------------------------- MODULE Banner_Trace ----------------------------
(* code -> spec for X04.  One trace = one real Transport (client or server role) whose peer *)
(* is a raw socket end that sends `pre` junk lines and then the lines of `tail`; the        *)
(* record holds how the version exchange ended (`status`, classified from what the transport *)
(* did next: sent its KEXINIT, or died with which exception) and the identification string   *)
(* it remembered.  The design spec is replayed on the recorded lines.                         *)
EXTENDS Banner, Json, IOUtils, TLCExt
Batch == JsonDeserialize(IOEnv.TRACE_FILE)
VARIABLES tid, l, bad
tvars == <<tid, l, bad, vars>>
T == Batch[tid]
TInit == /\ tid \in 1..Len(Batch) /\ l = 1 /\ bad = {}
         /\ pre = T.pre /\ tail = <<>> /\ n = T.pre /\ status = IF T.pre >= Limit THEN "indecipherable" ELSE "reading"
TRead == /\ l <= Len(T.tail) /\ l' = l + 1 /\ UNCHANGED <<tid, bad>>
         /\ IF status = "reading" THEN Read(T.tail[l]) ELSE UNCHANGED vars      \* lines after the verdict are not looked at
TFinal == /\ l = Len(T.tail) + 1 /\ l' = l + 1 /\ UNCHANGED <<tid, vars>>
          /\ bad' = (IF T.status = "accepted" /\ status # "accepted" THEN {"P_session_accepted_without_valid_identification"} ELSE {})
               \cup (IF T.status # "accepted" /\ status = "accepted" THEN {"P_valid_peer_rejected"} ELSE {})
               \cup (IF T.status # status /\ T.status # "accepted" /\ status \notin {"accepted", "reading"} THEN {"C_rejected_for_another_reason"} ELSE {})
               \cup (IF status = "reading" /\ T.status # "read_error" THEN {"C_verdict_before_end_of_input"} ELSE {})
               \cup (IF status = "accepted" /\ T.status = "accepted" /\ ~T.version_ok THEN {"P_identification_string_not_remembered"} ELSE {})
TSpec == TInit /\ [][TRead \/ TFinal]_tvars
Report == l = Len(T.tail) + 2 => /\ (bad # {} => PrintT(<<"VERDICT", tid, bad>>))
                                 /\ PrintT(<<"DONE", tid>>)
=============================================================================
