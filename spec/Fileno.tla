------------------------------- MODULE Fileno -------------------------------
(* C24, the step before OrPipe.tla: Channel.fileno() itself (paramiko/channel.py).   *)
(* Several application threads may call fileno() for the first time at once while    *)
(* the transport thread feeds data.  One label per statement of fileno():            *)
(*   acq   self.lock.acquire()                                                       *)
(*   chk   if self._pipe is not None: return self._pipe.fileno()                     *)
(*   mk    self._pipe = pipe.make_pipe(); p1, p2 = pipe.make_or_pipe(self._pipe)      *)
(*   ev1   self.in_buffer.set_event(p1)         (critical section of the buffer)      *)
(*   ev2   self.in_stderr_buffer.set_event(p2)                                       *)
(*   rel   return self._pipe.fileno()  / finally: self.lock.release()                *)
(* BufferedPipe.feed is one critical section: event.set() on whatever event the      *)
(* buffer currently points at, then the bytes are appended.                          *)
(* Recheck = TRUE is the code as it is (the test for an existing pipe happens under  *)
(* the lock).  Recheck = FALSE is the seeded error "test before taking the lock,     *)
(* create without testing again", which TLC must refute.                             *)
EXTENDS Naturals, FiniteSets, TLC

CONSTANTS Callers, InitOut, InitErr, Feeds, Recheck

MaxP == Cardinality(Callers)
Free == "free"
VARIABLES pc, lock, chanPipe, npipes, evt, half, buf, ret, mine, fed
vars == <<pc, lock, chanPipe, npipes, evt, half, buf, ret, mine, fed>>

Init == /\ pc = [c \in Callers |-> "start"]
        /\ lock = Free /\ chanPipe = 0 /\ npipes = 0
        /\ evt = <<0, 0>>                                   \* which pipe each buffer's event belongs to (0: no event)
        /\ half = [k \in 1..MaxP |-> <<FALSE, FALSE>>]       \* OrPipe halves of pipe k; the pipe is readable iff one is set
        /\ buf = <<InitOut, InitErr>>
        /\ ret = [c \in Callers |-> 0] /\ mine = [c \in Callers |-> 0] /\ fed = 0

Readable(k) == k # 0 /\ (half[k][1] \/ half[k][2])

Start(c) == /\ pc[c] = "start"
            /\ IF Recheck THEN pc' = [pc EXCEPT ![c] = "acq"] /\ UNCHANGED ret
               ELSE IF chanPipe # 0 THEN pc' = [pc EXCEPT ![c] = "done"] /\ ret' = [ret EXCEPT ![c] = chanPipe]
               ELSE pc' = [pc EXCEPT ![c] = "acq"] /\ UNCHANGED ret
            /\ UNCHANGED <<lock, chanPipe, npipes, evt, half, buf, mine, fed>>
Acq(c) == /\ pc[c] = "acq" /\ lock = Free
          /\ lock' = c /\ pc' = [pc EXCEPT ![c] = "chk"]
          /\ UNCHANGED <<chanPipe, npipes, evt, half, buf, ret, mine, fed>>
Chk(c) == /\ pc[c] = "chk"
          /\ IF Recheck /\ chanPipe # 0
             THEN mine' = [mine EXCEPT ![c] = chanPipe] /\ pc' = [pc EXCEPT ![c] = "rel"]
             ELSE UNCHANGED mine /\ pc' = [pc EXCEPT ![c] = "mk"]
          /\ UNCHANGED <<lock, chanPipe, npipes, evt, half, buf, ret, fed>>
Mk(c) == /\ pc[c] = "mk"
         /\ npipes' = npipes + 1 /\ chanPipe' = npipes + 1 /\ mine' = [mine EXCEPT ![c] = npipes + 1]
         /\ pc' = [pc EXCEPT ![c] = "ev1"]
         /\ UNCHANGED <<lock, evt, half, buf, ret, fed>>
\* BufferedPipe.set_event: remember the event; set it if data is buffered, else clear it
SetEvent(c, b, next) == /\ evt' = [evt EXCEPT ![b] = mine[c]]
                        /\ half' = [half EXCEPT ![mine[c]][b] = buf[b] > 0]
                        /\ pc' = [pc EXCEPT ![c] = next]
                        /\ UNCHANGED <<lock, chanPipe, npipes, buf, ret, mine, fed>>
Ev1(c) == pc[c] = "ev1" /\ SetEvent(c, 1, "ev2")
Ev2(c) == pc[c] = "ev2" /\ SetEvent(c, 2, "rel")
Rel(c) == /\ pc[c] = "rel"
          /\ lock' = Free /\ ret' = [ret EXCEPT ![c] = mine[c]] /\ pc' = [pc EXCEPT ![c] = "done"]
          /\ UNCHANGED <<chanPipe, npipes, evt, half, buf, mine, fed>>

Feed(b) == /\ fed < Feeds /\ fed' = fed + 1
           /\ half' = IF evt[b] # 0 THEN [half EXCEPT ![evt[b]][b] = TRUE] ELSE half
           /\ buf' = [buf EXCEPT ![b] = @ + 1]
           /\ UNCHANGED <<pc, lock, chanPipe, npipes, evt, ret, mine>>

Next == (\E c \in Callers : Start(c) \/ Acq(c) \/ Chk(c) \/ Mk(c) \/ Ev1(c) \/ Ev2(c) \/ Rel(c)) \/ (\E b \in 1..2 : Feed(b))
Spec == Init /\ [][Next]_vars

Quiescent == \A c \in Callers : pc[c] = "done"
HasData == buf[1] > 0 \/ buf[2] > 0
\* every descriptor an application was handed is readable exactly when data is buffered
DescriptorTracksData == Quiescent => \A c \in Callers : Readable(ret[c]) <=> HasData
\* ... and there is one descriptor per channel
OneDescriptor == Quiescent => \A c \in Callers : ret[c] = chanPipe
NoDeadlock == \/ Quiescent \/ ENABLED Next
=============================================================================
