------------------------------- MODULE Fileno -------------------------------
(* C24, the step before OrPipe.tla: Channel.fileno() itself (paramiko/channel.py).   *)
(* Several application threads may call fileno() for the first time at once while    *)
(* the transport thread feeds data.  One label per statement of fileno():            *)
(*   acq   self.lock.acquire()                                                       *)
(*   chk   if self._pipe is not None: return self._pipe.fileno()                     *)
(*   mk    self._pipe = pipe.make_pipe(); p1, p2 = pipe.make_or_pipe(self._pipe)      *)
(*   ev1   self.in_buffer.set_event(p1)         (critical section of the buffer)      *)
(*   ev2   self.in_stderr_buffer.set_event(p2)                                       *)
(*   rel   return self._pipe.fileno()  / finally: self.lock.release()                *)
(* BufferedPipe.feed is one critical section: event.set() on whatever event the      *)
(* buffer currently points at, then the bytes are appended.                          *)
(* Recheck = TRUE is the code as it is (the test for an existing pipe happens under  *)
(* the lock).  Recheck = FALSE is the seeded error "test before taking the lock,     *)
(* create without testing again", which TLC must refute.                             *)
EXTENDS Naturals, FiniteSets, TLC

CONSTANTS Callers, InitOut, InitErr, Feeds, Recheck,
          Combines,          \* TRUE: an application thread may call set_combine_stderr(True) and drain stdout
          EmptyKeepsEvent    \* seeded error: BufferedPipe.empty() leaves the event as it is

MaxP == Cardinality(Callers)
Free == "free"
VARIABLES pc, lock, chanPipe, npipes, evt, half, buf, ret, mine, fed,
          cpc,      \* set_combine_stderr(True): "idle" | "refeed" | "done"
          carry,    \* bytes taken out of the stderr buffer by empty(), not yet fed into stdout
          reads     \* drains of stdout by the application (bounded)
vars == <<pc, lock, chanPipe, npipes, evt, half, buf, ret, mine, fed, cpc, carry, reads>>

Init == /\ pc = [c \in Callers |-> "start"]
        /\ lock = Free /\ chanPipe = 0 /\ npipes = 0
        /\ evt = <<0, 0>>                                   \* which pipe each buffer's event belongs to (0: no event)
        /\ half = [k \in 1..MaxP |-> <<FALSE, FALSE>>]       \* OrPipe halves of pipe k; the pipe is readable iff one is set
        /\ buf = <<InitOut, InitErr>>
        /\ ret = [c \in Callers |-> 0] /\ mine = [c \in Callers |-> 0] /\ fed = 0
        /\ cpc = "idle" /\ carry = 0 /\ reads = 0

Readable(k) == k # 0 /\ (half[k][1] \/ half[k][2])

Start(c) == /\ pc[c] = "start"
            /\ IF Recheck THEN pc' = [pc EXCEPT ![c] = "acq"] /\ UNCHANGED ret
               ELSE IF chanPipe # 0 THEN pc' = [pc EXCEPT ![c] = "done"] /\ ret' = [ret EXCEPT ![c] = chanPipe]
               ELSE pc' = [pc EXCEPT ![c] = "acq"] /\ UNCHANGED ret
            /\ UNCHANGED <<lock, chanPipe, npipes, evt, half, buf, mine, fed, cpc, carry, reads>>
Acq(c) == /\ pc[c] = "acq" /\ lock = Free
          /\ lock' = c /\ pc' = [pc EXCEPT ![c] = "chk"]
          /\ UNCHANGED <<chanPipe, npipes, evt, half, buf, ret, mine, fed, cpc, carry, reads>>
Chk(c) == /\ pc[c] = "chk"
          /\ IF Recheck /\ chanPipe # 0
             THEN mine' = [mine EXCEPT ![c] = chanPipe] /\ pc' = [pc EXCEPT ![c] = "rel"]
             ELSE UNCHANGED mine /\ pc' = [pc EXCEPT ![c] = "mk"]
          /\ UNCHANGED <<lock, chanPipe, npipes, evt, half, buf, ret, fed, cpc, carry, reads>>
Mk(c) == /\ pc[c] = "mk"
         /\ npipes' = npipes + 1 /\ chanPipe' = npipes + 1 /\ mine' = [mine EXCEPT ![c] = npipes + 1]
         /\ pc' = [pc EXCEPT ![c] = "ev1"]
         /\ UNCHANGED <<lock, evt, half, buf, ret, fed, cpc, carry, reads>>
\* BufferedPipe.set_event: remember the event; set it if data is buffered, else clear it
SetEvent(c, b, next) == /\ evt' = [evt EXCEPT ![b] = mine[c]]
                        /\ half' = [half EXCEPT ![mine[c]][b] = buf[b] > 0]
                        /\ pc' = [pc EXCEPT ![c] = next]
                        /\ UNCHANGED <<lock, chanPipe, npipes, buf, ret, mine, fed, cpc, carry, reads>>
Ev1(c) == pc[c] = "ev1" /\ SetEvent(c, 1, "ev2")
Ev2(c) == pc[c] = "ev2" /\ SetEvent(c, 2, "rel")
Rel(c) == /\ pc[c] = "rel"
          /\ lock' = Free /\ ret' = [ret EXCEPT ![c] = mine[c]] /\ pc' = [pc EXCEPT ![c] = "done"]
          /\ UNCHANGED <<chanPipe, npipes, evt, half, buf, mine, fed, cpc, carry, reads>>

\* data for stream b arrives; once stderr is combined into stdout, stderr data is fed into the stdout buffer
Target(b) == IF b = 2 /\ cpc = "done" THEN 1 ELSE b
Feed(b) == /\ fed < Feeds /\ fed' = fed + 1 /\ (b = 2 => cpc # "refeed")   \* set_combine_stderr holds the channel lock _feed_extended needs
           /\ LET t == Target(b) IN
                /\ half' = IF evt[t] # 0 THEN [half EXCEPT ![evt[t]][t] = TRUE] ELSE half
                /\ buf' = [buf EXCEPT ![t] = @ + 1]
           /\ UNCHANGED <<pc, lock, chanPipe, npipes, evt, ret, mine, cpc, carry, reads>>
\* the application drains stdout (BufferedPipe.read taking everything: clears the event of an open buffer)
Read1 == /\ Combines /\ reads < 2 /\ buf[1] > 0 /\ reads' = reads + 1
         /\ buf' = [buf EXCEPT ![1] = 0]
         /\ half' = IF evt[1] # 0 THEN [half EXCEPT ![evt[1]][1] = FALSE] ELSE half
         /\ UNCHANGED <<pc, lock, chanPipe, npipes, evt, ret, mine, fed, cpc, carry>>
\* set_combine_stderr(True), first half: data = in_stderr_buffer.empty()
Comb1 == /\ Combines /\ cpc = "idle" /\ lock = Free
         /\ carry' = buf[2] /\ buf' = [buf EXCEPT ![2] = 0]
         /\ half' = IF evt[2] # 0 /\ ~EmptyKeepsEvent THEN [half EXCEPT ![evt[2]][2] = FALSE] ELSE half
         /\ cpc' = "refeed" /\ lock' = "combiner"             \* both halves run under the channel lock (as fileno() does)
         /\ UNCHANGED <<pc, chanPipe, npipes, evt, ret, mine, fed, reads>>
\* ... second half: if len(data) > 0: self._feed(data)
Comb2 == /\ cpc = "refeed" /\ cpc' = "done" /\ carry' = 0 /\ lock' = Free
         /\ buf' = [buf EXCEPT ![1] = @ + carry]
         /\ half' = IF carry > 0 /\ evt[1] # 0 THEN [half EXCEPT ![evt[1]][1] = TRUE] ELSE half
         /\ UNCHANGED <<pc, chanPipe, npipes, evt, ret, mine, fed, reads>>

Next == (\E c \in Callers : Start(c) \/ Acq(c) \/ Chk(c) \/ Mk(c) \/ Ev1(c) \/ Ev2(c) \/ Rel(c)) \/ (\E b \in 1..2 : Feed(b))
        \/ Read1 \/ Comb1 \/ Comb2
Spec == Init /\ [][Next]_vars

Quiescent == (\A c \in Callers : pc[c] = "done") /\ cpc # "refeed"
HasData == buf[1] > 0 \/ buf[2] > 0
\* every descriptor an application was handed is readable exactly when data is buffered
DescriptorTracksData == Quiescent => \A c \in Callers : Readable(ret[c]) <=> HasData
\* ... and there is one descriptor per channel
OneDescriptor == Quiescent => \A c \in Callers : ret[c] = chanPipe
NoDeadlock == \/ Quiescent \/ ENABLED Next
=============================================================================
