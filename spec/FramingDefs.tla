----------------------------- MODULE FramingDefs -----------------------------
(* C03.  The arithmetic of RFC 4253 section 6 framing as Packetizer._build_packet *)
(* and send_message (paramiko/packet.py) do it, and what the RFC (with RFC 5647   *)
(* section 7 for AES-GCM and the OpenSSH -etm MAC extension) requires of every    *)
(* packet.  Pure definitions: used by the state machine (Framing), the trace spec *)
(* (Framing_Trace) and the TLAPS lemma (FramingLemma).                            *)
EXTENDS Naturals

Modes == {"plain", "classic", "etm", "aead"}   \* no cipher yet | encrypt-and-MAC | encrypt-then-MAC | AES-GCM
LenInClear(mode) == mode \in {"etm", "aead"}   \* the 4 length bytes are not part of the encrypted portion

(* ---- what the code computes ---- *)
AddLen(mode)     == IF LenInClear(mode) THEN 4 ELSE 8
Pad(n, b, mode)  == 3 + b - ((n + AddLen(mode)) % b)             \* _build_packet: padding
LenField(n, b, mode) == n + Pad(n, b, mode) + 1                  \* _build_packet: struct.pack(">IB", ...)
EncLen(n, b, mode)   == IF LenInClear(mode) THEN LenField(n, b, mode) ELSE 4 + LenField(n, b, mode)
RawLen(n, b, mode, mac) == 4 + LenField(n, b, mode) + mac        \* bytes handed to the socket
Build(n, b, mode, mac) == [n |-> n, b |-> b, mode |-> mode, mac |-> mac,
                           padlen |-> Pad(n, b, mode), len_field |-> LenField(n, b, mode),
                           enc_len |-> EncLen(n, b, mode), raw_len |-> RawLen(n, b, mode, mac)]

(* ---- what every packet must satisfy (p: a packet as observed on the wire) ---- *)
Max(x, y) == IF x > y THEN x ELSE y
PadRange(p)      == p.padlen >= 4 /\ p.padlen <= 255
LenConsistent(p) == p.len_field = p.n + p.padlen + 1             \* padding-length byte + payload + padding
EncPortion(p)    == IF LenInClear(p.mode) THEN p.len_field ELSE 4 + p.len_field
BlockAligned(p)  == EncPortion(p) % Max(8, p.b) = 0
MacLen(p)        == p.raw_len = 4 + p.len_field + p.mac          \* exactly the negotiated MAC / tag follows
WellFramed(p)    == PadRange(p) /\ LenConsistent(p) /\ BlockAligned(p) /\ MacLen(p)
=============================================================================
