---------------------------- MODULE AcceptQueue ----------------------------
(* X02 (beyond the listed properties).  The server-side queue of channels the peer   *)
(* opened: Transport._queue_incoming_channel (transport thread) and Transport.accept *)
(* (application threads), paramiko/transport.py.  One label per statement:           *)
(*   accept(timeout):  a1  self.lock.acquire()                                        *)
(*                     a2  if len(self.server_accepts) > 0: chan = pop(0)             *)
(*                         elif not self.active: chan = None                          *)
(*                         else: self.server_accept_cv.wait(timeout)   -> "wait"      *)
(*                     wait  (lock released; ends by notify or, if timed, by timeout)  *)
(*                     a3  lock re-acquired inside wait()                              *)
(*                     a4  if len(self.server_accepts) > 0: pop(0) else: None          *)
(*                     rel finally: self.lock.release(); return chan                   *)
(*   _queue_incoming_channel(c): q1 acquire; q2 append + notify(); q3 release          *)
(*   end of Transport.run():    active = False ... c1 acquire; c2 notify_all(); c3 release *)
(* WaitLoop = FALSE is the code as it is: ONE wait, then whatever the queue holds.     *)
(* WaitLoop = TRUE is the repaired design (wait again while the queue is empty, the    *)
(* session is active and the timeout has not expired).                                 *)
EXTENDS Naturals, Sequences, FiniteSets, TLC

CONSTANTS Accepters,     \* application threads, each makes one accept() call
          Timed,         \* subset of Accepters that pass a timeout (the others pass None)
          NChans,        \* channels the peer opens (queued in order 1..NChans)
          Closes,        \* TRUE: the session may end (run() tail) at any moment
          WaitLoop

Free == "free"
T == "T"   \* the transport thread
Pending == 0            \* result of an accept() that has not returned yet
NoneV == NChans + 1     \* accept() returned None   (results are numbers: TLC does not compare a number with a string)
VARIABLES pc, lock, queue, active, waiting, notified, expired, result, nextc, tpc
vars == <<pc, lock, queue, active, waiting, notified, expired, result, nextc, tpc>>

Init == /\ pc = [a \in Accepters |-> "a1"]
        /\ lock = Free /\ queue = <<>> /\ active = TRUE
        /\ waiting = {} /\ notified = {} /\ expired = {}
        /\ result = [a \in Accepters |-> Pending]
        /\ nextc = 1 /\ tpc = "idle"

(* ---- accept() ------------------------------------------------------------------- *)
A1(a) == /\ pc[a] = "a1" /\ lock = Free
         /\ lock' = a /\ pc' = [pc EXCEPT ![a] = "a2"]
         /\ UNCHANGED <<queue, active, waiting, notified, expired, result, nextc, tpc>>
A2(a) == /\ pc[a] = "a2"
         /\ IF Len(queue) > 0
            THEN /\ result' = [result EXCEPT ![a] = Head(queue)] /\ queue' = Tail(queue)
                 /\ pc' = [pc EXCEPT ![a] = "rel"] /\ UNCHANGED <<lock, waiting>>
            ELSE IF ~active
            THEN /\ result' = [result EXCEPT ![a] = NoneV] /\ pc' = [pc EXCEPT ![a] = "rel"]
                 /\ UNCHANGED <<queue, lock, waiting>>
            ELSE /\ waiting' = waiting \cup {a} /\ lock' = Free /\ pc' = [pc EXCEPT ![a] = "wait"]
                 /\ UNCHANGED <<queue, result>>
         /\ UNCHANGED <<active, notified, expired, nextc, tpc>>
\* the timed wait of a Timed accepter may run out at any moment
Expire(a) == /\ pc[a] = "wait" /\ a \in Timed /\ a \in waiting
             /\ waiting' = waiting \ {a} /\ expired' = expired \cup {a}
             /\ UNCHANGED <<pc, lock, queue, active, notified, result, nextc, tpc>>
\* wait() returns: notified or timed out, and the lock is free again
A3(a) == /\ pc[a] = "wait" /\ (a \in notified \/ a \in expired) /\ lock = Free
         /\ lock' = a /\ pc' = [pc EXCEPT ![a] = "a4"]
         /\ UNCHANGED <<queue, active, waiting, notified, expired, result, nextc, tpc>>
A4(a) == /\ pc[a] = "a4"
         /\ IF Len(queue) > 0
            THEN /\ result' = [result EXCEPT ![a] = Head(queue)] /\ queue' = Tail(queue)
                 /\ pc' = [pc EXCEPT ![a] = "rel"] /\ UNCHANGED <<lock, waiting, notified>>
            ELSE IF WaitLoop /\ active /\ a \notin expired
            THEN /\ waiting' = waiting \cup {a} /\ notified' = notified \ {a} /\ lock' = Free
                 /\ pc' = [pc EXCEPT ![a] = "wait"] /\ UNCHANGED <<queue, result>>
            ELSE /\ result' = [result EXCEPT ![a] = NoneV] /\ pc' = [pc EXCEPT ![a] = "rel"]
                 /\ UNCHANGED <<queue, lock, waiting, notified>>
         /\ UNCHANGED <<active, expired, nextc, tpc>>
Rel(a) == /\ pc[a] = "rel"
          /\ lock' = Free /\ pc' = [pc EXCEPT ![a] = "done"]
          /\ UNCHANGED <<queue, active, waiting, notified, expired, result, nextc, tpc>>

(* ---- the transport thread -------------------------------------------------------- *)
Q1 == /\ tpc = "idle" /\ active /\ nextc <= NChans /\ lock = Free
      /\ lock' = T /\ tpc' = "q2"
      /\ UNCHANGED <<pc, queue, active, waiting, notified, expired, result, nextc>>
Q2 == /\ tpc = "q2"
      /\ queue' = Append(queue, nextc) /\ nextc' = nextc + 1
      /\ IF waiting = {} THEN UNCHANGED <<waiting, notified>>
         ELSE \E w \in waiting : waiting' = waiting \ {w} /\ notified' = notified \cup {w}      \* notify(): one waiter
      /\ tpc' = "q3"
      /\ UNCHANGED <<pc, lock, active, expired, result>>
Q3 == /\ tpc = "q3" /\ lock' = Free /\ tpc' = "idle"
      /\ UNCHANGED <<pc, queue, active, waiting, notified, expired, result, nextc>>
C0 == /\ Closes /\ tpc = "idle" /\ active
      /\ active' = FALSE /\ tpc' = "c1"
      /\ UNCHANGED <<pc, lock, queue, waiting, notified, expired, result, nextc>>
C1 == /\ tpc = "c1" /\ lock = Free /\ lock' = T /\ tpc' = "c2"
      /\ UNCHANGED <<pc, queue, active, waiting, notified, expired, result, nextc>>
C2 == /\ tpc = "c2" /\ notified' = notified \cup waiting /\ waiting' = {} /\ tpc' = "c3"
      /\ UNCHANGED <<pc, lock, queue, active, expired, result, nextc>>
C3 == /\ tpc = "c3" /\ lock' = Free /\ tpc' = "ended"
      /\ UNCHANGED <<pc, queue, active, waiting, notified, expired, result, nextc>>

Next == (\E a \in Accepters : A1(a) \/ A2(a) \/ Expire(a) \/ A3(a) \/ A4(a) \/ Rel(a)) \/ Q1 \/ Q2 \/ Q3 \/ C0 \/ C1 \/ C2 \/ C3
Spec == Init /\ [][Next]_vars
FairSpec == Spec /\ WF_vars(Next)

(* ---- what a server application relies on -------------------------------------------- *)
Returned == {result[a] : a \in {x \in Accepters : result[x] \notin {Pending, NoneV}}}
InQueue  == {queue[i] : i \in 1..Len(queue)}
\* every queued channel is handed to at most one accept() call and none disappears
ExactlyOnce == /\ \A a, b \in Accepters : (a # b /\ result[a] \notin {Pending, NoneV}) => result[a] # result[b]
               /\ Returned \cap InQueue = {}
               /\ Returned \cup InQueue = 1..(nextc - 1)
\* channels leave the queue in the order the peer opened them
Fifo == \A i, j \in 1..Len(queue) : i < j => queue[i] < queue[j]
\* accept(None) "waits forever": it comes back empty-handed only when the session is over
WaitsForever == \A a \in Accepters \ Timed : result[a] = NoneV => ~active
\* a timed accept() comes back empty-handed only after its timeout ran out or the session ended
TimedNone == \A a \in Timed : result[a] = NoneV => (a \in expired \/ ~active)
\* nobody stays asleep while the session is over (liveness under fairness is checked separately)
NoSleeperAfterEnd == (tpc = "ended") => waiting = {}
=============================================================================
