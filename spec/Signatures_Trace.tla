-------------------------- MODULE Signatures_Trace --------------------------
(* code -> spec for C35.  One record = one call of the real verify_ssh_sig:       *)
(*   stype/sprov/alg      the key object that made the genuine signature (k1)      *)
(*   vtype/vmat/vprov     the key object asked to verify                            *)
(*   tcls/targ            tamper class the concrete bytes were rendered from        *)
(*   data                 "d1" (the signed bytes), "d2" (any other bytes), or the     *)
(*                        coordinated "d1_rest" / "tail_d1" of the shift tampers      *)
(*   obs                  "true" / "false" / the class name of the exception raised *)
(* The step installs the observed answer as the design spec's `result` in a `done`  *)
(* state and evaluates the design spec's own invariants on that state.              *)
EXTENDS Signatures, Sequences, Json, IOUtils, TLCExt
Batch == JsonDeserialize(IOEnv.TRACE_FILE)
VARIABLES tid, l, bad
tvars == <<tid, l, bad, vars>>
R == Batch[tid]
RSigner   == Key(R.stype, "k1", R.sprov)
RVerifier == Key(R.vtype, R.vmat, R.vprov)
RTamper   == [cls |-> R.tcls, arg |-> R.targ]
\* the record must be one of the design spec's cases (else the driver is broken, not the code)
IsCase == /\ RSigner \in Signers /\ RVerifier \in Keys
          /\ R.alg \in SignAlgs(R.stype)
          /\ RTamper \in Tampers(R.stype, R.alg)
          /\ R.data \in DataFor(RTamper)
TInit == tid \in 1..Len(Batch) /\ l = 1 /\ bad = {} /\ Init
TNext == /\ l = 1 /\ l' = 2 /\ tid' = tid
         /\ signer' = RSigner /\ verifier' = RVerifier /\ alg' = R.alg /\ tamper' = RTamper
         /\ wire' = NoWire /\ data' = R.data /\ pc' = "done" /\ result' = R.obs
         /\ bad' = IF ~IsCase THEN {"X_not_a_case"} ELSE
                   (IF Total' THEN {} ELSE {"P_never_raises"})
                   \cup (IF AcceptsGenuine' THEN {} ELSE {"P_genuine_rejected"})
                   \cup (IF RejectsForged' THEN {} ELSE {"P_forgery_accepted"})
                   \cup (IF Total' /\ ~InModel' THEN {"C_outside_model"} ELSE {})
TSpec == TInit /\ [][TNext]_tvars
Report == /\ (bad # {} => PrintT(<<"VERDICT", tid, bad>>))
          /\ (l = 2 => PrintT(<<"DONE", tid>>))
=============================================================================
