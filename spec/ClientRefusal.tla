---------------------------- MODULE ClientRefusal ----------------------------
(* C18.  What a client-mode Transport does with things the SERVER initiates:          *)
(*   Transport._parse_global_request   (client branch: ok = False)                     *)
(*   Transport._parse_channel_open     (handler gating: _x11_handler,                  *)
(*                                      _forward_agent_handler, _tcp_handler)          *)
(*   Channel._handle_request           (transport.server_object is None)               *)
(* and the client operations that switch the three handlers on and off:                *)
(*   Channel.request_x11 / request_forward_agent, Transport.request_port_forward /     *)
(*   cancel_port_forward.                                                              *)
(* Two layers of state: the handler flags the CODE keeps (x11H, agentH, tcpH) and      *)
(* ghost variables recording what the client asked for in the sense of the STATEMENT   *)
(* (x11Req: an X11 request was GRANTED; agentReq: agent forwarding was requested;         *)
(* fwd: the port forwards that were granted and not cancelled).  The property is       *)
(* written over the ghosts, the transitions over the flags.                            *)
EXTENDS Naturals, Sequences, FiniteSets, TLC

CONSTANTS GlobalKinds,     \* names a server may put in GLOBAL_REQUEST
          OpenKinds,       \* channel kinds a server may try to open
          ReqTypes,        \* request names a server may send on a channel the client opened
          Ports,           \* port forwards the client may ask for (tokens; "p0" is rendered as a request for port 0:
                           \* the server allocates the port and the client cancels with the allocated number)
          AcceptSession,   \* mutation: _parse_channel_open lets a "session" open through (FALSE = code as read)
          X11HandlerEarly, \* mutation: request_x11 installs the handler before the request is sent and never rolls it back
                           \* (FALSE = code as read: installed after the server's CHANNEL_SUCCESS)
          ApproveExec      \* mutation: _handle_request approves "exec" without a server object (FALSE = code as read)

X11 == "x11"  AGENT == "auth-agent@openssh.com"  FWD == "forwarded-tcpip"
\* "commands, shells, subsystems or terminals"
Forbidden == {"exec", "shell", "subsystem", "pty-req"}
\* requests a client-side channel acknowledges (they ask nothing of the client)
Harmless  == {"exit-status", "xon-xoff"}

VARIABLES authed,                    \* the client authenticated
          chan,                      \* a session channel opened by the client is live (target of channel requests)
          x11H, agentH, tcpH,        \* Transport._x11_handler / _forward_agent_handler / _tcp_handler is not None
          x11Req, agentReq, fwd,     \* ghosts (statement level)
          hadFwd,                    \* ghost: the forwards granted at some time (separates "never enabled" from "cancelled")
          refusedLast,               \* ghost: the client's most recent forwarding operation (request or cancel) was a request
                                     \* the server refused (a refusal enables nothing, whatever was granted or cancelled before it)
          x11Out,                    \* ghost: how the most recent X11 request ended: "none" | "granted" | "refused" | "closed"
                                     \* (closed = the channel went away while request_x11 was waiting for the reply)
          subsysReg,                 \* client configuration: a subsystem handler is registered (Transport.set_subsystem_handler);
                                     \* it is for server mode and must change nothing about what a client answers
          last                       \* the last step and what the client answered
vars == <<authed, chan, x11H, agentH, tcpH, x11Req, agentReq, fwd, hadFwd, refusedLast, subsysReg, x11Out, last>>

NoReply == "none"
Obs(op, arg, flag, reply, accepted) == [op |-> op, arg |-> arg, flag |-> flag, reply |-> reply, accepted |-> accepted]

Init == /\ authed = FALSE /\ chan = FALSE
        /\ x11H = FALSE /\ agentH = FALSE /\ tcpH = FALSE
        /\ x11Req = FALSE /\ agentReq = FALSE /\ fwd = {} /\ hadFwd = {} /\ refusedLast = FALSE /\ subsysReg = FALSE /\ x11Out = "none"
        /\ last = Obs("init", "", FALSE, NoReply, FALSE)

(* ---------------- client operations (user thread) ---------------- *)
Authenticate == /\ ~authed /\ authed' = TRUE
                /\ last' = Obs("auth", "", FALSE, NoReply, FALSE)
                /\ UNCHANGED <<chan, x11H, agentH, tcpH, x11Req, agentReq, fwd, hadFwd, refusedLast, subsysReg, x11Out>>

OpenSession == /\ authed /\ chan' = TRUE
               /\ last' = Obs("open_session", "", FALSE, NoReply, FALSE)
               /\ UNCHANGED <<authed, x11H, agentH, tcpH, x11Req, agentReq, fwd, hadFwd, refusedLast, subsysReg, x11Out>>

\* Channel.request_x11: x11-req with want_reply; the handler is installed only after the server's
\* CHANNEL_SUCCESS; a CHANNEL_FAILURE closes the channel (Channel._request_failed) and raises
\* out: "granted" | "refused" (CHANNEL_FAILURE) | "closed" (the channel is closed while the client waits)
RequestX11Out(out) ==
  /\ chan
  /\ x11Req' = (x11Req \/ out = "granted")        \* X11 forwarding is enabled by a GRANTED request only
  /\ x11H' = (x11H \/ out = "granted" \/ X11HandlerEarly)
  /\ chan' = (out = "granted")
  /\ x11Out' = out
  /\ last' = Obs(IF out = "closed" THEN "x11closed" ELSE "x11", "", out = "granted", NoReply, FALSE)
  /\ UNCHANGED <<authed, agentH, tcpH, agentReq, fwd, hadFwd, refusedLast, subsysReg>>
RequestX11(granted) == RequestX11Out(IF granted THEN "granted" ELSE "refused")

\* Channel.request_forward_agent: no reply is asked for; the handler is installed at once
RequestAgent ==
  /\ chan
  /\ agentReq' = TRUE /\ agentH' = TRUE
  /\ last' = Obs("agent", "", FALSE, NoReply, FALSE)
  /\ UNCHANGED <<authed, chan, x11H, tcpH, x11Req, fwd, hadFwd, refusedLast, subsysReg, x11Out>>

\* Transport.request_port_forward: tcpip-forward global request answered by the server with REQUEST_SUCCESS
\* (granted) or REQUEST_FAILURE; the handler is installed only when granted, a refused request raises and
\* enables nothing - also when earlier requests on this transport succeeded
\* (an unauthenticated client is always refused by the server)
RequestPortForward(p, granted) ==
  /\ (granted => authed)
  /\ tcpH' = (tcpH \/ granted)
  /\ fwd' = IF granted THEN fwd \cup {p} ELSE fwd
  /\ hadFwd' = IF granted THEN hadFwd \cup {p} ELSE hadFwd
  /\ refusedLast' = ~granted
  /\ last' = Obs("fwd", p, granted, NoReply, FALSE)
  /\ UNCHANGED <<authed, chan, x11H, agentH, x11Req, agentReq, subsysReg, x11Out>>

\* Transport.cancel_port_forward: the (single) handler is dropped before the request is sent - also when another
\* forward is still active (the statement allows refusing then; a tree that keeps the handler while fwd' # {} shows up
\* as a conformance difference only)
CancelPortForward(p) ==
  /\ tcpH' = FALSE
  /\ fwd' = fwd \ {p}
  /\ hadFwd' = hadFwd /\ refusedLast' = FALSE
  /\ last' = Obs("cancel", p, FALSE, NoReply, FALSE)
  /\ UNCHANGED <<authed, chan, x11H, agentH, x11Req, agentReq, subsysReg, x11Out>>

\* Transport.set_subsystem_handler(name, handler): fills subsystem_table
RegisterSubsystem ==
  /\ subsysReg' = TRUE
  /\ last' = Obs("subsys", "", FALSE, NoReply, FALSE)
  /\ UNCHANGED <<authed, chan, x11H, agentH, tcpH, x11Req, agentReq, fwd, hadFwd, refusedLast, x11Out>>

(* ---------------- server-initiated events (transport thread of the client) ---------------- *)
\* _parse_global_request, `if not self.server_mode: ok = False`
GlobalRequest(kind, wantReply) ==
  /\ last' = Obs("global", kind, wantReply, IF wantReply THEN "REQUEST_FAILURE" ELSE NoReply, FALSE)
  /\ UNCHANGED <<authed, chan, x11H, agentH, tcpH, x11Req, agentReq, fwd, hadFwd, refusedLast, subsysReg, x11Out>>

HandlerFor(kind) == \/ (kind = AGENT /\ agentH)
                    \/ (kind = X11 /\ x11H)
                    \/ (kind = FWD /\ tcpH)
                    \/ (AcceptSession /\ kind = "session")
\* _parse_channel_open
ChannelOpen(kind) ==
  /\ last' = Obs("open", kind, FALSE, IF HandlerFor(kind) THEN "OPEN_SUCCESS" ELSE "OPEN_FAILURE", HandlerFor(kind))
  /\ UNCHANGED <<authed, chan, x11H, agentH, tcpH, x11Req, agentReq, fwd, hadFwd, refusedLast, subsysReg, x11Out>>

Approved(type) == type \in Harmless \/ (ApproveExec /\ type = "exec")
\* Channel._handle_request on a channel the client opened (server_object is None)
ChannelRequest(type, wantReply) ==
  /\ chan
  /\ last' = Obs("chanreq", type, wantReply,
                 IF ~wantReply THEN NoReply ELSE IF Approved(type) THEN "CHANNEL_SUCCESS" ELSE "CHANNEL_FAILURE", FALSE)
  /\ UNCHANGED <<authed, chan, x11H, agentH, tcpH, x11Req, agentReq, fwd, hadFwd, refusedLast, subsysReg, x11Out>>

ClientOp == \/ Authenticate \/ OpenSession \/ RequestAgent \/ RegisterSubsystem
            \/ \E o \in {"granted", "refused", "closed"} : RequestX11Out(o)
            \/ \E p \in Ports, g \in BOOLEAN : RequestPortForward(p, g)
            \/ \E p \in Ports : CancelPortForward(p)
ServerEvent == \/ \E k \in GlobalKinds, w \in BOOLEAN : GlobalRequest(k, w)
               \/ \E k \in OpenKinds : ChannelOpen(k)
               \/ \E t \in ReqTypes, w \in BOOLEAN : ChannelRequest(t, w)
Next == ClientOp \/ ServerEvent
Spec == Init /\ [][Next]_vars

\* one step given as data (used by the generator and the trace spec)
Step(op, arg, flag) ==
  CASE op = "auth" -> Authenticate
    [] op = "open_session" -> OpenSession
    [] op = "x11" -> RequestX11(flag)
    [] op = "x11closed" -> RequestX11Out("closed")
    [] op = "agent" -> RequestAgent
    [] op = "fwd" -> RequestPortForward(arg, flag)
    [] op = "cancel" -> CancelPortForward(arg)
    [] op = "subsys" -> RegisterSubsystem
    [] op = "global" -> GlobalRequest(arg, flag)
    [] op = "open" -> ChannelOpen(arg)
    [] op = "chanreq" -> ChannelRequest(arg, flag)
    [] OTHER -> FALSE

(* ---------------- C18 ---------------- *)
\* what the client enabled itself, in the words of the statement
EnabledByClient(kind) == \/ (kind = X11 /\ x11Req)
                         \/ (kind = AGENT /\ agentReq)
                         \/ (kind = FWD /\ fwd # {})
\* verdict on one observed answer (shared with the trace spec, which feeds it what the real client did)
GlobalBad(o)  == (IF o.reply = "REQUEST_SUCCESS" THEN {"P_global_request_approved"} ELSE {})
                 \cup (IF o.flag /\ o.reply = NoReply THEN {"P_global_request_unanswered"} ELSE {})
OpenBad(o)    == (IF (o.reply = "OPEN_SUCCESS" \/ o.accepted) /\ ~EnabledByClient(o.arg) THEN {"P_channel_open_accepted"} ELSE {})
                 \cup (IF o.reply = NoReply THEN {"P_channel_open_unanswered"} ELSE {})
ChanReqBad(o) == (IF o.arg \in Forbidden /\ o.reply = "CHANNEL_SUCCESS" THEN {"P_channel_request_approved"} ELSE {})
                 \cup (IF o.arg \in Forbidden /\ o.flag /\ o.reply = NoReply THEN {"P_channel_request_unanswered"} ELSE {})
Bad(o) == CASE o.op = "global" -> GlobalBad(o) [] o.op = "open" -> OpenBad(o) [] o.op = "chanreq" -> ChanReqBad(o) [] OTHER -> {}

ClientRefuses == Bad(last) = {}
\* the code's flags never claim more than the client asked for (what makes ClientRefuses inductive)
HandlersJustified == (x11H => x11Req) /\ (agentH => agentReq) /\ (tcpH => fwd # {})
C18 == ClientRefuses /\ HandlersJustified
=============================================================================
