---------------------- MODULE SftpClientProto_Transfer ----------------------
(* C29.  SFTPClient._transfer_with_callback (sftp_client.py), the copy loop behind  *)
(* put / putfo / get / getfo:                                                       *)
(*     while True: data = reader.read(32768); writer.write(data); size += len(data) *)
(*                 if len(data) == 0: break;  callback(size, file_size)             *)
(* The reader is the caller's file-like object (putfo) or an SFTPFile (get).  A     *)
(* file-like read(n) may return fewer than n bytes before the end of the data (raw  *)
(* pipes, sockets, HTTP bodies, decompressors); BufferedFile.read and buffered      *)
(* local files fill the request unless the data ends.  What reaches the writer is   *)
(* a list of source ranges (adjacent ranges merged), as in CheckFile.tla.           *)
EXTENDS Integers, Sequences, TLC

CONSTANTS Size,            \* bytes the source holds, in units
          Chunk,           \* the 32768 of the loop, in units
          ShortSource,     \* may reader.read(n) return fewer than n bytes before the end of the data?
          StopOnShortRead  \* mutation: the loop ends at the first read shorter than Chunk instead of at an empty read

VARIABLES rpos,     \* bytes consumed from the source
          written,  \* source ranges handed to writer.write, merged
          size,     \* the loop's running total (its return value, what putfo's confirm compares with the remote size)
          calls,    \* callback invocations
          pc        \* "loop" | "done"
vars == <<rpos, written, size, calls, pc>>

Min(a, b) == IF a < b THEN a ELSE b
Feed(rs, a, b) == IF a = b THEN rs
                  ELSE IF rs # <<>> /\ rs[Len(rs)][2] = a THEN [rs EXCEPT ![Len(rs)] = <<rs[Len(rs)][1], b>>]
                  ELSE Append(rs, <<a, b>>)

Init == rpos = 0 /\ written = <<>> /\ size = 0 /\ calls = 0 /\ pc = "loop"

\* what reader.read(Chunk) can return at rpos
Avail == Min(Chunk, Size - rpos)
ReadLens == IF ShortSource /\ Avail > 0 THEN 1..Avail ELSE {Avail}

Step ==
  /\ pc = "loop"
  /\ \E k \in ReadLens :
       /\ written' = Feed(written, rpos, rpos + k)
       /\ rpos' = rpos + k /\ size' = size + k
       /\ calls' = IF k > 0 THEN calls + 1 ELSE calls
       /\ pc' = IF k = 0 \/ (StopOnShortRead /\ k < Chunk) THEN "done" ELSE "loop"
Next == Step
Spec == Init /\ [][Next]_vars /\ WF_vars(Step)

\* C29: a transfer that returns has handed exactly the source's bytes to the writer
Whole == IF Size = 0 THEN <<>> ELSE <<<<0, Size>>>>
TransferExact == pc = "done" => written = Whole
\* ... and says so (the count confirm=True and get() compare with)
CountRight    == pc = "done" => size = Size
Terminates    == <>(pc = "done")
=============================================================================
