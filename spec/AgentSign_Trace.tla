--------------------------- MODULE AgentSign_Trace ---------------------------
(* code -> spec for C45.  One trace = one call of the real AgentKey.sign_ssh_data *)
(* over a fake agent connection:                                                   *)
(*   alg, key, rtype = the case (algorithm name or "<none>", key kind, type of the *)
(*                     packet the fake agent answers with)                          *)
(*   sent    = the frames found on the connection, each parsed by field:            *)
(*             [type, blob, data, flags, framed]; blob / data are identities         *)
(*             ("listed" | "plain" | "data" | "other") found by byte equality         *)
(*   outcome = [kind |-> "returned" | "raised", sig |-> "sig" | "other" | "none"]    *)
(* The recorded frames and outcome are replayed on the design spec's variables and   *)
(* judged by the design spec's clause operators; total (never blocks).               *)
EXTENDS AgentSign, Json, IOUtils, TLCExt
Batch == JsonDeserialize(IOEnv.TRACE_FILE)
VARIABLES tid, l, bad
tvars == <<tid, l, bad, vars>>
T == Batch[tid]
NSent == Len(T.sent)

TInit == /\ tid \in 1..Len(Batch) /\ l = 1 /\ bad = {}
         /\ alg = T.alg /\ key = T.key /\ rtype = T.rtype
         /\ pc = "build" /\ req = NoReq /\ wire = <<>> /\ outcome = Pending

Frame(f) == [type |-> f.type, blob |-> f.blob, data |-> f.data, flags |-> f.flags]

\* a frame reached the agent: the spec's BuildRequest;Send with the recorded content
TSend == /\ l <= NSent
         /\ LET f == T.sent[l] IN
              /\ req' = Frame(f) /\ wire' = Append(wire, Frame(f))
              /\ bad' = bad \cup RequestClauses(alg, key, Frame(f))
                            \cup (IF f.framed THEN {} ELSE {"C_framing"})
                            \cup (IF l > 1 THEN {"C_second_request"} ELSE {})
         /\ pc' = "await" /\ l' = l + 1
         /\ UNCHANGED <<tid, alg, key, rtype, outcome>>

\* sign_ssh_data ended: the spec's AgentReply;Deliver with the recorded outcome
TDeliver == /\ l = NSent + 1
            /\ outcome' = T.outcome
            /\ bad' = bad \cup OutcomeClauses(rtype, T.outcome)
                          \cup (IF NSent = 0 THEN {"P_no_request"} ELSE {})
            /\ pc' = "done" /\ l' = l + 1
            /\ UNCHANGED <<tid, alg, key, rtype, req, wire>>

TNext == TSend \/ TDeliver
TSpec == TInit /\ [][TNext]_tvars
Report == l = NSent + 2 => /\ (bad # {} => PrintT(<<"VERDICT", tid, bad>>))
                           /\ PrintT(<<"DONE", tid>>)
=============================================================================
