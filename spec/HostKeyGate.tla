----------------------------- MODULE HostKeyGate -----------------------------
(* C17.  When does a paramiko client put a credential (password, public-key signature,   *)
(* keyboard-interactive responses) on the wire, and who gets it.                          *)
(*                                                                                        *)
(* Two layers.                                                                            *)
(*  1. The transport lifecycle of one client connection (paramiko/transport.py):          *)
(*     start_client, the packets of the initial key exchange as Transport.run() accepts   *)
(*     them (_expected_packet), _verify_key, _activate_outbound, _parse_newkeys setting   *)
(*     initial_kex_done, the auth_* entry points with their guard                         *)
(*     `(not self.active) or (not self.initial_kex_done)`, and the point where an armed   *)
(*     request is actually transmitted (AuthHandler._parse_service_accept /               *)
(*     _parse_userauth_info_request).  The peer is arbitrary: it may stall, present any   *)
(*     key it holds, fail the signature, and send SERVICE_ACCEPT / INFO_REQUEST whenever  *)
(*     it likes.                                                                          *)
(*  2. The callers that decide whether the server is the right one before they            *)
(*     authenticate: Transport.connect(hostkey=K) and SSHClient.connect (known_hosts      *)
(*     lookup by "host" / "[host]:port", hashed entries, system keys before user keys,    *)
(*     key-type preference from the first known entry, missing-host-key policy).          *)
(* A configuration `cfg` is chosen in Init; the decision operators below are shared with  *)
(* HostKeyGate_Trace, which applies them to what real connections did.                    *)
EXTENDS Naturals, Sequences, FiniteSets, TLC

CONSTANTS KeyTypes,         \* host key types, e.g. {"ed", "rsa"}
          DefaultOrder,     \* the client's default preference among them (sequence, first = most preferred)
          KeyIds,           \* distinct keys per type, e.g. {1, 2}
          Names,            \* host forms in known_hosts: "h" (host, default port), "[h]:p" (host, non-default port), "other"
          Policies,         \* subset of {"Reject", "AutoAdd", "Warning", "CustomAccept", "CustomReject"}
          MaxEntries,       \* bound on the number of known_hosts entries (system + user)
          Apis,             \* subset of {"raw", "connect", "sshclient"}
          ServerSets,       \* key sets (at most one key per type) a server may hold
          Methods,          \* subset of {"password", "publickey", "interactive"}
          GuardKex,         \* TRUE: auth_* refuses unless initial_kex_done (code as read)
          EnforceExpected,  \* TRUE: run() ends the connection on a packet other than the expected kex packet (code as read)
          CompareFullKey,   \* TRUE: Transport.connect compares type and key bytes (code as read); FALSE: type only
          ConGss, SshGss,   \* GSS-API flags the caller passes to Transport.connect / SSHClient.connect: subsets of
                            \* {"none", "kex", "auth", "both"} (gss_kex / gss_auth requested).  The peer never does GSS.
          LookupCached,     \* seeded error (FALSE = code as read): SSHClient remembers the answer of a known_hosts lookup per name
                            \* (also "unknown") and forgets it only when a table is (re)loaded from a file
          HashCachedPerSalt, \* seeded error (FALSE = code as read): see CodeMatch
          SeqTargets,       \* two-connection sequences through one SSHClient: the second name ("other" / "otherhost"; {} = none)
          SeqKeyTypes,      \* ... and the key types used in them
          GssFallback,      \* FALSE: Transport.connect with gss_kex requested attempts gssapi-keyex only (code as read);
                            \* TRUE: it falls back to password / public key when no GSS key exchange took place
          AskPolicy         \* TRUE: SSHClient consults the missing-host-key policy for unknown hosts (code as read)

\* values for the configuration files (records and sequences cannot be written there)
K(t, i) == [t |-> t, id |-> i]
Order2 == <<"ed", "rsa">>
Order3 == <<"ed", "ecdsa", "rsa">>
Srv2 == {{K("ed", 1), K("rsa", 1)}, {K("rsa", 1)}}
Srv3 == Srv2 \cup {{K("ed", 1)}}
AnySrv == {}     \* trace validation: the server set comes from the record

Key    == [t : KeyTypes, id : KeyIds]
NoKey  == [t |-> "none", id |-> 0]
Entry  == [name : Names, hashed : BOOLEAN, key : Key]
Range(s) == {s[i] : i \in DOMAIN s}

(* ------------------------------------------------------------------ decisions *)
\* client.py: server_hostkey_name.  c.port: "default" = the host on port 22, "other" = the same host on another port,
\* "otherhost" = a different host on port 22
LookupName(port) == CASE port = "default" -> "h" [] port = "other" -> "[h]:p" [] OTHER -> "other"
\* the STATEMENT's notion: an entry is for a name if it carries that name, in plain or hashed form
Matching(es, name) == SelectSeq(es, LAMBDA e : e.name = name)
\* HostKeys.lookup as the code does it.  `first` = the first name that was looked up through this table object before
\* ("" = none).  Code as read: hashing is transparent and earlier lookups leave no trace.  HashCachedPerSalt (seeded
\* error): the HMAC of a hashed line is remembered per salt, so a hashed line keeps answering for the first name.
CodeMatch(es, name, first) ==
  SelectSeq(es, LAMBDA e : IF HashCachedPerSalt /\ e.hashed /\ first # "" THEN e.name = first ELSE e.name = name)
Without(seq, t) == SelectSeq(seq, LAMBDA x : x # t)
\* An environment e = what an SSHClient object carries from its earlier connection into this one:
\*   usr  the user table now (AutoAddPolicy appends to it), fs / fu  first name looked up in the system / user table
\*   stale  (LookupCached only) the lookup is answered "unknown" from the remembered answer of the earlier connection
Env0(c) == [usr |-> c.usr, fs |-> "", fu |-> "", stale |-> FALSE]
\* `our_server_keys`: the system host keys win over the user's
OursE(c, e) == LET s == CodeMatch(c.sys, LookupName(c.port), e.fs)
               IN IF e.stale THEN <<>> ELSE IF s # <<>> THEN s ELSE CodeMatch(e.usr, LookupName(c.port), e.fu)
\* host key algorithm preference the client announces
PrefE(c, e) == IF c.api = "connect" /\ c.expect # NoKey THEN <<c.expect.t>>
               ELSE IF c.api = "sshclient" /\ OursE(c, e) # <<>>
                      THEN <<OursE(c, e)[1].key.t>> \o Without(DefaultOrder, OursE(c, e)[1].key.t)
               ELSE DefaultOrder
\* negotiation: the client's first type the server holds
UsableE(c, e) == SelectSeq(PrefE(c, e), LAMBDA t : \E k \in c.server : k.t = t)
ShownE(c, e) == IF UsableE(c, e) = <<>> THEN NoKey ELSE CHOOSE k \in c.server : k.t = UsableE(c, e)[1]
\* SubDict.get(type): the first matching entry of that type
FirstOfType(es, t) == LET m == SelectSeq(es, LAMBDA e : e.key.t = t) IN IF m = <<>> THEN NoKey ELSE m[1].key
PolicyAccepts(p) == p \in {"AutoAdd", "Warning", "CustomAccept"}
GssKex(c)  == c.gss \in {"kex", "both"}
GssAuth(c) == c.gss \in {"auth", "both"}
\* what the caller does once the key exchange is done (an ordinary one: gss_kex_used = False) and the server
\* presented `k`:  "accept" = go on to password / public-key authentication;  "gss" = only a GSS-API method is
\* attempted (it cannot succeed against this peer and carries no password / signature / responses);
\* "gssfirst" = SSHClient tries gssapi-with-mic, then the ordinary credentials
DecisionE(c, k, e) ==
  CASE c.api = "connect" ->
         \* `if (hostkey is not None) and not gss_kex`: the comparison is skipped when GSS kex was REQUESTED
         IF c.expect # NoKey /\ ~GssKex(c) /\ ~(k.t = c.expect.t /\ (CompareFullKey => k = c.expect)) THEN "badhostkey"
         ELSE IF GssAuth(c) THEN "gss"
         ELSE IF GssKex(c) THEN (IF GssFallback THEN "accept" ELSE "gss")
         ELSE "accept"
    [] c.api = "sshclient" ->
         \* `if not self._transport.gss_kex_used`: always checked against this peer
         IF OursE(c, e) = <<>> THEN (IF AskPolicy THEN "policy" ELSE "accept")
         ELSE IF FirstOfType(OursE(c, e), k.t) # k THEN "badhostkey"
         ELSE IF GssAuth(c) THEN "gssfirst" ELSE "accept"
    [] OTHER -> "accept"
\* c.prev (at most one element [port, server]): an earlier connection made through the SAME SSHClient object (tables
\* loaded once, same policy) to another name.  What it leaves behind: the names looked up, and - when the policy was
\* consulted and is AutoAddPolicy - a new plain entry in the user table.
P0(c) == [c EXCEPT !.prev = <<>>, !.port = c.prev[1].port, !.server = c.prev[1].server]
Env(c) ==
  IF c.prev = <<>> THEN Env0(c)
  ELSE LET p  == P0(c)
           k0 == ShownE(p, Env0(p))
           d0 == IF k0 = NoKey THEN "nokex" ELSE DecisionE(p, k0, Env0(p))
           n0 == LookupName(p.port)
       IN [usr |-> IF d0 = "policy" /\ c.policy = "AutoAdd" THEN Append(c.usr, [name |-> n0, hashed |-> FALSE, key |-> k0]) ELSE c.usr,
           fs  |-> n0,
           fu  |-> IF CodeMatch(c.sys, n0, "") = <<>> THEN n0 ELSE "",      \* the user table is consulted only then
           \* c.loaded: the tables came from files (load_system_host_keys / load_host_keys: AutoAddPolicy then saves and
           \* re-loads the user file); otherwise they were filled through get_host_keys().add() and no file is configured
           stale |-> /\ LookupCached /\ n0 = LookupName(c.port) /\ OursE(p, Env0(p)) = <<>>
                     /\ ~(c.loaded /\ d0 = "policy" /\ c.policy = "AutoAdd")]
Ours(c) == OursE(c, Env(c))
Pref(c) == PrefE(c, Env(c))
Usable(c) == UsableE(c, Env(c))
Shown(c) == ShownE(c, Env(c))
Decision(c, k) == DecisionE(c, k, Env(c))
\* every key either table holds NOW for this server (statement level: "a host key known to SSHClient"); earlier
\* lookups are no part of it - the decision for this connection must not depend on them
KnownKeys(c) == {e.key : e \in Range(Matching(c.sys, LookupName(c.port))) \cup Range(Matching(Env(c).usr, LookupName(c.port)))}
\* the STATEMENT: who must not get anything
MustRefuse(c, k) ==
  CASE c.api = "connect"   -> c.expect # NoKey /\ k # c.expect
    [] c.api = "sshclient" -> IF KnownKeys(c) # {} THEN k \notin KnownKeys(c) ELSE ~PolicyAccepts(c.policy)
    [] OTHER -> FALSE
Unknown(c) == c.api = "sshclient" /\ KnownKeys(c) = {}

(* ------------------------------------------------------------------ state *)
VARIABLES cfg,
          phase,          \* "new" | "banner" | "kexinit" | "kexreply" | "newkeys" | "open" | "closed"
          active,         \* Transport.active
          kexDone,        \* Transport.initial_kex_done
          sigVerified,    \* _verify_key succeeded
          outEnc,         \* outbound cipher switched on (_activate_outbound)
          shown,          \* the host key the server presented (NoKey before)
          armed,          \* pending authentication request [m, early, stage] or NoArm
          pc,             \* caller: "user" (raw API) | "idle" | "wait" | "check" | "policy" | "auth" | "authwait" | "done" | "raised"
          policyAsked, policyAccepted,
          sent            \* what went out: set of [what, m, enc, verified, done, early, shown, policyOk]
vars == <<cfg, phase, active, kexDone, sigVerified, outEnc, shown, armed, pc, policyAsked, policyAccepted, sent>>

NoArm == [m |-> "none", early |-> FALSE, stage |-> 0]
SeqsUpTo(S, n) == UNION {[1..k -> S] : k \in 0..n}

TrivialCfg(api, srv) == [api |-> api, expect |-> NoKey, sys |-> <<>>, usr |-> <<>>, policy |-> "Reject", port |-> "default", server |-> srv,
                         gss |-> "none", prev |-> <<>>, loaded |-> TRUE]
\* Two connections through one SSHClient object to the SAME name: unknown (or known with the right key) the first time,
\* the server presenting K1; the second time the server presents K1 again or another key K2 of the same type.
\* AutoAdd / Reject; tables loaded from files or filled programmatically (no file configured).
SameHostConfigs ==
  {[TrivialCfg("sshclient", {K(kt, id2)}) EXCEPT !.usr = IF known THEN <<[name |-> LookupName(pt), hashed |-> FALSE, key |-> K(kt, 1)]>> ELSE <<>>,
                                                 !.policy = pol, !.port = pt, !.loaded = ld,
                                                 !.prev = <<[port |-> pt, server |-> {K(kt, 1)}]>>]
   : kt \in SeqKeyTypes, pt \in {"default", "other"}, id2 \in {1, 2}, known \in BOOLEAN, pol \in {"Reject", "AutoAdd"}, ld \in BOOLEAN}

\* Two connections through one SSHClient object.  Host A = the host on port 22, its right key kA in the table (plain or
\* hashed line); host B = another name that is unknown, or known (plain / hashed line) with ANOTHER key of the same
\* type; both servers present kA (the impostor case for B).  Both orders, Reject and AutoAdd, system or user table.
SeqConfigs ==
  {LET kA == K(kt, 1)
       eA == [name |-> "h", hashed |-> ha, key |-> kA]
       tb == IF bk = "unknown" THEN <<eA>> ELSE <<eA, [name |-> LookupName(b), hashed |-> (bk = "hashed"), key |-> K(kt, 2)]>>
       first  == IF order = "AB" THEN "default" ELSE b
       second == IF order = "AB" THEN b ELSE "default"
   IN [TrivialCfg("sshclient", {kA}) EXCEPT !.sys = IF tab = "sys" THEN tb ELSE <<>>, !.usr = IF tab = "usr" THEN tb ELSE <<>>,
                                            !.policy = pol, !.port = second, !.prev = <<[port |-> first, server |-> {kA}]>>]
   : kt \in SeqKeyTypes, b \in SeqTargets, ha \in BOOLEAN, bk \in {"unknown", "plain", "hashed"},
     order \in {"AB", "BA"}, pol \in {"Reject", "AutoAdd"}, tab \in {"sys", "usr"}}

Configs ==
  (IF "raw" \in Apis THEN {TrivialCfg("raw", s) : s \in ServerSets} ELSE {})
  \cup (IF "connect" \in Apis
          THEN {[TrivialCfg("connect", s) EXCEPT !.expect = e, !.gss = g] : s \in ServerSets, e \in Key \cup {NoKey}, g \in ConGss} ELSE {})
  \cup (IF "sshclient" \in Apis
          THEN UNION {UNION {
                 LET base == [TrivialCfg("sshclient", s) EXCEPT !.sys = SubSeq(all, 1, split), !.usr = SubSeq(all, split + 1, Len(all)),
                                                                 !.port = port, !.gss = g]
                 IN \* the policy matters only when the lookup finds nothing
                    IF Ours(base) = <<>> THEN {[base EXCEPT !.policy = p] : p \in Policies} ELSE {base}
                 : s \in ServerSets, port \in {"default", "other"}, split \in 0..Len(all), g \in SshGss}
               : all \in SeqsUpTo(Entry, MaxEntries)}
               \cup SeqConfigs \cup (IF SeqTargets = {} THEN {} ELSE SameHostConfigs)
          ELSE {})

Init == /\ cfg \in Configs
        /\ phase = "new" /\ active = FALSE /\ kexDone = FALSE /\ sigVerified = FALSE /\ outEnc = FALSE
        /\ shown = NoKey /\ armed = NoArm
        /\ pc = (IF cfg.api = "raw" THEN "user" ELSE "idle")
        /\ policyAsked = FALSE /\ policyAccepted = FALSE /\ sent = {}

Out(what, m) == [what |-> what, m |-> m, enc |-> outEnc, verified |-> sigVerified, done |-> kexDone,
                 early |-> armed.early, shown |-> shown, policyOk |-> policyAccepted]

(* ------------------------------------------------------------------ transport thread: Transport.run() *)
Die == /\ active' = FALSE /\ phase' = "closed"
\* start_client: thread started, own banner written
StartClient == /\ phase = "new" /\ phase' = "banner" /\ active' = TRUE
               /\ UNCHANGED <<cfg, kexDone, sigVerified, outEnc, shown, armed, policyAsked, policyAccepted, sent>>
\* _check_banner + _send_kex_init; _expect_packet(KEXINIT)
RecvBanner == /\ active /\ phase = "banner" /\ phase' = "kexinit"
              /\ UNCHANGED <<cfg, active, kexDone, sigVerified, outEnc, shown, armed, pc, policyAsked, policyAccepted, sent>>
\* _negotiate_keys -> _parse_kex_init: no common host key type ends the connection; else kex_engine.start_kex()
RecvKexInit == /\ active /\ phase = "kexinit"
               /\ IF Usable(cfg) = <<>> THEN Die ELSE (phase' = "kexreply" /\ active' = active)
               /\ UNCHANGED <<cfg, kexDone, sigVerified, outEnc, shown, armed, pc, policyAsked, policyAccepted, sent>>
\* kex reply: _verify_key(host_key, sig) then _activate_outbound (NEWKEYS sent, outbound cipher on)
RecvKexReply(sigok) ==
  /\ active /\ phase = "kexreply"
  /\ IF sigok THEN /\ shown' = Shown(cfg) /\ sigVerified' = TRUE /\ outEnc' = TRUE
                   /\ phase' = "newkeys" /\ active' = active
              ELSE /\ Die /\ UNCHANGED <<shown, sigVerified, outEnc>>
  /\ UNCHANGED <<cfg, kexDone, armed, pc, policyAsked, policyAccepted, sent>>
\* _parse_newkeys: initial_kex_done = True
RecvNewKeys == /\ active /\ phase = "newkeys" /\ phase' = "open" /\ kexDone' = TRUE
               /\ UNCHANGED <<cfg, active, sigVerified, outEnc, shown, armed, pc, policyAsked, policyAccepted, sent>>
\* is a packet that is not the expected kex packet looked at?
Dispatched == phase = "open" \/ (~EnforceExpected /\ phase \in {"kexinit", "kexreply", "newkeys"})
MidKex == phase \in {"kexinit", "kexreply", "newkeys"}
\* AuthHandler._parse_service_accept: the armed request is transmitted (password / signature inside;
\* keyboard-interactive: the request itself carries no secret, the responses follow an INFO_REQUEST)
RecvServiceAccept ==
  /\ active
  /\ \/ /\ MidKex /\ EnforceExpected /\ Die
        /\ UNCHANGED <<cfg, kexDone, sigVerified, outEnc, shown, armed, pc, policyAsked, policyAccepted, sent>>
     \/ /\ Dispatched /\ armed # NoArm /\ armed.stage = 1
        /\ IF armed.m = "interactive"
             THEN armed' = [armed EXCEPT !.stage = 2] /\ sent' = sent \cup {Out("request", armed.m)}
             ELSE armed' = NoArm /\ sent' = sent \cup {Out("secret", armed.m)}
        /\ UNCHANGED <<cfg, phase, active, kexDone, sigVerified, outEnc, shown, pc, policyAsked, policyAccepted>>
\* AuthHandler._parse_userauth_info_request: the handler's answers are transmitted
RecvInfoRequest ==
  /\ active
  /\ \/ /\ MidKex /\ EnforceExpected /\ Die
        /\ UNCHANGED <<cfg, kexDone, sigVerified, outEnc, shown, armed, pc, policyAsked, policyAccepted, sent>>
     \/ /\ Dispatched /\ armed # NoArm /\ armed.stage = 2
        /\ armed' = NoArm /\ sent' = sent \cup {Out("secret", armed.m)}
        /\ UNCHANGED <<cfg, phase, active, kexDone, sigVerified, outEnc, shown, pc, policyAsked, policyAccepted>>
\* DISCONNECT / EOF from the peer, or close() by the user
Lost == /\ phase # "closed" /\ Die
        /\ UNCHANGED <<cfg, kexDone, sigVerified, outEnc, shown, armed, pc, policyAsked, policyAccepted, sent>>

(* ------------------------------------------------------------------ user thread *)
\* Transport.auth_password / auth_publickey / auth_interactive(_dumb): the guard, then SERVICE_REQUEST
GuardPasses == active /\ (kexDone \/ ~GuardKex)
AuthCallOk(m) == /\ armed' = [m |-> m, early |-> ~kexDone, stage |-> 1]
                 /\ sent' = sent \cup {[Out("service", m) EXCEPT !.early = ~kexDone]}
\* raw API: the application calls auth_* whenever it likes
UserAuth(m) == /\ pc = "user" /\ armed = NoArm
               /\ GuardPasses /\ AuthCallOk(m)
               /\ UNCHANGED <<cfg, phase, active, kexDone, sigVerified, outEnc, shown, pc, policyAsked, policyAccepted>>
UserStart == pc = "user" /\ StartClient /\ UNCHANGED pc

\* Transport.connect(hostkey=..) / SSHClient.connect(): start_client() blocks until the kex is done or failed
CallerStart == /\ pc = "idle" /\ StartClient /\ pc' = "wait"
CallerWait  == /\ pc = "wait" /\ (kexDone \/ phase = "closed")
               /\ pc' = (IF kexDone /\ active THEN "check" ELSE "raised")
               /\ UNCHANGED <<cfg, phase, active, kexDone, sigVerified, outEnc, shown, armed, policyAsked, policyAccepted, sent>>
\* get_remote_server_key() compared with the expectation / the known keys
CallerCheck == /\ pc = "check"
               /\ pc' = (CASE Decision(cfg, shown) \in {"accept", "gssfirst"} -> "auth"
                           [] Decision(cfg, shown) = "policy" -> "policy"
                           [] OTHER -> "raised")       \* "badhostkey"; "gss": the GSS-only attempt fails, nothing of value sent
               /\ UNCHANGED <<cfg, phase, active, kexDone, sigVerified, outEnc, shown, armed, policyAsked, policyAccepted, sent>>
\* self._policy.missing_host_key(...): returns (accept) or raises
CallerPolicy == /\ pc = "policy" /\ policyAsked' = TRUE
                /\ policyAccepted' = PolicyAccepts(cfg.policy)
                /\ pc' = (IF PolicyAccepts(cfg.policy) THEN "auth" ELSE "raised")
                /\ UNCHANGED <<cfg, phase, active, kexDone, sigVerified, outEnc, shown, armed, sent>>
CallerAuth(m) == /\ pc = "auth"
                 /\ IF GuardPasses THEN AuthCallOk(m) /\ pc' = "authwait"
                                   ELSE pc' = "raised" /\ UNCHANGED <<armed, sent>>
                 /\ UNCHANGED <<cfg, phase, active, kexDone, sigVerified, outEnc, shown, policyAsked, policyAccepted>>

Next == \/ UserStart \/ CallerStart \/ CallerWait \/ CallerCheck \/ CallerPolicy
        \/ \E m \in Methods : UserAuth(m) \/ CallerAuth(m)
        \/ RecvBanner \/ RecvKexInit \/ RecvNewKeys \/ Lost \/ (\E ok \in BOOLEAN : RecvKexReply(ok))
        \/ RecvServiceAccept \/ RecvInfoRequest
Spec == Init /\ [][Next]_vars
\* configurations only (the decision table)
TableSpec == Init /\ [][FALSE]_vars

(* ------------------------------------------------------------------ C17 *)
Secrets == {s \in sent : s.what = "secret"}
\* never in plaintext, only after the initial key exchange completed with a verified host-key signature
SecretSecure == \A s \in Secrets : s.enc /\ s.verified /\ s.done
\* an authentication attempted before the key exchange completed puts nothing on the wire, then or later
NoEarlyAttempt == \A s \in sent : ~s.early
\* a server presenting a key other than the one given / known gets nothing; an unknown server gets nothing
\* until the policy accepted it
Gate == \A s \in sent : /\ ~MustRefuse(cfg, s.shown)
                        /\ (Unknown(cfg) => s.policyOk)
C17 == SecretSecure /\ NoEarlyAttempt /\ Gate

\* spec -> code: one case per configuration
EmitCase == PrintT(<<"CASE", cfg, Shown(cfg),
                     IF Shown(cfg) = NoKey THEN "nokex" ELSE Decision(cfg, Shown(cfg)),
                     Shown(cfg) = NoKey \/ MustRefuse(cfg, Shown(cfg))>>)
=============================================================================
