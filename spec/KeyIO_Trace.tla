---------------------------- MODULE KeyIO_Trace ----------------------------
(* code -> spec for C36.  One record = one executed case on real key objects:      *)
(*  kind "file": a write (write_private_key_file / write_private_key, or a bundled   *)
(*               file) followed by one load; observed: wres, created, exists, mode   *)
(*               bits, lres ("ok" or the exception class), lkey (relation of the     *)
(*               loaded key to the written one)                                       *)
(*  kind "cmp":  two key objects compared: eq, eq_rev, ne, heq, fpeq, beq, rt, err       *)
(*  kind "hist": one sealed file loaded several times in one process: fk, steps =      *)
(*               sequence of [lp, lc, res ("ok" = the sealed key, signing-capable; else   *)
(*               the exception class or what was loaded instead), loaded (a key came     *)
(*               back)]; one step of the design spec's history machine per load            *)
(* The step installs the observation in the design spec's variables and evaluates    *)
(* the design spec's invariants on that state.                                       *)
EXTENDS KeyIO, Sequences, Json, IOUtils, TLCExt
Batch == JsonDeserialize(IOEnv.TRACE_FILE)
VARIABLES tid, l, bad
tvars == <<tid, l, bad, vars>>
R == Batch[tid]
SetOf(s) == {s[i] : i \in 1..Len(s)}
Clause(ok, name) == IF ok THEN {} ELSE {name}

\* ---- file records
FileIsCase == /\ R.ktype \in Types /\ R.lpass \in LPass /\ R.route \in Routes
              /\ \/ (R.target = "bundled" /\ R.wpass \in {"none", "ascii"})
                 \/ (R.target \in Targets /\ Writable(R.ktype) /\ R.umask \in Umasks /\ R.wpass \in WPass)
\* as stated, the file holds the key sealed under exactly the passphrase the writer was given
RContent == IF R.wres = "ok" THEN Sealed(R.ktype, "k1", R.wpass) ELSE Empty
RFs      == [exists |-> R.exists, created |-> R.created, mode |-> SetOf(R.mode), content |-> RContent]
ExpectedClasses == UNION {FailureClass(R.route, o, RContent, R.lpass) : o \in LoadOutcomes(RContent, R.lpass)}
FileStep ==
  /\ mode' = "file" /\ pc' = "done"
  /\ ktype' = R.ktype /\ target' = R.target /\ umask' = R.umask /\ fs' = RFs
  /\ wpass' = R.wpass /\ wres' = R.wres /\ lpass' = R.lpass /\ route' = R.route
  /\ lres' = R.lres /\ lkey' = R.lkey
  /\ UNCHANGED cvars
  /\ bad' = IF ~FileIsCase THEN {"X_not_a_case"} ELSE
            Clause(PrivateWhenCreated', "P_new_file_not_private")
            \cup Clause(R.wpass = "empty" \/ R.wpass \in OverLimit \/ R.wres = "ok", "P_write_failed")
            \cup Clause(RoundTrip', "P_roundtrip_failed")
            \cup Clause(PassNeeded', "P_loaded_without_passphrase")
            \cup Clause(NoOtherKey', "P_loaded_other_key")
            \cup Clause(R.created = Creates(R.target), "X_created_flag")
            \cup Clause(ExactCreateMode', "C_create_mode_not_0600_minus_umask")
            \cup Clause(ExistingModeKept', "C_existing_mode_changed")
            \cup Clause(R.wpass # "empty" \/ R.wres # "ok", "C_empty_passphrase_accepted")
            \cup Clause(R.wpass \notin OverLimit \/ R.wres # "ok", "C_over_limit_passphrase_accepted")
            \cup Clause(R.lres \in ExpectedClasses, "C_load_answer_outside_model")

\* ---- compare records
RA == KeyObj(R.a.type, R.a.mat, R.a.kind)
RB == KeyObj(R.b.type, R.b.mat, R.b.kind)
CmpStep ==
  /\ mode' = "cmp" /\ pc' = "cmp_done"
  /\ ca' = RA /\ cb' = RB /\ eq' = R.eq /\ heq' = R.heq /\ fpeq' = R.fpeq /\ beq' = R.beq
  /\ UNCHANGED fvars
  /\ bad' = IF ~(RA \in KeyObjs /\ RB \in KeyObjs) THEN {"X_not_a_case"} ELSE
            Clause(EqOnlyPublic', "P_eq_not_only_public")
            \cup Clause(R.err = "-", "P_compare_raised")
            \cup Clause(R.eq_rev = R.eq /\ R.ne = ~R.eq, "P_eq_inconsistent")
            \cup Clause(HashOnlyPublic', "P_hash_not_only_public")
            \cup Clause(PublicStable' /\ R.rt, "P_public_encoding_unstable")
            \cup Clause(DistinctDiffer', "C_distinct_keys_share_encoding")

\* ---- history records: step l replays load l
HS == R.steps[l]
HistStep ==
  /\ mode' = "hist" /\ pc' = "hist"
  /\ hfile' = R.fk
  /\ hist' = Append(hist, HEntry(HS.lp, HS.lc, HS.res, HS.loaded))
  /\ kcache' = IF R.fk \in HKinds /\ HS.lp \in HPass THEN CacheAfter(R.fk, HS.lp, kcache) ELSE kcache
  /\ UNCHANGED <<fvars, cvars>>
  /\ bad' = IF ~(R.fk \in HKinds /\ HS.lp \in HPass /\ HS.lc \in HClass /\ Len(R.steps) <= MaxHist)
            THEN {"X_not_a_case"} ELSE
            Clause(HistRight', "P_correct_passphrase_rejected")
            \cup Clause(HistWrong', "P_loaded_without_passphrase")
            \cup Clause(HistOther', "C_loaded_through_other_class")

Last == IF R.kind = "hist" THEN Len(R.steps) + 1 ELSE 2
TInit == tid \in 1..Len(Batch) /\ l = 1 /\ bad = {} /\ Init /\ mode = "file"
TNext == /\ l < Last /\ l' = l + 1 /\ tid' = tid
         /\ CASE R.kind = "file" -> FileStep /\ UNCHANGED hvars
              [] R.kind = "cmp"  -> CmpStep /\ UNCHANGED hvars
              [] OTHER           -> HistStep
TSpec == TInit /\ [][TNext]_tvars
Report == /\ (bad # {} => PrintT(<<"VERDICT", tid, l - 1, bad>>))
          /\ (l = Last => PrintT(<<"DONE", tid>>))
=============================================================================
