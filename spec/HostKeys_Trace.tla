---------------------------- MODULE HostKeys_Trace ----------------------------
(* code -> spec for C41.  One record = one history on a real HostKeys object:         *)
(*   hosts, ktypes, keys : the universe the driver queried after every operation       *)
(*   events[l] = [op, file | host, key, obs] with op in load / reload (the same file    *)
(*               as the load just before) / add / delete, and obs what the public API    *)
(*               showed afterwards:                                                     *)
(*     saved   = the lines save() wrote (names and key mapped back to their ids)         *)
(*     lookup  = per host: found, kts = lookup(h).keys(), map = the key per listed type   *)
(*     check   = the (host, key) pairs for which check() was true                        *)
(*     hostlist= HostKeys.keys()                                                        *)
(*     reload  = per host: found, map - from a FRESH HostKeys loaded from the saved file  *)
(* P_ clauses are the statement of C41 over these observations; C_ clauses compare the    *)
(* saved state with the design spec's step (pinned and repaired load()).                 *)
EXTENDS HostKeys, Json, IOUtils, TLCExt
Batch == JsonDeserialize(IOEnv.TRACE_FILE)
VARIABLES tid, l, bad, prev
tvars == <<tid, l, bad, prev, vars>>
R == Batch[tid]
T == Range(R.ktypes)
NH == Len(R.hosts)

ObsMap(lk) == [t \in T |-> IF \E k \in Range(lk.map) : k.kt = t
                           THEN (CHOOSE k \in Range(lk.map) : k.kt = t) ELSE NoKey]
Empty == [saved |-> <<>>, hostlist |-> <<>>, check |-> <<>>,
          lookup |-> [i \in 1..NH |-> [found |-> FALSE, kts |-> <<>>, map |-> <<>>]],
          reload |-> [i \in 1..NH |-> [found |-> FALSE, map |-> <<>>]]]

LookupClauses(o) ==
    (IF \A i \in 1..NH : /\ o.lookup[i].found = (LookupEntries(o.saved, Plain(R.hosts[i])) # <<>>)
                         /\ ObsMap(o.lookup[i]) = MapOver(o.saved, R.hosts[i], T)
     THEN {} ELSE {<<"P_lookup_not_first_listing_entry", "">>})
    \cup (IF \A i \in 1..NH : o.lookup[i].kts = KeyTypeList(o.saved, Plain(R.hosts[i]))
          THEN {} ELSE {<<"C_key_type_list_differs", "">>})
    \cup (IF \A i \in 1..NH : \A j \in 1..Len(R.keys) :
                ([host |-> R.hosts[i], key |-> R.keys[j]] \in Range(o.check))
                    <=> (LookupKey(o.saved, Plain(R.hosts[i]), R.keys[j].kt) = R.keys[j])
          THEN {} ELSE {<<"P_check_not_exactly_effective_key", "">>})
    \cup (IF \A i \in 1..NH : /\ o.reload[i].found = o.lookup[i].found
                              /\ ObsMap(o.reload[i]) = ObsMap(o.lookup[i])
          THEN {} ELSE {<<"P_save_reload_changes_lookup", "">>})
    \cup (IF o.hostlist = HostList(o.saved) THEN {} ELSE {<<"C_host_list_differs", "">>})

Same(o, p) == /\ o.saved = p.saved /\ o.hostlist = p.hostlist /\ o.check = p.check
              /\ \A i \in 1..NH : o.lookup[i] = p.lookup[i]
\* which repair of load() would have made this second load a no-op, judged from the variant of the
\* design spec's load (FixIter, FixShadow) the implementation is seen to follow on this step
ReloadClass(o, p, F) ==
    LET matches(fi, fs) == o.saved = LoadFile(p.saved, F, fi, fs)
        idem(fi, fs)    == LoadFile(p.saved, F, fi, fs) = p.saved
        from(fi, fs)    == IF ~fi /\ idem(TRUE, fs) THEN "remove_while_iterating"
                           ELSE IF ~fs /\ idem(fi, TRUE) THEN "shadowed_entry_reappended"
                           ELSE IF ~fi /\ ~fs /\ idem(TRUE, TRUE) THEN "iterating_and_shadowed"
                           ELSE "unexplained"
        \* a step on which two variants coincide is attributed to the more repaired one
        class == IF matches(TRUE, FALSE) THEN from(TRUE, FALSE)
                 ELSE IF matches(FALSE, TRUE) THEN from(FALSE, TRUE)
                 ELSE IF matches(FALSE, FALSE) THEN from(FALSE, FALSE)
                 ELSE "unexplained"
    IN  <<"P_load_twice_changes_state", class>>

StepClauses(e, o, p) ==
    IF e.op \in {"load", "reload"} THEN
        (IF \A i \in 1..NH : ObsMap(o.lookup[i]) = MergeMaps(ObsMap(p.lookup[i]), e.file, R.hosts[i], T)
         THEN {} ELSE {<<"P_load_not_first_obtained", "">>})
        \cup (IF e.op = "reload" /\ ~Same(o, p) THEN {ReloadClass(o, p, e.file)} ELSE {})
        \cup (IF o.saved = LoadFile(p.saved, e.file, FALSE, FALSE) THEN {} ELSE {<<"C_state_differs_from_pinned_load", "">>})
        \cup (IF o.saved = LoadFile(p.saved, e.file, TRUE, TRUE) THEN {} ELSE {<<"C_state_differs_from_repaired_load", "">>})
    ELSE IF e.op = "add" THEN
        (IF o.saved = AddKey(p.saved, e.host, e.key) THEN {} ELSE {<<"C_state_differs_after_add", "">>})
    ELSE (IF o.saved = DeleteHost(p.saved, e.host) THEN {} ELSE {<<"C_state_differs_after_delete", "">>})

TInit == /\ tid \in 1..Len(Batch) /\ l = 1 /\ bad = {} /\ prev = Empty
         /\ store = <<>> /\ last = "" /\ lastF = <<>> /\ before = <<>> /\ nops = 0 /\ hist = <<>>
TNext == /\ l <= Len(R.events) /\ l' = l + 1 /\ tid' = tid
         /\ LET e == R.events[l] IN
              /\ store' = e.obs.saved /\ before' = store /\ last' = e.op /\ nops' = nops + 1
              /\ lastF' = IF e.op \in {"load", "reload"} THEN e.file ELSE <<>>
              /\ UNCHANGED hist
              /\ prev' = e.obs
              /\ bad' = LookupClauses(e.obs) \cup StepClauses(e, e.obs, prev)
TSpec == TInit /\ [][TNext]_tvars
Report == /\ (bad # {} => PrintT(<<"VERDICT", ToString(<<tid, l - 1, bad>>)>>))     \* one line per print
          /\ (l = Len(R.events) + 1 => PrintT(<<"DONE", tid>>))
=============================================================================
