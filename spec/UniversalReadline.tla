------------------------- MODULE UniversalReadline -------------------------
(* C42, universal-newline ('U') readers.  BufferedFile.readline(size) in 'U' mode *)
(* over a stream that delivers its bytes in arbitrary chunks (paramiko/file.py     *)
(* 246-322).  'U' mode rewrites every line end (CR, LF, CR LF) to LF by design, so *)
(* "exactly the underlying byte stream" is not asked of it; what the statement     *)
(* still says is that lines end at the stream's newlines however the stream        *)
(* delivers its bytes: a CR LF pair is ONE line end also when the stream hands     *)
(* the CR at the end of one _read() result and the LF at the start of the next     *)
(* (the code keeps _at_trailing_cr for exactly that).  The one case left open is   *)
(* a size limit that cuts between the CR and the LF (the call returned exactly     *)
(* `size` bytes): then either reading is accepted.                                 *)
EXTENDS Integers, Sequences, TLC

CONSTANTS Alphabet,        \* byte values of the streams: LF = 10, CR = 13 and a letter
          MaxSrc, MaxOps,
          Sizes,           \* arguments (>= 0) of readline(size); readline also runs without a limit (-1)
          BufSize,         \* request size of an unlimited readline (the stream decides what it delivers)
          SizeCheckFirst   \* TRUE: the "size check" block runs before the pending-CR block (seeded defect)

LF == 10
CR == 13
Min(a, b) == IF a < b THEN a ELSE b
Take(s, n) == SubSeq(s, 1, Min(n, Len(s)))
Drop(s, n) == SubSeq(s, Min(n, Len(s)) + 1, Len(s))
IsNL(b) == b = LF \/ b = CR
HasNL(s) == \E i \in 1..Len(s) : IsNL(s[i])
FirstNL(s) == IF HasNL(s) THEN CHOOSE i \in 1..Len(s) : IsNL(s[i]) /\ \A j \in 1..(i - 1) : ~IsNL(s[j]) ELSE 0
SeqsUpTo(n) == UNION {[1..k -> Alphabet] : k \in 0..n}
Content(s) == SelectSeq(s, LAMBDA b : ~IsNL(b))

(* the clause: s = the stream, c0 / c1 = how many of its bytes had been consumed before / after the call,  *)
(* ret = the value returned, prevcut = the previous non-empty value was cut by its size limit               *)
SplitBad(s, c0, c1, ret, prevcut) ==
  IF ret = <<LF>> /\ c1 = c0 + 1 /\ c0 >= 1 /\ c1 <= Len(s) /\ s[c0] = CR /\ s[c1] = LF /\ ~prevcut
  THEN {"P_crlf_returned_as_two_lines"} ELSE {}
SizeBad(n, ret) == IF n >= 0 /\ Len(ret) > n THEN {"P_size_limit"} ELSE {}

VARIABLES src, off, rbuf, line, arg, cr, eof, pc, ops, c0, prevcut, returned, lastret, bad
vars == <<src, off, rbuf, line, arg, cr, eof, pc, ops, c0, prevcut, returned, lastret, bad>>

Rest == SubSeq(src, off + 1, Len(src))
Delivered(ask) == IF Rest = <<>> THEN {0} ELSE 1..Min(ask, Len(Rest))
Chunk(k) == SubSeq(src, off + 1, off + k)

Init == /\ src \in SeqsUpTo(MaxSrc) /\ off = 0 /\ rbuf = <<>> /\ line = <<>> /\ arg = 0 /\ cr = FALSE
        /\ eof = FALSE /\ pc = "idle" /\ ops = 0 /\ c0 = 0 /\ prevcut = FALSE /\ returned = <<>>
        /\ lastret = <<>> /\ bad = {}

CallReadline(size) ==
  /\ pc = "idle" /\ ops < MaxOps
  /\ arg' = size /\ line' = rbuf /\ c0' = off - Len(rbuf) /\ eof' = FALSE /\ pc' = "loop" /\ ops' = ops + 1
  /\ UNCHANGED <<src, off, rbuf, cr, prevcut, returned, lastret, bad>>

(* the head of one loop iteration: pending-CR block and size block, in the order of the code (or swapped) *)
Resolve(l, c) == IF c /\ Len(l) > 0 THEN <<IF l[1] = LF THEN Tail(l) ELSE l, FALSE>> ELSE <<l, c>>
SizeHitOn(l) == arg >= 0 /\ Len(l) >= arg
Top == LET r == Resolve(line, cr) IN
  IF SizeCheckFirst /\ SizeHitOn(line) THEN [brk |-> TRUE, trunc |-> TRUE, l |-> line, c |-> cr, ask |-> 0]
  ELSE IF ~SizeCheckFirst /\ SizeHitOn(r[1]) THEN [brk |-> TRUE, trunc |-> TRUE, l |-> r[1], c |-> r[2], ask |-> 0]
  ELSE [brk |-> HasNL(r[1]), trunc |-> FALSE, l |-> r[1], c |-> r[2],
        ask |-> IF arg >= 0 THEN arg - Len(IF SizeCheckFirst THEN line ELSE r[1]) ELSE BufSize]

Fetch ==
  /\ pc = "loop" /\ ~Top.brk /\ ~eof
  /\ \E k \in Delivered(Top.ask) :
       IF k = 0 THEN eof' = TRUE /\ line' = Top.l /\ UNCHANGED off
                ELSE line' = Top.l \o Chunk(k) /\ off' = off + k /\ UNCHANGED eof
  /\ cr' = Top.c
  /\ UNCHANGED <<src, rbuf, arg, pc, ops, c0, prevcut, returned, lastret, bad>>

Return ==
  /\ pc = "loop" /\ (Top.brk \/ eof)
  /\ LET t    == Top
         head == IF t.trunc THEN Take(t.l, arg) ELSE t.l
         tail == IF t.trunc THEN Drop(t.l, arg) ELSE <<>>
         p    == FirstNL(head)
         used == IF p > 0 /\ head[p] = CR /\ p < Len(head) /\ head[p + 1] = LF THEN p + 1 ELSE p
         ret  == IF ~t.brk \/ p = 0 THEN head ELSE Take(head, p - 1) \o <<LF>>
         nrb  == IF ~t.brk THEN <<>> ELSE IF p = 0 THEN tail ELSE Drop(head, used) \o tail
     IN /\ rbuf' = nrb /\ lastret' = ret /\ returned' = returned \o ret
        /\ cr' = IF t.brk /\ p > 0 /\ nrb = <<>> /\ head[p] = CR /\ used = p THEN TRUE ELSE t.c
        /\ prevcut' = IF ret = <<>> THEN prevcut ELSE (arg >= 0 /\ Len(ret) = arg)
        /\ bad' = SplitBad(src, c0, off - Len(nrb), ret, prevcut) \cup SizeBad(arg, ret)
  /\ line' = <<>> /\ pc' = "idle"
  /\ UNCHANGED <<src, off, arg, eof, ops, c0>>

Next == (\E s \in Sizes \cup {-1} : CallReadline(s)) \/ Fetch \/ Return
Spec == Init /\ [][Next]_vars

Held == IF pc = "loop" THEN line ELSE rbuf
\* a CR LF pair is never handed out as two lines (unless a size limit cut between them); size limits hold
LineStructure == bad = {}
\* the bytes that are not line ends come out complete and in order
ContentConserved == Content(returned) \o Content(Held) \o Content(Rest) = Content(src)
\* the pending-CR flag is only set while nothing is buffered
PendingMeansEmpty == (pc = "idle" /\ cr /\ ~SizeCheckFirst) => rbuf = <<>>
=============================================================================
