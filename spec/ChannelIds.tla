----------------------------- MODULE ChannelIds -----------------------------
(* C23.  Live channel ids are unique within a transport and fit in 24 bits.       *)
(*                                                                                 *)
(* Transport._next_channel (transport.py), called with the transport lock held:    *)
(*     chanid = counter                                                            *)
(*     while ChannelMap.get(chanid) is not None: counter = (counter+1) & 0xFFFFFF; chanid = counter *)
(*     counter = (counter+1) & 0xFFFFFF                                            *)
(* Transport.open_channel (application threads) allocates AND registers the new    *)
(* channel in the ChannelMap during one hold of the transport lock (LocalOpen).    *)
(* Transport._parse_channel_open (transport thread, peer's CHANNEL_OPEN) allocates *)
(* under the lock (PeerOpenBegin), releases it, asks the ServerInterface, and      *)
(* registers under the lock again (PeerOpenCommit) - or rejects (PeerOpenReject).  *)
(* Local opens can therefore run between a peer open's allocation and its          *)
(* registration.  A channel leaves the map when the peer's CLOSE arrives or its     *)
(* open fails (Close).  A local open may also wait for its answer (await) and time   *)
(* out while a peer open sits between allocation and registration.  Peer messages that name an id out of turn (OPEN_FAILURE /    *)
(* OPEN_CONFIRMATION for an established channel, duplicate CLOSE) are history events  *)
(* too: they must not take a live channel out of the registry, or wrap-around hands   *)
(* its id out again.                                                                   *)
(*                                                                                 *)
(* `open` is the bag of ids held by open Channel objects (sparse function id ->     *)
(* count); the property is that no count ever exceeds 1 and every id is below N.    *)
EXTENDS Integers, FiniteSets, Sequences, TLC

CONSTANTS N,          \* size of the id space (2^24 in paramiko)
          MaxLive,    \* bound on open channels (model checking)
          WindowCap,  \* allocations that may happen while one peer open is between allocation and
                      \* registration; in paramiko that needs < 2^24 open_channel calls during one
                      \* check_channel_request callback (assumption, see PendingFresh)
          Wrap,       \* TRUE: counter = (counter + 1) & mask (the code); FALSE: mutation, no wrap
          SkipInUse,  \* TRUE: ids present in the map are skipped (the code); FALSE: mutation
          TimeoutRewindsCounter,   \* FALSE (the code): a local open that times out leaves counter and registry
                      \* alone; TRUE: mutation, it unregisters its id and sets the counter back to it
          PeerAllocConsumes,       \* TRUE (the code): the number a peer open takes is used up at once, before the
                      \* application is asked; FALSE: mutation (seeded change C23f), it is only looked up and counts
                      \* as taken once the channel is registered - a local open during the callback gets the same one
          StrayFailureUnregisters  \* FALSE (the code): CHANNEL_OPEN_FAILURE only affects a local open that is
                      \* still waiting for its answer; TRUE: mutation, it unregisters whatever id it names

VARIABLES counter,    \* Transport._channel_counter
          open,       \* sparse bag: id -> number of open Channel objects with that id
          map,        \* ids present in Transport._channels (ChannelMap)
          pend,       \* sparse function: thread -> id it has allocated but not yet registered
          inwin,      \* allocations since the pending peer open allocated its id
          await       \* ids of local opens whose CHANNEL_OPEN is out and not answered yet (open_channel is waiting)
vars == <<counter, open, map, pend, inwin, await>>

Ids == 0..(N - 1)
Succ(c) == IF Wrap THEN (c + 1) % N ELSE c + 1
\* the id _next_channel returns for counter value c when `used` are the ids in the map:
\* the first id of c, c+1, ... (cyclically) that is not in use
NextFree(c, used) ==
  IF ~SkipInUse THEN c
  ELSE LET k == CHOOSE k \in 0..Cardinality(used) :
                    /\ (IF Wrap THEN (c + k) % N ELSE c + k) \notin used
                    /\ \A j \in 0..(k - 1) : (IF Wrap THEN (c + j) % N ELSE c + j) \in used
       IN IF Wrap THEN (c + k) % N ELSE c + k

Count(b, i) == IF i \in DOMAIN b THEN b[i] ELSE 0
Inc(b, i) == [j \in DOMAIN b \cup {i} |-> Count(b, j) + (IF j = i THEN 1 ELSE 0)]
Dec(b, i) == [j \in {x \in DOMAIN b : x # i \/ b[x] > 1} |-> b[j] - (IF j = i THEN 1 ELSE 0)]
Live(b) == DOMAIN b
Size(b) == Cardinality(DOMAIN b)
Range(f) == {f[x] : x \in DOMAIN f}
Without(f, x) == [y \in DOMAIN f \ {x} |-> f[y]]
With(f, x, v) == [y \in DOMAIN f \cup {x} |-> IF y = x THEN v ELSE f[y]]

\* state updates shared with the trace specification
AllocBy(who, id)  == /\ pend' = With(pend, who, id)
                     /\ counter' = IF who = "T" /\ ~PeerAllocConsumes THEN id ELSE Succ(id)
RegisterBy(who, id) == /\ open' = Inc(open, id)
                       /\ map' = map \cup {id}
                       /\ pend' = IF who \in DOMAIN pend THEN Without(pend, who) ELSE pend
Unregister(id) == /\ open' = Dec(open, id)
                  /\ map' = map \ {id}

Init == /\ counter \in Ids
        /\ open = <<>> /\ map = {} /\ pend = <<>> /\ inwin = 0 /\ await = {}

LocalOpen ==
  /\ Cardinality(map) + Cardinality(DOMAIN pend) < MaxLive
  /\ ("T" \in DOMAIN pend => inwin < WindowCap)
  /\ LET id == NextFree(counter, map) IN
       /\ counter' = Succ(id)
       /\ open' = Inc(open, id) /\ map' = map \cup {id}
  /\ inwin' = IF "T" \in DOMAIN pend THEN inwin + 1 ELSE inwin
  /\ UNCHANGED <<pend, await>>

PeerOpenBegin ==
  /\ "T" \notin DOMAIN pend
  /\ Cardinality(map) < MaxLive
  /\ AllocBy("T", NextFree(counter, map))
  /\ inwin' = 0
  /\ UNCHANGED <<open, map, await>>

PeerOpenCommit ==
  /\ "T" \in DOMAIN pend
  /\ RegisterBy("T", pend["T"])
  /\ UNCHANGED <<counter, inwin, await>>

PeerOpenReject ==
  /\ "T" \in DOMAIN pend
  /\ pend' = Without(pend, "T")
  /\ UNCHANGED <<counter, open, map, inwin, await>>

Close(id) ==
  /\ id \in DOMAIN open /\ id \notin await
  /\ Unregister(id)
  /\ UNCHANGED <<counter, pend, inwin, await>>

\* ---- a local open whose answer takes time: open_channel allocates and registers under the lock, sends
\* CHANNEL_OPEN and waits (at most two application threads wait at a time).  The peer confirms, refuses, or
\* the wait times out: open_channel raises, the application has no channel; the code leaves the registry entry
\* behind (ChannelMap holds the abandoned Channel weakly: Collect) and does not touch the counter.
LocalOpenSend ==
  /\ Cardinality(map) + Cardinality(DOMAIN pend) < MaxLive /\ Cardinality(await) < 2
  /\ ("T" \in DOMAIN pend => inwin < WindowCap)
  /\ LET id == NextFree(counter, map) IN
       /\ counter' = Succ(id)
       /\ open' = Inc(open, id) /\ map' = map \cup {id}
       /\ await' = await \cup {id}
  /\ inwin' = IF "T" \in DOMAIN pend THEN inwin + 1 ELSE inwin
  /\ UNCHANGED pend
OpenAccepted(id) ==
  /\ id \in await /\ await' = await \ {id}
  /\ UNCHANGED <<counter, open, map, pend, inwin>>
OpenRefused(id) ==
  /\ id \in await /\ await' = await \ {id}
  /\ Unregister(id)
  /\ UNCHANGED <<counter, pend, inwin>>
OpenTimeout(id) ==
  /\ id \in await /\ await' = await \ {id}
  /\ open' = Dec(open, id)
  /\ map' = IF TimeoutRewindsCounter THEN map \ {id} ELSE map
  /\ counter' = IF TimeoutRewindsCounter THEN id ELSE counter
  /\ UNCHANGED <<pend, inwin>>
Collect(id) ==
  /\ id \in map /\ id \notin DOMAIN open
  /\ map' = map \ {id}
  /\ UNCHANGED <<counter, open, pend, inwin, await>>

\* ---- peer messages that name an id they have no business with (a buggy or hostile peer).  In this model a
\* local open is answered within LocalOpen or listed in `await`; the others in `open` are established: CHANNEL_OPEN_FAILURE or
\* CHANNEL_OPEN_CONFIRMATION for an established, a half-registered (pend) or an unknown id, and CHANNEL_CLOSE for
\* an id that has no channel (duplicate CLOSE), must leave the registry alone.  The Channel object of an
\* established channel stays open, so `open` never changes here.
StrayOpenFailure(id) ==
  /\ id \notin await
  /\ map' = IF StrayFailureUnregisters THEN map \ {id} ELSE map
  /\ UNCHANGED <<counter, open, pend, inwin, await>>
StrayOpenSuccess(id) == UNCHANGED vars
DuplicateClose(id) == id \notin DOMAIN open /\ UNCHANGED vars
\* (the last two never change the state: they are stuttering steps of Spec and only appear in generated histories)
Stray == \E id \in Ids : StrayOpenFailure(id)

Next == LocalOpen \/ LocalOpenSend \/ (\E id \in await : OpenAccepted(id) \/ OpenRefused(id) \/ OpenTimeout(id))
        \/ (\E id \in map : Collect(id)) \/ PeerOpenBegin \/ PeerOpenCommit \/ PeerOpenReject \/ (\E id \in DOMAIN open : Close(id)) \/ Stray
Spec == Init /\ [][Next]_vars

(* ------------------------------------------------------------------ the property *)
\* no two open channels share an id
Unique == \A i \in DOMAIN open : open[i] = 1
\* an id handed out but not yet registered is not the id of an open channel, nor handed out twice
PendingFresh == /\ \A w \in DOMAIN pend : pend[w] \notin DOMAIN open
                /\ \A w1, w2 \in DOMAIN pend : w1 # w2 => pend[w1] # pend[w2]
\* ids fit in the id space (24 bits)
InRange == \A i \in DOMAIN open \cup Range(pend) : i \in Ids
\* every open channel is registered under its id
MapAgrees == DOMAIN open \subseteq map
TypeOK == counter \in Nat /\ inwin \in Nat /\ map \subseteq Nat
=============================================================================
