---------------------------- MODULE AuthStrategy ----------------------------
(* C44.  AuthStrategy.authenticate (paramiko/auth_strategy.py:260-303).            *)
(*                                                                                *)
(* A *program* is the list of sources get_sources() produces; source k either     *)
(* returns some value (an outcome kind in Returns: an empty list, a non-empty list, *)
(* None, a string, ... - a source has succeeded when its authenticate() returns,   *)
(* whatever it returns) or raises an exception of some kind.  The machine follows   *)
(* the loop of authenticate() at the grain of its decision points:                *)
(*   NextSource  - the generator produces the next source (or is exhausted)       *)
(*   Attempt     - source.authenticate(transport) runs: returns or raises         *)
(*   Record      - SourceResult(source, result) is appended to the AuthResult     *)
(*   Finish      - break / loop end: return the AuthResult or raise AuthFailure    *)
(* The property is written as clause operators (CallClauses, FinalClauses) so the *)
(* trace spec evaluates exactly the same definitions on recorded behaviour.       *)
EXTENDS Naturals, Sequences, FiniteSets, TLC

CONSTANTS Outcomes,    \* outcome kinds of a source: a kind of returned value or the name of an exception class
          Returns,     \* the outcome kinds that are returned values ("ok" = [], "ok_list" = a non-empty list, "ok_none", ...)
          MaxLen,      \* longest program explored by the model checker
          MaxCalls,    \* successive authenticate() calls on ONE strategy object (reconnect / retry), each with its
                       \*   own list of sources; every call is judged against its own sources only
          Mutation     \* "none" = the design; other values re-introduce a defect (sensitivity runs), e.g.
                       \*   "shared_result" = one AuthResult kept on the strategy object and reused by every call

ASSUME Returns \subseteq Outcomes /\ Returns # {}
Succeeds(o) == o \in Returns      \* success = returns without raising; the value plays no role

VARIABLES prog,        \* Seq(Outcomes): source k behaves as prog[k]
          pc,          \* "next" | "attempt" | "record" | "finish" | "done"
          i,           \* index of the source in hand (0 before the first)
          succeeded,   \* the local flag of authenticate()
          calls,       \* Seq of source indexes whose authenticate() was entered, in order
          result,      \* the AuthResult: Seq of [src, kind, of]
          status,      \* "running" | "returned" | "raised" | "propagated"
          call,        \* number of the current authenticate() call on this strategy object
          prev,        \* the AuthResult the previous call returned / raised, as it is NOW
          prevlen      \* ... and how many entries it had when it was handed out
vars == <<prog, pc, i, succeeded, calls, result, status, call, prev, prevlen>>

Programs == UNION {[1..n -> Outcomes] : n \in 0..MaxLen}

(* ---- what an entry of the AuthResult is -------------------------------------- *)
(* src  = index of the source object in the entry                                 *)
(* kind = "ret" (the object that source's authenticate returned), "exc" (the      *)
(*        exception instance a source raised) or "other"                          *)
(* of   = index of the source that returned / raised that very object (0: none)   *)
Entry(p, k) == [src |-> k, kind |-> IF Succeeds(p[k]) THEN "ret" ELSE "exc", of |-> k]

Min(S) == CHOOSE x \in S : \A y \in S : x <= y
FirstOk(p) == IF \E k \in 1..Len(p) : Succeeds(p[k]) THEN Min({k \in 1..Len(p) : Succeeds(p[k])}) ELSE 0
\* number of sources the statement wants tried
Wanted(p) == IF FirstOk(p) = 0 THEN Len(p) ELSE FirstOk(p)

(* ---- the property, clause by clause ------------------------------------------- *)
\* a call of source s when `cs` were called before
CallClauses(p, cs, s) ==
     (IF s = Len(cs) + 1 THEN {} ELSE {"P_order"})
\cup (IF \E k \in 1..Len(cs) : cs[k] \in 1..Len(p) /\ Succeeds(p[cs[k]]) THEN {"P_call_after_success"} ELSE {})

\* the end of authenticate(): st = how it ended, res = the AuthResult returned / carried by AuthFailure
FinalClauses(p, cs, st, res) ==
     (IF Len(cs) < Wanted(p) THEN {"P_gave_up_early"} ELSE {})
\cup (IF st = (IF FirstOk(p) = 0 THEN "raised" ELSE "returned") THEN {}
      ELSE IF FirstOk(p) = 0 THEN {"P_no_authfailure"} ELSE {"P_success_not_returned"})
\cup (IF st \in {"returned", "raised"} /\
         (Len(res) # Len(cs) \/ \E k \in 1..Len(res) : k <= Len(cs) /\ res[k].src # cs[k])
      THEN {"P_result_sources"} ELSE {})
\cup (IF st \in {"returned", "raised"} /\
         \E k \in 1..Len(res) : res[k].src \in 1..Len(p) /\ res[k] # Entry(p, res[k].src)
      THEN {"P_result_outcomes"} ELSE {})

\* whole-program view (what the loop must compute), used to cross-check the state machine
Expected(p) == [calls  |-> [k \in 1..Wanted(p) |-> k],
                status |-> IF FirstOk(p) = 0 THEN "raised" ELSE "returned",
                result |-> [k \in 1..Wanted(p) |-> Entry(p, k)]]

(* ---- the state machine --------------------------------------------------------- *)
Init == /\ prog \in Programs
        /\ pc = "next" /\ i = 0 /\ succeeded = FALSE
        /\ calls = <<>> /\ result = <<>> /\ status = "running"
        /\ call = 1 /\ prev = <<>> /\ prevlen = 0

NextSource == /\ pc = "next"
              /\ IF i < Len(prog) THEN i' = i + 1 /\ pc' = "attempt"
                                  ELSE i' = i /\ pc' = "finish"
              /\ UNCHANGED <<prog, succeeded, calls, result, status, call, prev, prevlen>>

Attempt == /\ pc = "attempt"
           /\ LET k == IF Mutation = "reversed" THEN Len(prog) + 1 - i ELSE i IN
                /\ calls' = Append(calls, k)
                /\ succeeded' = IF Mutation = "nonempty_list_not_success" THEN Succeeds(prog[k]) /\ prog[k] # "ok_list"
                                ELSE Succeeds(prog[k])
           /\ pc' = "record"
           /\ UNCHANGED <<prog, i, result, status, call, prev, prevlen>>

Record == /\ pc = "record"
          /\ LET k == calls[Len(calls)] IN
               result' = IF Mutation = "drop_failures" /\ ~Succeeds(prog[k]) THEN result
                         ELSE Append(result, Entry(prog, k))
          /\ prev' = IF Mutation = "shared_result" /\ call > 1 THEN result' ELSE prev    \* (the same object, if shared)
          /\ pc' = IF succeeded /\ Mutation # "no_break" THEN "finish" ELSE "next"
          /\ UNCHANGED <<prog, i, succeeded, calls, status, call, prevlen>>

Finish == /\ pc = "finish"
          /\ status' = IF succeeded \/ Mutation = "never_raises" THEN "returned" ELSE "raised"
          /\ pc' = "done"
          /\ UNCHANGED <<prog, i, succeeded, calls, result, call, prev, prevlen>>

\* the entries of an earlier call seen from a later one: none of them is a source, a return value or an exception
\* of THIS call
Foreign(res) == [k \in 1..Len(res) |-> [src |-> 0, kind |-> "other", of |-> 0]]
\* authenticate() is called again on the same strategy object, with a new list of sources: it starts a new AuthResult
NextCall == /\ pc = "done" /\ call < MaxCalls
            /\ prog' \in Programs
            /\ pc' = "next" /\ i' = 0 /\ succeeded' = FALSE /\ calls' = <<>> /\ status' = "running"
            /\ result' = IF Mutation = "shared_result" THEN Foreign(result) ELSE <<>>
            /\ prev' = result /\ prevlen' = Len(result)
            /\ call' = call + 1

Next == NextSource \/ Attempt \/ Record \/ Finish \/ NextCall
Spec == Init /\ [][Next]_vars

(* ---- invariants / action properties (the statement of C44 on the model) -------- *)
TypeOK == /\ pc \in {"next", "attempt", "record", "finish", "done"}
          /\ i \in 0..Len(prog) /\ succeeded \in BOOLEAN
          /\ status \in {"running", "returned", "raised"}
\* every call is the next source in order and none follows a success
CallsLegal == [][Attempt => CallClauses(prog, calls, calls'[Len(calls')]) = {}]_vars
\* between steps the result lists exactly the attempted sources with their outcomes
ResultTracksCalls == pc \in {"next", "attempt", "finish", "done"} =>
                        result = [k \in 1..Len(calls) |-> Entry(prog, calls[k])]
\* the end state satisfies every clause of the statement
FinalOK == pc = "done" => FinalClauses(prog, calls, status, result) = {}
\* ... and is what the whole-program definition says
LoopAgrees == pc = "done" => [calls |-> calls, status |-> status, result |-> result] = Expected(prog)
\* a result that was handed out does not change when authenticate() is called again
EarlierResultKept == Len(prev) = prevlen
\* emitted for spec -> code replay: one case per program
Emit == (pc = "done" /\ call = 1) => PrintT(<<"CASE", prog, calls, status, result>>)
=============================================================================
