--------------------------- MODULE ChannelStreams ---------------------------
(* C21.  Channel byte streams arrive intact, in order and on the right stream.    *)
(*                                                                                 *)
(* One receiving endpoint of a transport with several channels.  The peer writes   *)
(* stdout bytes (CHANNEL_DATA), stderr bytes (CHANNEL_EXTENDED_DATA code 1) and an *)
(* exit status per channel; all messages travel on ONE wire FIFO (the transport).  *)
(* The transport thread dispatches the head message to its channel:               *)
(*   Channel._feed            -> in_buffer.feed                                    *)
(*   Channel._feed_extended   -> reads combine_stderr, then feeds in_buffer or     *)
(*                               in_stderr_buffer                                  *)
(* The peer's EOF / CLOSE close both pipes (`shut`); buffered bytes stay readable  *)
(* and the combine switch may still come afterwards.                               *)
(* Application threads read either endpoint (recv / recv_stderr) in arbitrary     *)
(* chunk sizes and may switch stderr combining on (Channel.set_combine_stderr):    *)
(*   [channel lock: combine_stderr := TRUE; data := in_stderr_buffer.empty()]      *)
(*   then _feed(data)                                                              *)
(*                                                                                 *)
(* Bytes are not modelled; a *run* [c, s, pos, n] stands for the n bytes at offset *)
(* pos of the stream s the peer wrote on channel c.  Buffers and read results are  *)
(* sequences of runs; reading splits runs.  The same run vocabulary is what the    *)
(* drivers log from position-encoding payloads (ChannelStreams_Trace).             *)
(*                                                                                 *)
(* AtomicCombine = FALSE is the pinned code: the switch re-feeds the old stderr    *)
(* bytes after releasing the channel lock and _feed_extended tests the flag        *)
(* without the lock.  AtomicCombine = TRUE is the repaired design: both are one    *)
(* critical section of the channel lock.                                           *)
EXTENDS Integers, Sequences, FiniteSets, TLC

CONSTANTS Chans,          \* channel indices
          MaxBytes,       \* bytes the peer writes per (channel, stream)
          MaxMsg,         \* largest data message
          ReadSizes,      \* sizes asked for by recv / recv_stderr
          StatusPick,     \* which rows of StatusTable (below) the peer may send as exit status
          AtomicCombine,  \* see above
          Window,         \* the peer's send window per channel in bytes (both streams share it); 0 = never the
                          \* limit (the default 2 MiB window against payloads of at most 512 KiB)
          EventBeforeStatus, \* FALSE (the code): _handle_request stores exit_status, then sets status_event;
                          \* TRUE: mutation, the event is set first and the value stored afterwards
          AllowOff,       \* TRUE: the application may also call set_combine_stderr(False) after the switch on
                          \* (CombineOff); FALSE: combining is switched on at most once and stays on
          Mutation        \* "none" or the name of a deliberately wrong variant (sensitivity runs)

\* An exit status is a uint32 (RFC 4254 6.10).  TLC integers are 32-bit signed, so a status is the pair
\* <<high 16 bits, low 16 bits>>; the full range 0 .. 2^32-1 is Status.
Limb == 0..65535
Status == Limb \X Limb
None == <<-1, -1>>                            \* "no exit status"
\* 0, 3, 255, 256, 2^31-1, 2^31, 0xC000013A, 2^32-1  (a configuration file cannot hold tuples, it picks rows)
StatusTable == << <<0, 0>>, <<0, 3>>, <<0, 255>>, <<0, 256>>, <<32767, 65535>>, <<32768, 0>>, <<49152, 314>>,
                  <<65535, 65535>> >>
Statuses == {StatusTable[i] : i \in StatusPick}
Unread == <<-3, -3>>                          \* recv_exit_status() has not returned (yet)
Eps == {"out", "err"}                         \* endpoints at the reader = streams at the writer

VARIABLES sent,        \* [Chans -> [Eps -> Nat]]   bytes written so far by the peer
          statusSent,  \* [Chans -> Statuses \cup {None}]
          wire,        \* Seq of messages in flight (all channels, one FIFO)
          buf,         \* [Chans -> [Eps -> Seq(run)]]  in_buffer / in_stderr_buffer
          got,         \* [Chans -> [Eps -> Seq(run)]]  what recv / recv_stderr returned so far
          combine,     \* [Chans -> BOOLEAN]            Channel.combine_stderr
          swpc,        \* [Chans -> {"off","moved","on","offagain"}] progress of set_combine_stderr(True);
                       \* "offagain": set_combine_stderr(False) has returned after an earlier switch on
          offAt,       \* [Chans -> Nat]  how many stderr bytes the peer had written when combining was switched
                       \* off again (0 before): anything the peer writes to stderr from there on was written
                       \* while combining is off
          moved,       \* [Chans -> Seq(run)]  old stderr bytes held by the switching thread
          tpc,         \* transport thread inside _feed_extended: <<>> or <<[m, flag]>>
          status,      \* [Chans -> Statuses \cup {None}]  exit status register at the reader
          pstate,      \* [Chans -> {"open","eof","closed"}]  what the peer has sent: EOF (shutdown_write), CLOSE
          statusEv,    \* [Chans -> BOOLEAN]  Channel.status_event (what recv_exit_status waits for)
          reported,    \* [Chans -> status | None | Unread]  what recv_exit_status() returned to the application
          win,         \* [Chans -> Nat]  what is left of the peer's send window (stays 0 when Window = 0)
          shut         \* [Chans -> BOOLEAN]  the peer's EOF or CLOSE has been processed here: _handle_eof /
                       \* _set_closed have called close() on in_buffer and in_stderr_buffer
vars == <<sent, statusSent, wire, buf, got, combine, swpc, offAt, moved, tpc, status, pstate, shut, statusEv, reported, win>>

(* ------------------------------------------------------------------ runs *)
Run(c, s, pos, n) == [c |-> c, s |-> s, pos |-> pos, n |-> n]

RECURSIVE Bytes(_)
Bytes(q) == IF q = <<>> THEN 0 ELSE Head(q).n + Bytes(Tail(q))

RECURSIVE TakeBytes(_, _)
TakeBytes(q, k) == IF k = 0 \/ q = <<>> THEN <<>>
                   ELSE LET h == Head(q) IN
                        IF h.n <= k THEN <<h>> \o TakeBytes(Tail(q), k - h.n)
                        ELSE <<[h EXCEPT !.n = k]>>
RECURSIVE DropBytes(_, _)
DropBytes(q, k) == IF k = 0 \/ q = <<>> THEN q
                   ELSE LET h == Head(q) IN
                        IF h.n <= k THEN DropBytes(Tail(q), k - h.n)
                        ELSE <<[h EXCEPT !.n = h.n - k, !.pos = h.pos + k]>> \o Tail(q)

\* b continues a: the next byte of the same origin stream
Follows(a, b) == b.pos = a.pos + a.n
\* read results are kept coalesced: a run that continues the last one extends it
AppendRun(q, r) == IF q # <<>> /\ q[Len(q)].c = r.c /\ q[Len(q)].s = r.s /\ Follows(q[Len(q)], r)
                   THEN [q EXCEPT ![Len(q)].n = @ + r.n] ELSE Append(q, r)
RECURSIVE AppendRuns(_, _)
AppendRuns(q, rs) == IF rs = <<>> THEN q ELSE AppendRuns(AppendRun(q, Head(rs)), Tail(rs))

Of(q, c, s) == SelectSeq(q, LAMBDA r : r.c = c /\ r.s = s)      \* the runs of one origin stream
\* q is the origin stream from offset `start` on, without gap, repetition or reordering
Contiguous(q, start) == \A j \in 1..Len(q) : IF j = 1 THEN q[j].pos = start ELSE Follows(q[j - 1], q[j])

(* ------------------------------------------------------------------ behaviour *)
Init == /\ sent = [c \in Chans |-> [e \in Eps |-> 0]]
        /\ statusSent = [c \in Chans |-> None]
        /\ wire = <<>>
        /\ buf = [c \in Chans |-> [e \in Eps |-> <<>>]]
        /\ got = [c \in Chans |-> [e \in Eps |-> <<>>]]
        /\ combine = [c \in Chans |-> FALSE]
        /\ swpc = [c \in Chans |-> "off"]
        /\ offAt = [c \in Chans |-> 0]
        /\ moved = [c \in Chans |-> <<>>]
        /\ tpc = <<>>
        /\ status = [c \in Chans |-> None]
        /\ pstate = [c \in Chans |-> "open"]
        /\ shut = [c \in Chans |-> FALSE]
        /\ statusEv = [c \in Chans |-> FALSE]
        /\ reported = [c \in Chans |-> Unread]
        /\ win = [c \in Chans |-> Window]

\* ---- the peer (send / send_stderr / send_exit_status on its end of the channel)
\* One send() / send_stderr() of the peer: it takes at most what is left of the window (a short count when the
\* caller offered more).  sendall() is a loop of these; the peer's stream position sent[c][s] moves by what was
\* handed over.  Mutation "sendall_skips_short_slice": sendall offers a slice of n bytes, send() takes only the
\* k < n that fit into the window, and the loop carries on after the whole slice.
Room(c) == IF Window = 0 THEN MaxMsg ELSE win[c]
PeerWrite(c, s, n) ==
  /\ statusSent[c] = None /\ pstate[c] = "open"
  /\ sent[c][s] + n <= MaxBytes
  /\ Room(c) >= 1
  /\ LET k == IF n <= Room(c) THEN n ELSE Room(c) IN
       /\ (k < n => Mutation = "sendall_skips_short_slice")      \* a faithful sendall offers the rest again
       /\ wire' = Append(wire, Run(c, s, sent[c][s], k))
       /\ win' = IF Window = 0 THEN win ELSE [win EXCEPT ![c] = @ - k]
  /\ sent' = [sent EXCEPT ![c][s] = @ + n]
  /\ UNCHANGED <<statusSent, buf, got, combine, swpc, offAt, moved, tpc, status, pstate, shut, statusEv, reported>>

PeerExit(c, v) ==
  /\ statusSent[c] = None /\ pstate[c] # "closed"
  /\ statusSent' = [statusSent EXCEPT ![c] = v]
  /\ wire' = Append(wire, Run(c, "exit", v, 0))
  /\ UNCHANGED <<sent, buf, got, combine, swpc, offAt, moved, tpc, status, pstate, shut, statusEv, reported, win>>

\* shutdown_write() / close() on the peer's end: CHANNEL_EOF, CHANNEL_CLOSE (no data after either)
PeerEof(c) ==
  /\ pstate[c] = "open"
  /\ pstate' = [pstate EXCEPT ![c] = "eof"]
  /\ wire' = Append(wire, Run(c, "eof", 0, 0))
  /\ UNCHANGED <<sent, statusSent, buf, got, combine, swpc, offAt, moved, tpc, status, shut, statusEv, reported, win>>
PeerClose(c) ==
  /\ pstate[c] # "closed"
  /\ pstate' = [pstate EXCEPT ![c] = "closed"]
  /\ wire' = Append(wire, Run(c, "close", 0, 0))
  /\ UNCHANGED <<sent, statusSent, buf, got, combine, swpc, offAt, moved, tpc, status, shut, statusEv, reported, win>>

\* BufferedPipe.feed: a pipe that has been closed still takes data (set_combine_stderr relies on it when the
\* switch comes after the peer's EOF / CLOSE)
Fed(q, c, rs) == IF Mutation = "drop_when_closed" /\ shut[c] THEN q ELSE q \o rs

\* ---- the transport thread: dispatch of the head message (transport.py run loop -> Channel._feed*)
Dest(c) == IF Mutation = "wrong_channel" /\ Cardinality(Chans) > 1 THEN CHOOSE d \in Chans : d # c ELSE c

FeedOut ==
  /\ tpc = <<>> /\ wire # <<>> /\ Head(wire).s = "out"
  /\ LET m == Head(wire) IN buf' = [buf EXCEPT ![Dest(m.c)].out = Fed(@, Dest(m.c), <<m>>)]
  /\ wire' = Tail(wire)
  /\ UNCHANGED <<sent, statusSent, got, combine, swpc, offAt, moved, tpc, status, pstate, shut, statusEv, reported, win>>

Route(m, flag) ==
  IF flag /\ Mutation # "ignore_combine"
  THEN buf' = [buf EXCEPT ![m.c].out = Fed(@, m.c, <<m>>)]
  ELSE buf' = [buf EXCEPT ![m.c].err = Fed(@, m.c, <<m>>)]

\* repaired design: flag test and feed under the channel lock
FeedExtAtomic ==
  /\ AtomicCombine
  /\ tpc = <<>> /\ wire # <<>> /\ Head(wire).s = "err"
  /\ swpc[Head(wire).c] # "moved"              \* (never "moved" when AtomicCombine)
  /\ Route(Head(wire), combine[Head(wire).c])
  /\ wire' = Tail(wire)
  /\ UNCHANGED <<sent, statusSent, got, combine, swpc, offAt, moved, tpc, status, pstate, shut, statusEv, reported, win>>

\* pinned code: `if self.combine_stderr:` ... then the feed, no lock
FeedExtTest ==
  /\ ~AtomicCombine
  /\ tpc = <<>> /\ wire # <<>> /\ Head(wire).s = "err"
  /\ tpc' = <<[m |-> Head(wire), flag |-> combine[Head(wire).c]]>>
  /\ wire' = Tail(wire)
  /\ UNCHANGED <<sent, statusSent, buf, got, combine, swpc, offAt, moved, status, pstate, shut, statusEv, reported, win>>
FeedExtFeed ==
  /\ tpc # <<>> /\ tpc[1].m.s = "err"
  /\ Route(tpc[1].m, tpc[1].flag)
  /\ tpc' = <<>>
  /\ UNCHANGED <<sent, statusSent, wire, got, combine, swpc, offAt, moved, status, pstate, shut, statusEv, reported, win>>

\* Channel._handle_request("exit-status"): two statements of the transport thread, a waiter may run in between
\*     self.exit_status = m.get_int()        (Store)
\*     self.status_event.set()               (Signal)
\* tpc holds the message between the two (flag is not used)
Received(v) == CASE Mutation = "status_low_limb" -> <<0, v[2]>>               \* keeps the low 16 bits only
                 [] Mutation = "status_signed" /\ v[1] >= 32768 -> <<-2, -2>>  \* top bit read as a sign: another number
                 [] OTHER -> v
Store(c, v) == status' = [status EXCEPT ![c] = Received(v)] /\ UNCHANGED statusEv
Signal(c) == statusEv' = [statusEv EXCEPT ![c] = TRUE] /\ UNCHANGED status
ExitStatus1 ==
  /\ tpc = <<>> /\ wire # <<>> /\ Head(wire).s = "exit"
  /\ tpc' = <<[m |-> Head(wire), flag |-> FALSE]>>
  /\ wire' = Tail(wire)
  /\ (IF EventBeforeStatus THEN Signal(Head(wire).c) ELSE Store(Head(wire).c, Head(wire).pos))
  /\ UNCHANGED <<sent, statusSent, buf, got, combine, swpc, offAt, moved, pstate, shut, reported, win>>
ExitStatus2 ==
  /\ tpc # <<>> /\ tpc[1].m.s = "exit"
  /\ tpc' = <<>>
  /\ (IF EventBeforeStatus THEN Store(tpc[1].m.c, tpc[1].m.pos) ELSE Signal(tpc[1].m.c))
  /\ UNCHANGED <<sent, statusSent, wire, buf, got, combine, swpc, offAt, moved, pstate, shut, reported, win>>
\* application: recv_exit_status() - waits for status_event, then returns exit_status
RecvExitStatus(c) ==
  /\ statusEv[c] /\ reported[c] = Unread
  /\ reported' = [reported EXCEPT ![c] = status[c]]
  /\ UNCHANGED <<sent, statusSent, wire, buf, got, combine, swpc, offAt, moved, tpc, status, pstate, shut, statusEv, win>>

\* Channel._handle_eof / _handle_close: both pipes are closed (readers get EOF once they are empty)
EofOrClose ==
  /\ tpc = <<>> /\ wire # <<>> /\ Head(wire).s \in {"eof", "close"}
  /\ shut' = [shut EXCEPT ![Head(wire).c] = TRUE]
  /\ wire' = Tail(wire)
  /\ UNCHANGED <<sent, statusSent, buf, got, combine, swpc, offAt, moved, tpc, status, pstate, statusEv, reported, win>>

\* ---- application threads
Recv(c, ep, k) ==
  /\ buf[c][ep] # <<>>
  /\ got' = [got EXCEPT ![c][ep] = AppendRuns(@, TakeBytes(buf[c][ep], k))]
  /\ buf' = [buf EXCEPT ![c][ep] = DropBytes(@, IF Mutation = "skip_byte" THEN k + 1 ELSE k)]
  \* consumed bytes are granted back (CHANNEL_WINDOW_ADJUST; the 10 % threshold and the delay are abstracted away)
  /\ win' = IF Window = 0 THEN win ELSE [win EXCEPT ![c] = @ + Bytes(TakeBytes(buf[c][ep], k))]
  /\ UNCHANGED <<sent, statusSent, wire, combine, swpc, offAt, moved, tpc, status, pstate, shut, statusEv, reported>>

Old(c) == IF Mutation = "lose_old" THEN <<>> ELSE buf[c].err

\* repaired design: set_combine_stderr(True) moves the old bytes while holding the channel lock
CombineAtomic(c) ==
  /\ AtomicCombine /\ swpc[c] = "off"
  /\ combine' = [combine EXCEPT ![c] = TRUE]
  /\ buf' = [buf EXCEPT ![c].out = Fed(@, c, Old(c)), ![c].err = <<>>]
  /\ swpc' = [swpc EXCEPT ![c] = "on"]
  /\ UNCHANGED <<sent, statusSent, wire, got, moved, offAt, tpc, status, pstate, shut, statusEv, reported, win>>

\* pinned code: [lock: flag := TRUE; data := stderr.empty()] ... _feed(data)
CombineTake(c) ==
  /\ ~AtomicCombine /\ swpc[c] = "off"
  /\ combine' = [combine EXCEPT ![c] = TRUE]
  /\ moved' = [moved EXCEPT ![c] = Old(c)]
  /\ buf' = [buf EXCEPT ![c].err = <<>>]
  /\ swpc' = [swpc EXCEPT ![c] = "moved"]
  /\ UNCHANGED <<sent, statusSent, wire, got, offAt, tpc, status, pstate, shut, statusEv, reported, win>>
CombineRefeed(c) ==
  /\ swpc[c] = "moved"
  /\ buf' = [buf EXCEPT ![c].out = Fed(@, c, moved[c])]
  /\ moved' = [moved EXCEPT ![c] = <<>>]
  /\ swpc' = [swpc EXCEPT ![c] = "on"]
  /\ UNCHANGED <<sent, statusSent, wire, got, combine, offAt, tpc, status, pstate, shut, statusEv, reported, win>>

\* set_combine_stderr(False) after an earlier set_combine_stderr(True): one critical section of the channel lock,
\* the flag goes back to FALSE; what is already in in_buffer stays there.  `combine` is what _feed_extended
\* consults.  Mutation "sink_never_reset": the destination of stderr data is cached when combining is switched
\* on and nothing points it back - the public flag reads FALSE, _feed_extended keeps feeding in_buffer.
CombineOff(c) ==
  /\ AllowOff /\ swpc[c] = "on"
  /\ combine' = [combine EXCEPT ![c] = (Mutation = "sink_never_reset")]
  /\ swpc' = [swpc EXCEPT ![c] = "offagain"]
  /\ offAt' = [offAt EXCEPT ![c] = sent[c].err]
  /\ UNCHANGED <<sent, statusSent, wire, buf, got, moved, tpc, status, pstate, shut, statusEv, reported, win>>

Next == \/ \E c \in Chans, s \in Eps, n \in 1..MaxMsg : PeerWrite(c, s, n)
        \/ \E c \in Chans, v \in Statuses : PeerExit(c, v)
        \/ \E c \in Chans : PeerEof(c) \/ PeerClose(c)
        \/ FeedOut \/ FeedExtAtomic \/ FeedExtTest \/ FeedExtFeed \/ ExitStatus1 \/ ExitStatus2 \/ EofOrClose
        \/ \E c \in Chans : RecvExitStatus(c)
        \/ \E c \in Chans, ep \in Eps, k \in ReadSizes : Recv(c, ep, k)
        \/ \E c \in Chans : CombineAtomic(c) \/ CombineTake(c) \/ CombineRefeed(c) \/ CombineOff(c)
Spec == Init /\ [][Next]_vars

(* ------------------------------------------------------------------ the property *)
AllRuns(c) == got[c].out \o got[c].err \o buf[c].out \o buf[c].err \o moved[c]
\* nothing of another channel ever shows up on channel c
RightChannel == \A c \in Chans : \A j \in 1..Len(AllRuns(c)) : AllRuns(c)[j].c = c
\* stdout bytes only on the stdout endpoint; stderr bytes on the stdout endpoint only once combining was asked for
RightStream == \A c \in Chans :
                 /\ \A j \in 1..Len(got[c].err) : got[c].err[j].s = "err"
                 /\ (swpc[c] = "off" => \A j \in 1..Len(got[c].out) : got[c].out[j].s = "out")
                 \* combining switched off again: what the peer writes to stderr from then on is not on stdout
                 /\ (swpc[c] = "offagain" => LET q == Of(got[c].out \o buf[c].out, c, "err") IN
                                               \A j \in 1..Len(q) : q[j].pos + q[j].n <= offAt[c])
\* stdout: exactly the written bytes, in order
OutInOrder == \A c \in Chans : Contiguous(Of(got[c].out, c, "out"), 0)
\* stderr: what recv_stderr returned, continued by the stderr bytes that recv returned, is the written stream
\* (after on -> off again the stderr stream is split between the two endpoints at switch points the reader
\* cannot see: each endpoint's share is in order without repetition, Lossless says the shares add up)
Increasing(q) == \A j \in 2..Len(q) : q[j].pos >= q[j - 1].pos + q[j - 1].n
ErrInOrder == \A c \in Chans : IF swpc[c] = "offagain"
                                THEN Increasing(Of(got[c].err, c, "err")) /\ Increasing(Of(got[c].out, c, "err"))
                                ELSE Contiguous(Of(got[c].err, c, "err") \o Of(got[c].out, c, "err"), 0)
\* once set_combine_stderr(True) has returned nothing is left for, or added to, the stderr endpoint
CombinedMeansNoStderr == \A c \in Chans : swpc[c] = "on" => buf[c].err = <<>>
\* nothing is lost: when everything written has been delivered and read, every byte was returned
Drained(c) == /\ \A j \in 1..Len(wire) : wire[j].c # c
              /\ (tpc = <<>> \/ tpc[1].m.c # c)
              /\ buf[c].out = <<>> /\ buf[c].err = <<>> /\ moved[c] = <<>>
Lossless == \A c \in Chans : Drained(c) =>
              /\ Bytes(Of(got[c].out, c, "out")) = sent[c].out
              /\ Bytes(Of(got[c].err, c, "err")) + Bytes(Of(got[c].out, c, "err")) = sent[c].err
\* the exit status reported is the one the peer sent
ExitStatusRight == \A c \in Chans :
                     /\ status[c] # None => status[c] = statusSent[c] /\ status[c] \in Status
                     /\ reported[c] # Unread => reported[c] = statusSent[c]       \* incl.: never "no status" (-1)

TypeOK == /\ \A c \in Chans : sent[c].out \in 0..MaxBytes /\ sent[c].err \in 0..MaxBytes
          /\ \A c \in Chans : swpc[c] \in {"off", "moved", "on", "offagain"}
          /\ Len(tpc) <= 1
=============================================================================
