---------------------------- MODULE Shutdown_Gen ----------------------------
(* spec -> code: the schedules the driver can realise on real transports, one per `plan`, and what the      *)
(* design spec says about each.  A plan fixes where the call is relative to the loss:                        *)
(*   before        the call runs until it blocks (or ends), then the loss happens                            *)
(*   mid           the call is stopped at its last statement before the wait (MidPoint; for ensure_session   *)
(*                 at the top of its sleep loop) while the connection is lost and `active` cleared, then     *)
(*                 goes on                                                                                    *)
(*   midlock       a channel request is stopped inside _event_pending, about to take Channel.lock, while the  *)
(*                 connection is lost, then goes on                                                           *)
(*   at_unlink / at_pclose / at_sockclose                                                                     *)
(*                 the shutdown is stopped before that statement, the call is made and runs until it blocks  *)
(*                 (or ends), then the shutdown goes on                                                       *)
(*   after         the call is made when the shutdown has completed                                           *)
(* The peer never answers and no timeout expires.  Every terminal state prints one CASE per caller.          *)
EXTENDS Shutdown
VARIABLE plan

Plans == {"before", "mid", "midlock", "at_unlink", "at_pclose", "at_sockclose", "after"}

MidPoint(f) == CASE f = "chanreq" -> "req_clear"
                 [] f = "open" -> "oc_send"
                 [] f = "global" -> "gr_send"
                 [] f = "rekey" -> "rk_send"
                 [] f = "auth" -> "au_req"
                 [] f = "srtauth" -> "es_sleep"     \* SERVICE_REQUEST is out, the answer is not in
                 [] OTHER -> "none"

(* midlock: a channel request is stopped inside _event_pending, about to take Channel.lock *)
LockPoint(f) == IF f = "chanreq" THEN "req_lock" ELSE "none"
PointOf(p, f) == IF p = "midlock" THEN LockPoint(f) ELSE MidPoint(f)

Settled(w) == wpc[w] = "done" \/ (Started(w) /\ ~ENABLED WStep(w))
AtMid(w) == wpc[w] = PointOf(plan[w], Family(wapi[w]))

(* all callers of one run follow the same plan *)
GInit == Init /\ \E p \in Plans : plan = [w \in W |-> p]

GCall(w, a, m) ==
  /\ Call(w, a, m)
  /\ CASE plan[w] = "before" -> loss = "none"
       [] plan[w] \in {"mid", "midlock"} -> loss = "none" /\ PointOf(plan[w], Family(a)) # "none"
       [] plan[w] = "at_unlink" -> tt = "sd_unlink"
       [] plan[w] = "at_pclose" -> tt = "sd_pclose" \/ cl = "cl_pclose"
       [] plan[w] = "at_sockclose" -> tt = "sd_sockclose"
       [] plan[w] = "after" -> ShutdownComplete

GLose(k) ==
  /\ Lose(k)
  /\ \A w \in W : /\ plan[w] = "before" => Settled(w)
                  /\ plan[w] \in {"mid", "midlock"} => AtMid(w)

Held(w, p) == plan[w] = p /\ ~Settled(w)
GTT == /\ TTStep
       /\ ~\E w \in W : \/ tt = "sd_unlink" /\ Held(w, "at_unlink")
                        \/ tt = "sd_pclose" /\ Held(w, "at_pclose")
                        \/ tt = "sd_sockclose" /\ Held(w, "at_sockclose")
GCL == /\ CLStep
       /\ ~\E w \in W : cl = "cl_pclose" /\ Held(w, "at_pclose")
GW(w) == /\ WStep(w)
         /\ ~(plan[w] \in {"mid", "midlock"} /\ AtMid(w) /\ active)

GNext == /\ \/ \E k \in LossKinds : GLose(k)
            \/ GTT \/ GCL
            \/ \E w \in W : (\E a \in Apis, m \in Modes : GCall(w, a, m)) \/ GW(w)
         /\ plan' = plan

GSpec == GInit /\ [][GNext]_<<vars, plan>>

Term == ShutdownComplete /\ \A w \in W : Settled(w)
Emit == Term => \A w \in W :
          PrintT(<<"CASE", N, wapi[w], wmode[w], loss, plan[w], IF wpc[w] = "done" THEN wres[w] ELSE "stuck">>)
=============================================================================
