---------------------------- MODULE RekeyCounters ----------------------------
(* C10.  The re-key bookkeeping of one endpoint:                                 *)
(*   Packetizer.send_message / read_message counters, _trigger_rekey,            *)
(*   NeedRekeyException on an idle read, the overflow allowance, the reset in    *)
(*   set_outbound_cipher / set_inbound_cipher (paramiko/packet.py) and the run   *)
(*   loop of Transport that turns need_rekey into a KEXINIT, _negotiate_keys,    *)
(*   _activate_outbound, _parse_newkeys (paramiko/transport.py).                 *)
(* The peer is the environment: it sends data whenever it likes, starts key      *)
(* exchanges of its own, and either answers our KEXINIT (coop) or never does.    *)
(* The key exchange proper is abstracted to KEXINIT, NEWKEYS in each direction.  *)
EXTENDS Naturals, Sequences, TLC

CONSTANTS RPs, RBs,        \* values of REKEY_PACKETS, REKEY_BYTES explored
          OPs, OBs,        \* values of REKEY_PACKETS_OVERFLOW_MAX, REKEY_BYTES_OVERFLOW_MAX explored
          Lens,            \* packet sizes explored
          Coops,           \* subset of BOOLEAN: kinds of peer explored (TRUE = answers KEXINIT)
          MaxWire,         \* bound on unread peer packets (model checking only)
          Slack,           \* how far user threads can run past a threshold before the transport thread reacts
          ResetOnSet,      \* FALSE = mutation: set_*_cipher does not reset the counters
          AskOnce,         \* FALSE = mutation: send_message re-triggers (and clears the overflow counters) on every
                           \*         packet written past the limit, not only when it newly raises need_rekey
          CheckOverflow    \* FALSE = mutation: the overflow test is dropped

VARIABLES lim,             \* [rp, rb, op, ob]: the four limits of this Packetizer (instance attributes), fixed
          coop,
          sp, sb, rp, rb,  \* sent / received packets, bytes under the current keys
          op, ob,          \* received packets / bytes since we asked for a re-key (the code's overflow counters)
          gp, gb,          \* the same quantity counted by the specification itself (ghost): what the allowance is about
          need,            \* Packetizer.__need_rekey
          initc,           \* Packetizer.__init_count (bit 1 = outbound switched, bit 2 = inbound switched)
          inkex,           \* Transport.in_kex
          cts,             \* Transport.clear_to_send (user threads may send)
          haveinit,        \* Transport.local_kex_init is not None (our KEXINIT of this round is out)
          alive,           \* transport thread running
          tloc,            \* transport thread: "top" of the run loop | "read" inside read_message | "work" sending
          todo,            \* packets the transport thread still has to send for the message it is handling
          wire,            \* peer -> us, unread
          pinit, pnew,     \* peer: its KEXINIT / NEWKEYS of the current round is on the wire or was read
          kexdone          \* the first key exchange is complete (encryption is on)
pvars == <<sp, sb, rp, rb, op, ob, gp, gb, need, initc>>
vars  == <<lim, coop, pvars, inkex, cts, haveinit, alive, tloc, todo, wire, pinit, pnew, kexdone>>

RP == lim.rp
RB == lim.rb
OP == lim.op
OB == lim.ob
InitRest ==
        /\ sp = 0 /\ sb = 0 /\ rp = 0 /\ rb = 0 /\ op = 0 /\ ob = 0 /\ gp = 0 /\ gb = 0 /\ need = FALSE /\ initc = 0
        /\ inkex = FALSE /\ cts = TRUE /\ haveinit = FALSE /\ alive = TRUE
        /\ tloc = "start" /\ todo = <<>> /\ wire = <<>> /\ pinit = FALSE /\ pnew = FALSE /\ kexdone = FALSE
Init == lim \in [rp : RPs, rb : RBs, op : OPs, ob : OBs] /\ coop \in Coops /\ InitRest

(* ---- Packetizer ---- *)
\* send_message, after the write: `if sent_too_much and not self.__need_rekey:` - the re-key is asked for ONCE;
\* only then are the overflow counters cleared (they measure what the peer sends after being asked)
TriggerOnSend(p, bts) ==
    /\ IF (p >= RP \/ bts >= RB) /\ (~need \/ ~AskOnce)
         THEN need' = TRUE /\ op' = 0 /\ ob' = 0
         ELSE UNCHANGED <<need, op, ob>>
    /\ IF (p >= RP \/ bts >= RB) /\ ~need THEN gp' = 0 /\ gb' = 0 ELSE UNCHANGED <<gp, gb>>
\* send_message: counters, then the trigger
Count(len) == /\ sp' = sp + 1 /\ sb' = sb + len
              /\ TriggerOnSend(sp + 1, sb + len)
\* read_message: counters; packets received after we asked for a re-key count against the allowance
CountRecv(len) == /\ rp' = rp + 1 /\ rb' = rb + len
                  /\ IF need THEN /\ op' = op + 1 /\ ob' = ob + len /\ need' = need
                                  /\ gp' = gp + 1 /\ gb' = gb + len
                             ELSE IF rp + 1 >= RP \/ rb + len >= RB
                                    THEN need' = TRUE /\ op' = 0 /\ ob' = 0 /\ gp' = 0 /\ gb' = 0
                                    ELSE UNCHANGED <<need, op, ob, gp, gb>>
\* ... and when the allowance is used up read_message raises instead of returning
Overflows(len) == need /\ CheckOverflow /\ (op + 1 >= OP \/ ob + len >= OB)
\* set_outbound_cipher
SetOut == /\ IF ResetOnSet THEN sp' = 0 /\ sb' = 0 ELSE UNCHANGED <<sp, sb>>
          /\ IF initc = 2 THEN initc' = 0 /\ need' = FALSE ELSE initc' = 1 /\ need' = need
\* set_inbound_cipher
SetIn  == /\ IF ResetOnSet THEN rp' = 0 /\ rb' = 0 /\ op' = 0 /\ ob' = 0 /\ gp' = 0 /\ gb' = 0
                           ELSE UNCHANGED <<rp, rb, op, ob, gp, gb>>
          /\ IF initc = 1 THEN initc' = 0 /\ need' = FALSE ELSE initc' = 2 /\ need' = need

(* ---- user threads: _send_user_message waits for clear_to_send ---- *)
UserSend(len) == /\ alive /\ cts /\ sp < RP + Slack /\ sb < RB + Slack
                 /\ Count(len)
                 /\ UNCHANGED <<lim, coop, rp, rb, initc, inkex, cts, haveinit, alive, tloc, todo, wire, pinit, pnew, kexdone>>

(* ---- transport thread ---- *)
\* run(): banner, then the first _send_kex_init unconditionally
Begin == /\ alive /\ tloc = "start"
         /\ inkex' = TRUE /\ cts' = FALSE /\ haveinit' = TRUE
         /\ \E len \in Lens : Count(len)
         /\ tloc' = "read"
         /\ UNCHANGED <<lim, coop, rp, rb, initc, alive, todo, wire, pinit, pnew, kexdone>>
\* top of the run loop: `if self.packetizer.need_rekey() and not self.in_kex: self._send_kex_init()`
StartKex == /\ alive /\ tloc = "top" /\ need /\ ~inkex
            /\ inkex' = TRUE /\ cts' = FALSE /\ haveinit' = TRUE
            /\ \E len \in Lens : Count(len)                       \* the KEXINIT packet
            /\ tloc' = "read"
            /\ UNCHANGED <<lim, coop, rp, rb, initc, alive, todo, wire, pinit, pnew, kexdone>>
EnterRead == /\ alive /\ tloc = "top" /\ ~(need /\ ~inkex)
             /\ tloc' = "read"
             /\ UNCHANGED <<lim, coop, pvars, inkex, cts, haveinit, alive, todo, wire, pinit, pnew, kexdone>>
\* read_all(check_rekey=True): socket timeout, nothing read yet, re-key wanted -> NeedRekeyException -> `continue`
IdleRead == /\ alive /\ tloc = "read" /\ wire = <<>> /\ need
            /\ tloc' = "top"
            /\ UNCHANGED <<lim, coop, pvars, inkex, cts, haveinit, alive, todo, wire, pinit, pnew, kexdone>>
\* read_message returns (or raises): counters, overflow allowance, threshold
ReadMessage ==
    /\ alive /\ tloc = "read" /\ wire # <<>>
    /\ LET m == Head(wire) IN
       /\ wire' = Tail(wire)
       /\ CountRecv(m.len)
       /\ IF Overflows(m.len)
            THEN \* SSHException("Remote transport is ignoring rekey requests"): the run loop ends
                 /\ alive' = FALSE /\ tloc' = "top" /\ todo' = <<>>
                 /\ UNCHANGED <<inkex, cts, haveinit>>
            ELSE /\ alive' = alive
                 /\ CASE m.t = "kexinit" ->   \* _negotiate_keys: answer if we have not sent ours, then the exchange runs
                           /\ cts' = FALSE /\ inkex' = TRUE /\ haveinit' = TRUE
                           /\ todo' = (IF haveinit THEN <<>> ELSE <<"kexinit">>) \o <<"newkeys">>
                           /\ tloc' = "work"
                      [] m.t = "newkeys" ->   \* _parse_newkeys: _activate_inbound is done in HandleNewkeys
                           /\ todo' = <<"setin">> /\ tloc' = "work"
                           /\ UNCHANGED <<inkex, cts, haveinit>>
                      [] OTHER ->             \* channel data etc.: possibly a reply (window adjust)
                           /\ \/ todo' = <<>> /\ tloc' = "top"
                              \/ todo' = <<"reply">> /\ tloc' = "work"
                           /\ UNCHANGED <<inkex, cts, haveinit>>
    /\ UNCHANGED <<lim, coop, sp, sb, initc, pinit, pnew, kexdone>>
\* the transport thread sends what handling the last message requires
Work ==
    /\ alive /\ tloc = "work" /\ todo # <<>>
    /\ LET x == Head(todo) IN
       /\ todo' = Tail(todo)
       /\ tloc' = IF Tail(todo) = <<>> THEN "top" ELSE "work"
       /\ CASE x = "setin" ->      \* _activate_inbound; `if not need_rekey: in_kex = False`; clear_to_send.set()
                 /\ SetIn /\ UNCHANGED <<sp, sb>>
                 /\ inkex' = IF need' THEN inkex ELSE FALSE
                 /\ cts' = TRUE /\ haveinit' = FALSE
                 /\ pinit' = FALSE /\ pnew' = FALSE /\ kexdone' = TRUE
            [] x = "newkeys" ->    \* _activate_outbound: NEWKEYS under the old keys, then set_outbound_cipher
                 /\ \E len \in Lens :
                      LET sp1 == sp + 1  sb1 == sb + len
                          trig == (sp1 >= RP \/ sb1 >= RB) /\ (~need \/ ~AskOnce)
                          need1 == need \/ trig IN
                      /\ IF ResetOnSet THEN sp' = 0 /\ sb' = 0 ELSE sp' = sp1 /\ sb' = sb1
                      /\ IF trig THEN op' = 0 /\ ob' = 0 ELSE UNCHANGED <<op, ob>>
                      /\ IF trig /\ ~need THEN gp' = 0 /\ gb' = 0 ELSE UNCHANGED <<gp, gb>>
                      /\ IF initc = 2 THEN initc' = 0 /\ need' = FALSE ELSE initc' = 1 /\ need' = need1
                 /\ UNCHANGED <<rp, rb>>
                 /\ inkex' = IF need' THEN inkex ELSE FALSE
                 /\ UNCHANGED <<cts, haveinit, pinit, pnew, kexdone>>
            [] OTHER ->            \* "kexinit" (answering) or "reply"
                 /\ \E len \in Lens : Count(len)
                 /\ UNCHANGED <<rp, rb, initc, inkex, cts, haveinit, pinit, pnew, kexdone>>
    /\ UNCHANGED <<lim, coop, alive, wire>>

(* ---- the peer ---- *)
PeerData(len) == /\ Len(wire) < MaxWire /\ wire' = Append(wire, [t |-> "data", len |-> len])
                 /\ UNCHANGED <<lim, coop, pvars, inkex, cts, haveinit, alive, tloc, todo, pinit, pnew, kexdone>>
\* the peer's KEXINIT: its own initiative, or (cooperative peer) the answer to ours
PeerKexinit(len) == /\ Len(wire) < MaxWire /\ ~pinit /\ (coop \/ ~kexdone)   \* (everybody does the first exchange)
                    /\ wire' = Append(wire, [t |-> "kexinit", len |-> len]) /\ pinit' = TRUE
                    /\ UNCHANGED <<lim, coop, pvars, inkex, cts, haveinit, alive, tloc, todo, pnew, kexdone>>
\* the peer's NEWKEYS, once it has both KEXINITs
PeerNewkeys(len) == /\ Len(wire) < MaxWire /\ pinit /\ ~pnew /\ haveinit
                    /\ wire' = Append(wire, [t |-> "newkeys", len |-> len]) /\ pnew' = TRUE
                    /\ UNCHANGED <<lim, coop, pvars, inkex, cts, haveinit, alive, tloc, todo, pinit, kexdone>>
Next == \/ \E len \in Lens : UserSend(len) \/ PeerData(len) \/ PeerKexinit(len) \/ PeerNewkeys(len)
        \/ Begin \/ StartKex \/ EnterRead \/ IdleRead \/ ReadMessage \/ Work
Transport == Begin \/ StartKex \/ EnterRead \/ IdleRead \/ ReadMessage \/ Work
Spec == Init /\ [][Next]_vars
FairSpec == Spec /\ WF_vars(Transport) /\ WF_vars(\E len \in Lens : PeerData(len))

(* ---- properties ---- *)
TypeOK == /\ initc \in 0..2 /\ tloc \in {"start", "top", "read", "work"}
\* a packet that takes a counter to its threshold sets need_rekey (unless the connection is dropped by it)
AsksAtThreshold ==
    [][/\ (alive' /\ sp' > sp /\ (sp' >= RP \/ sb' >= RB)) => need'
       /\ (alive' /\ rp' > rp /\ (rp' >= RP \/ rb' >= RB)) => need']_vars
\* need_rekey leads to our KEXINIT (in_kex), or to the end of the connection
StartsKex == (need /\ ~inkex) ~> (inkex \/ ~alive \/ ~need)
\* both key switches restart their counters; the flag clears when both directions are switched
IsWork(x) == tloc = "work" /\ todo # <<>> /\ Head(todo) = x /\ todo' = Tail(todo)
CountersRestart ==
    [][/\ IsWork("newkeys") => (sp' = 0 /\ sb' = 0)
       /\ IsWork("setin")   => (rp' = 0 /\ rb' = 0 /\ op' = 0 /\ ob' = 0)
       /\ (initc # 0 /\ initc' = 0) => ~need']_vars
\* a peer that ignores the request is dropped no later than the packet that exhausts the allowance
OverflowTerminates == alive => (op < OP /\ ob < OB)
\* ... measured by what the peer really sent since it was asked, not by the code's own counters
AllowanceIsReal    == alive => (gp < OP /\ gb < OB)
RefuserDropped == (~coop /\ need /\ haveinit) ~> (~alive)
=============================================================================
