------------------------ MODULE SftpClientProto_Trace ------------------------
(* code -> spec for the client side (C28, C29, C30 client half).  A trace is one      *)
(* application program run on a real SFTPClient against a real SFTPServer that         *)
(* answers every request.  Record 1 describes the session, the others one call each:  *)
(*   [op |-> "init", size]                    size of the file opened for reading      *)
(*   [op |-> "seek", p, whence] / "prefetch" (maxc) / "read" (n; at, k) / "pause" /     *)
(*   "readv" (chunks, maxc; res = Seq of <<at, k>>) / "write" (count) / "sync" /       *)
(*   "writeB" (pipelined writes on a second file object of the same session) /         *)
(*   "closeW" (rejected = writes the server refused on that file) / "closeR" /         *)
(*   "put" / "get" (a whole transfer; fault = what the server did to one chunk:        *)
(*       none | write_rejected | read_failed | read_eof | short_reads |                 *)
(*       source_short_reads (putfo from a file-like whose read(n) returns < n bytes);   *)
(*       same = destination bytes equal source bytes, derived by the driver)            *)
(* every call record has out = "ok" | "exc" | "hang" (blocked, see the driver) and     *)
(* short = the server returned a short read during the call.                           *)
(* `at` is where the returned bytes occur in the served file (the driver looks them    *)
(* up; -1 = nowhere), k their number.  The position and the history flags that make   *)
(* up a finding's key (Cause, WFlags) are the spec's own state.                         *)
EXTENDS SftpClientProto, Json, IOUtils, TLCExt
Batch == JsonDeserialize(IOEnv.TRACE_FILE)
VARIABLES tid, l, bad, key,
          size, pos,        \* the read file and the position the next read starts at
          started,          \* _start_prefetch calls so far on the read file (prefetch / readv)
          wrote, syncd,     \* pipelined writes issued on the write file; a synchronous request came after one
          wraised,          \* a write()/close() on the write file has raised
          eofseen, shortseen, \* an earlier readv asked for a range at / past EOF; the server has returned a short read
          wroteB            \* a second pipelined file object of the session has been written to
tvars == <<tid, l, bad, key, size, pos, started, wrote, syncd, wraised, eofseen, shortseen, wroteB, vars>>
T == Batch[tid]
R == T[l]

\* ---- the requests a readv plans (Chunk = MAX_REQUEST_SIZE) ----
RECURSIVE Subreqs(_)
Subreqs(cs) == IF cs = <<>> THEN <<>> ELSE Split(Head(cs)[1], Head(cs)[2]) \o Subreqs(Tail(cs))
\* some request the call plans (chunks split at Chunk) starts at or after EOF: the server answers it with an EOF status
EofReq(cs) == LET sr == Subreqs(cs) IN \E i \in 1..Len(sr) : sr[i][1] >= size
\* what distinguishes a finding: the first of these that applies
\*   eof_request        the readv itself asks for a range at / past EOF
\*   after_eof_request  an earlier readv on this file did
\*   short_reads        the server has returned a short read on this file (now or earlier)
Cause == IF R.op = "readv" /\ EofReq(R.chunks) THEN "eof_request"
         ELSE IF eofseen THEN "after_eof_request"
         ELSE IF shortseen \/ R.short THEN "short_reads"
         ELSE "other"
Flag(b, s) == IF b THEN "+" \o s ELSE ""
WFlags == Flag(syncd, "sync_interleaved") \o Flag(wroteB, "second_file")
          \o Flag(wrote + (IF R.op = "write" THEN R.count ELSE 0) > 100, "over_100_writes")

\* ---- clauses ----
ReadClauses(p, want, at, k, vec) ==
  LET e == ExpectAt(size, p, want) IN
       (IF k > 0 /\ at # p THEN {"P_wrong_bytes"} ELSE {})
  \cup (IF k > e THEN {"P_too_many_bytes"} ELSE {})
  \cup (IF k < e /\ (vec \/ k = 0) THEN {IF vec THEN "P_short_chunk" ELSE "P_empty_before_eof"} ELSE {})
  \cup (IF k < e /\ ~vec /\ k > 0 THEN {"C_short_read"} ELSE {})
RECURSIVE VecClauses(_, _)
VecClauses(cs, res) == IF cs = <<>> \/ res = <<>> THEN {}
                       ELSE ReadClauses(Head(cs)[1], Head(cs)[2], Head(res)[1], Head(res)[2], TRUE)
                            \cup VecClauses(Tail(cs), Tail(res))
Blocked == IF R.out = "hang" THEN {"P_blocked"} ELSE {}
Clauses ==
  CASE R.op = "read"   -> Blocked \cup (IF R.out = "ok" THEN ReadClauses(pos, R.n, R.at, R.k, FALSE) ELSE {})
                                  \cup (IF R.out = "exc" THEN {"C_read_raised"} ELSE {})
    [] R.op = "readv"  -> Blocked \cup VecClauses(R.chunks, R.res)
                                  \cup (IF R.out = "ok" /\ Len(R.res) # Len(R.chunks) THEN {"P_short_chunk"} ELSE {})
                                  \cup (IF R.out = "exc" THEN {"C_readv_raised"} ELSE {})
    [] R.op = "closeW" -> Blocked \cup (IF R.out = "ok" /\ R.rejected > 0 /\ ~wraised THEN {"P_write_error_lost"} ELSE {})
    [] R.op \in {"put", "get"} ->
                          Blocked \cup (IF R.out = "ok" /\ ~R.same /\ R.fault # "read_eof" THEN {"P_silent_corruption"} ELSE {})
                                  \* an EOF status in the middle of a download is the server saying the file ends there
                                  \cup (IF R.out = "ok" /\ ~R.same /\ R.fault = "read_eof" THEN {"C_truncated_at_server_eof"} ELSE {})
                                  \cup (IF R.out = "exc" /\ R.fault = "none" THEN {"C_raised_without_fault"} ELSE {})
    [] OTHER           -> Blocked
Key ==
  CASE R.op \in {"readv", "read", "prefetch", "seek", "closeR"} -> R.op \o ":" \o Cause
    [] R.op \in {"write", "closeW", "sync"} -> R.op \o WFlags
    [] R.op \in {"put", "get"} -> R.op \o ":" \o R.fault \o Flag(R.op = "put" /\ R.confirm, "confirm") \o Flag(R.op = "get" /\ R.prefetch, "prefetch")
                                  \o Flag(R.second, "second_file")
    [] OTHER           -> R.op

LastRes == R.res[Len(R.res)]
TInit == /\ tid \in 1..Len(Batch) /\ l = 1 /\ bad = {} /\ key = ""
         /\ size = 0 /\ pos = 0 /\ started = 0 /\ wrote = 0 /\ syncd = FALSE /\ wraised = FALSE
         /\ eofseen = FALSE /\ shortseen = FALSE /\ wroteB = FALSE /\ Init
TNext ==
  /\ l <= Len(T) /\ l' = l + 1 /\ tid' = tid
  /\ IF R.op = "init"
       THEN /\ size' = R.size /\ bad' = {} /\ key' = "init"
            /\ UNCHANGED <<pos, started, wrote, syncd, wraised, eofseen, shortseen, wroteB>>
       ELSE /\ bad' = Clauses /\ key' = Key /\ UNCHANGED size
            /\ pos' = CASE R.op = "seek" /\ R.out = "ok" ->
                               (CASE R.whence = 0 -> R.p [] R.whence = 1 -> pos + R.p [] OTHER -> size + R.p)
                        [] R.op = "read" /\ R.out = "ok" -> pos + R.k
                        [] R.op = "readv" /\ R.res # <<>> -> R.chunks[Len(R.res)][1] + LastRes[2]
                        [] OTHER -> pos
            /\ started' = IF R.op \in {"prefetch", "readv"} THEN started + 1 ELSE started
            /\ wrote' = IF R.op = "write" THEN wrote + R.count ELSE wrote
            /\ syncd' = (syncd \/ (R.op \in {"sync", "read", "readv", "prefetch"} /\ wrote > 0))
            /\ wraised' = (wraised \/ (R.op \in {"write", "closeW"} /\ R.out = "exc"))
            /\ eofseen' = (eofseen \/ (R.op = "readv" /\ EofReq(R.chunks)))
            /\ shortseen' = (shortseen \/ R.short)
            /\ wroteB' = (wroteB \/ R.op = "writeB")
  /\ UNCHANGED vars
TSpec == TInit /\ [][TNext]_tvars
Report == /\ (bad # {} => PrintT(<<"VERDICT", tid, l - 1, key, bad>>))
          /\ (l = Len(T) + 1 => PrintT(<<"DONE", tid>>))
=============================================================================
