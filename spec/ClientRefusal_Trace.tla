------------------------- MODULE ClientRefusal_Trace -------------------------
(* code -> spec for C18.  One trace = one real client session (netsched); each record  *)
(* is one step of a history: a client operation (with whether the scripted server       *)
(* granted it) or one server-initiated event, with what the real client did:            *)
(*   reply     first connection-layer reply the server's tap saw before the marker      *)
(*             ("REQUEST_FAILURE", "OPEN_SUCCESS", ..., "none")                          *)
(*   accepted  a channel for this event appeared at the client (channel table, accept   *)
(*             queue or forwarding handler)                                              *)
(*   raised    the client operation raised                                               *)
(* The step of the design spec named by the record is taken (its ghosts say what the     *)
(* client has enabled); the verdict operators of ClientRefusal are applied to the        *)
(* OBSERVED answer.  C_ clauses compare the observation with the answer the model        *)
(* predicts.                                                                             *)
EXTENDS ClientRefusal, Json, IOUtils, TLCExt
Batch == JsonDeserialize(IOEnv.TRACE_FILE)
VARIABLES tid, l, bad
tvars == <<tid, l, bad, vars>>
T == Batch[tid].steps
E == T[l]
TInit == tid \in 1..Len(Batch) /\ l = 1 /\ bad = {} /\ Init
Seen(e) == Obs(e.op, e.arg, e.flag, e.reply, e.accepted)
IsEvent(e) == e.op \in {"global", "open", "chanreq"}
Taken ==
  /\ Step(E.op, E.arg, E.flag)
  /\ bad' = (IF IsEvent(E)
               THEN \* property clauses: evaluated in the state the event arrived in (ghosts unchanged by events)
                    Bad(Seen(E))
                    \cup (IF E.reply # last'.reply THEN {"C_reply_differs_from_model"} ELSE {})
                    \cup (IF E.accepted # last'.accepted THEN {"C_acceptance_differs_from_model"} ELSE {})
               ELSE \* client operation: the scripted server grants or refuses as the history says
                    (IF E.op \in {"x11", "fwd"} /\ E.raised = E.flag THEN {"C_operation_outcome_differs"} ELSE {})
                    \cup (IF E.op = "x11closed" /\ ~E.raised THEN {"C_operation_outcome_differs"} ELSE {})
                    \cup (IF E.op \notin {"x11", "fwd", "x11closed"} /\ E.raised THEN {"C_operation_raised"} ELSE {}))
Skipped == /\ ~ENABLED Step(E.op, E.arg, E.flag)
           /\ UNCHANGED vars
           /\ bad' = {"C_step_not_enabled_in_model"} \cup (IF IsEvent(E) THEN Bad(Seen(E)) ELSE {})
TNext == l <= Len(T) /\ l' = l + 1 /\ tid' = tid /\ (Taken \/ Skipped)
TSpec == TInit /\ [][TNext]_tvars
Report == /\ (bad # {} => PrintT(<<"VERDICT", tid, l - 1, bad>>))
          /\ (l = Len(T) + 1 => PrintT(<<"DONE", tid>>))
=============================================================================
