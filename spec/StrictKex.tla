------------------------------ MODULE StrictKex ------------------------------
(* Initial SSH handshake between a client "c" and a server "s" as Transport.run()  *)
(* drives it (paramiko/transport.py:2191-2274, 2141-2153, 2552-2561, 2777-2797),    *)
(* with a man in the middle who can inject plaintext packets before a direction's   *)
(* NEWKEYS and delete ciphertext packets after it (Terrapin, CVE-2023-48795).       *)
EXTENDS Naturals, Sequences, FiniteSets, TLC

CONSTANTS AdvC, AdvS,          \* does each side advertise kex-strict-*-v00@openssh.com
          MaxInject, MaxDrop,  \* attacker budget
          NApp,                \* post-handshake application messages each side sends
          EnforceStrict        \* FALSE models a transport that forgets _enforce_strict_kex / seqno check

Ends == {"c", "s"}
Peer(e) == IF e = "c" THEN "s" ELSE "c"
InjTypes == {"IGNORE", "DEBUG", "UNIMPL", "UNKNOWN", "KEXINIT"}

VARIABLES phase,     \* [end -> "start" | "wait_kexinit" | "wait_kex" | "wait_newkeys" | "open" | "dead"]
          sin, sout, \* sequence numbers
          agreed,    \* [end -> BOOLEAN] agreed_on_strict_kex
          encIn, encOut,
          net,       \* [end -> Seq of packets travelling TOWARDS that end]
          appSent,   \* [end -> Seq of app message ids that end has sent after its NEWKEYS]
          appRecv,   \* [end -> Seq of app message ids delivered to that end]
          ninj, ndrop,
          badKexinit,\* [end -> BOOLEAN] the KEXINIT this end accepted was not the one its peer sent (exchange hashes differ)
          tainted    \* [end -> BOOLEAN] the end consumed an attacker-made packet before its initial kex completed
vars == <<phase, sin, sout, agreed, encIn, encOut, net, appSent, appRecv, ninj, ndrop, badKexinit, tainted>>

Pkt(t, sq, enc, id) == [t |-> t, seq |-> sq, enc |-> enc, id |-> id, forged |-> FALSE]
Forged(t) == [t |-> t, seq |-> 0, enc |-> FALSE, id |-> 0, forged |-> TRUE]

Init == /\ phase = [e \in Ends |-> "start"]
        /\ sin = [e \in Ends |-> 0] /\ sout = [e \in Ends |-> 0]
        /\ agreed = [e \in Ends |-> FALSE]
        /\ encIn = [e \in Ends |-> FALSE] /\ encOut = [e \in Ends |-> FALSE]
        /\ net = [e \in Ends |-> <<>>]
        /\ appSent = [e \in Ends |-> <<>>] /\ appRecv = [e \in Ends |-> <<>>]
        /\ ninj = 0 /\ ndrop = 0
        /\ tainted = [e \in Ends |-> FALSE] /\ badKexinit = [e \in Ends |-> FALSE]

\* enqueue a list of message types from e to its peer, numbering them with e's outbound counter
SendSeq(e, ts, so, eo) ==   \* returns <<packets, new sout>> ; ts = Seq of [t, id], so = sout[e], eo = encOut[e]
  [i \in 1..Len(ts) |-> Pkt(ts[i].t, so + i - 1, eo, ts[i].id)]

Adv(e) == IF e = "c" THEN AdvC ELSE AdvS

\* Transport.run(): _send_kex_init(); _expect_packet(MSG_KEXINIT)
Start(e) ==
  /\ phase[e] = "start"
  /\ net' = [net EXCEPT ![Peer(e)] = @ \o <<Pkt("KEXINIT", sout[e], FALSE, 0)>>]
  /\ sout' = [sout EXCEPT ![e] = @ + 1]
  /\ phase' = [phase EXCEPT ![e] = "wait_kexinit"]
  /\ UNCHANGED <<sin, agreed, encIn, encOut, appSent, appRecv, ninj, ndrop, badKexinit, tainted>>

\* Result of one run-loop iteration at end e for packet p (MAC already accepted).
\* A record of the new values; "out" is what e sends to its peer while handling p.
Keep(e) == [phase |-> phase[e], sout |-> sout[e], agreed |-> agreed[e], encIn |-> encIn[e],
            encOut |-> encOut[e], out |-> <<>>, appSent |-> appSent[e], deliver |-> 0]
Dead(e) == [Keep(e) EXCEPT !.phase = "dead"]

\* StepAt(e, p, ph, rseq): the step with the end's phase and the receiver's sequence number given explicitly
\* (the trace spec binds them to logged values); Step(e, p) is the step in the current state.
StepAt(e, p, ph, rseq) ==
  LET strictNow == EnforceStrict /\ agreed[e] /\ ph # "open" IN
  CASE p.t \in {"IGNORE", "DEBUG"} -> IF strictNow THEN Dead(e) ELSE Keep(e)
    [] ph = "wait_kexinit" ->
         IF p.t # "KEXINIT" THEN Dead(e)
         ELSE LET ag == Adv(e) /\ Adv(Peer(e)) IN                       \* _parse_kex_init
              IF EnforceStrict /\ ag /\ rseq # 0                     \* m.seqno != 0: "KEXINIT was not the first packet"
                THEN [Dead(e) EXCEPT !.agreed = ag]
                ELSE IF e = "c"                                        \* client sends its kex init message
                  THEN [Keep(e) EXCEPT !.agreed = ag, !.phase = "wait_kex",
                                       !.out = <<Pkt("KEX30", sout[e], FALSE, 0)>>, !.sout = sout[e] + 1]
                  ELSE [Keep(e) EXCEPT !.agreed = ag, !.phase = "wait_kex"]
    [] ph = "wait_kex" ->
         IF (e = "s" /\ p.t # "KEX30") \/ (e = "c" /\ p.t # "KEX31") THEN Dead(e)
         ELSE IF e = "c" /\ (badKexinit["c"] \/ badKexinit["s"] \/ p.forged) THEN Dead(e)   \* signature over a different H (C06)
         ELSE LET reset == agreed[e] /\ EnforceStrict                   \* _activate_outbound
                  pre == IF e = "s" THEN <<Pkt("KEX31", sout[e], FALSE, 0), Pkt("NEWKEYS", sout[e] + 1, FALSE, 0)>>
                                   ELSE <<Pkt("NEWKEYS", sout[e], FALSE, 0)>>
                  base == IF reset THEN 0 ELSE sout[e] + Len(pre)
                  app == [i \in 1..NApp |-> Pkt("APP", base + i - 1, TRUE, i)]
              IN [Keep(e) EXCEPT !.phase = "wait_newkeys", !.out = pre \o app, !.sout = base + NApp,
                                 !.encOut = TRUE, !.appSent = [i \in 1..NApp |-> i]]
    [] ph = "wait_newkeys" ->
         IF p.t # "NEWKEYS" THEN Dead(e)
         ELSE [Keep(e) EXCEPT !.phase = "open", !.encIn = TRUE]         \* _parse_newkeys / _activate_inbound
    [] ph = "open" ->
         IF p.t = "APP" THEN [Keep(e) EXCEPT !.deliver = p.id] ELSE Keep(e)
    [] OTHER -> Dead(e)

Step(e, p) == StepAt(e, p, phase[e], sin[e])

Recv(e) ==
  /\ phase[e] \notin {"start", "dead"} /\ net[e] # <<>>
  /\ LET p == Head(net[e])
         macOK == IF encIn[e] THEN (p.enc /\ p.seq = sin[e]) ELSE ~p.enc
         r == IF macOK THEN Step(e, p) ELSE Dead(e)
         resetIn == macOK /\ p.t = "NEWKEYS" /\ phase[e] = "wait_newkeys" /\ agreed[e] /\ EnforceStrict
     IN /\ net' = [net EXCEPT ![e] = Tail(@), ![Peer(e)] = @ \o r.out]
        /\ sin' = [sin EXCEPT ![e] = IF ~macOK THEN @ ELSE IF resetIn THEN 0 ELSE @ + 1]
        /\ phase' = [phase EXCEPT ![e] = r.phase]
        /\ sout' = [sout EXCEPT ![e] = r.sout]
        /\ agreed' = [agreed EXCEPT ![e] = r.agreed]
        /\ encIn' = [encIn EXCEPT ![e] = r.encIn]
        /\ encOut' = [encOut EXCEPT ![e] = r.encOut]
        /\ appSent' = [appSent EXCEPT ![e] = r.appSent]
        /\ appRecv' = [appRecv EXCEPT ![e] = IF r.deliver # 0 THEN Append(@, r.deliver) ELSE @]
        /\ badKexinit' = [badKexinit EXCEPT ![e] = @ \/ (macOK /\ p.forged /\ p.t = "KEXINIT" /\ phase[e] = "wait_kexinit")]
        /\ tainted' = [tainted EXCEPT ![e] = @ \/ (macOK /\ p.forged /\ phase[e] # "open")]
  /\ UNCHANGED <<ninj, ndrop>>

\* ---- man in the middle ----
\* plaintext injection towards e, anywhere before the first encrypted packet in that queue
Inject(e, t, pos) ==
  /\ ninj < MaxInject /\ pos \in 1..(Len(net[e]) + 1)
  /\ \A i \in 1..(pos - 1) : ~net[e][i].enc
  /\ ~encIn[e]
  /\ net' = [net EXCEPT ![e] = SubSeq(@, 1, pos - 1) \o <<Forged(t)>> \o SubSeq(@, pos, Len(@))]
  /\ ninj' = ninj + 1
  /\ UNCHANGED <<phase, sin, sout, agreed, encIn, encOut, appSent, appRecv, ndrop, tainted, badKexinit>>
\* delete one packet (the attacker sees lengths, so it can cut ciphertext at packet boundaries)
Drop(e, pos) ==
  /\ ndrop < MaxDrop /\ pos \in 1..Len(net[e])
  /\ net' = [net EXCEPT ![e] = SubSeq(@, 1, pos - 1) \o SubSeq(@, pos + 1, Len(@))]
  /\ ndrop' = ndrop + 1
  /\ UNCHANGED <<phase, sin, sout, agreed, encIn, encOut, appSent, appRecv, ninj, tainted, badKexinit>>

Next == \/ \E e \in Ends : Start(e) \/ Recv(e)
        \/ \E e \in Ends, t \in InjTypes, pos \in 1..6 : Inject(e, t, pos)
        \/ \E e \in Ends, pos \in 1..6 : Drop(e, pos)
Spec == Init /\ [][Next]_vars

(* ---- properties (C09) ---- *)
IsPrefix(a, b) == Len(a) <= Len(b) /\ \A i \in 1..Len(a) : a[i] = b[i]
BothStrict == AdvC /\ AdvS
\* a session that came up under strict kex never shows one end a stream that is not a prefix of what the other sent
NoShiftedSession ==
  BothStrict => \A e \in Ends : phase[e] = "open" => IsPrefix(appRecv[e], appSent[Peer(e)])
\* the first sentence of C09: under strict kex no end that consumed an attacker-made packet during its
\* initial key exchange ever gets an established session
ForgedNeverSurvives == (BothStrict /\ EnforceStrict) => \A e \in Ends : tainted[e] => phase[e] # "open"
\* and with nothing left in flight and both ends open, nothing was lost
NothingLost ==
  BothStrict => ((\A e \in Ends : phase[e] = "open" /\ net[e] = <<>>) =>
                   \A e \in Ends : appRecv[e] = appSent[Peer(e)])
\* any injected packet during a strict initial handshake kills the connection (no end reaches "open" having consumed one)
SeqZeroAfterNewkeys ==
  BothStrict /\ EnforceStrict => \A e \in Ends : (phase[e] = "open" /\ appRecv[e] = <<>> /\ encIn[e]) => sin[e] <= Len(appSent[Peer(e)])
=============================================================================
