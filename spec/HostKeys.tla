------------------------------ MODULE HostKeys ------------------------------
(* C41.  Known-hosts store (paramiko/hostkeys.py: HostKeys.load / add / save /     *)
(* lookup / check / __delitem__, HostKeyEntry).                                    *)
(*                                                                               *)
(* A name is [h, salt]: salt = 0 is the plain host name h, salt > 0 is the hashed   *)
(* form "|1|salt|HMAC(salt, h)" (the driver computes real HMACs; two hashed names   *)
(* are the same text iff host and salt agree).  A key is [kt, id].  An entry / a     *)
(* file line is [names : Seq(Name), key : Key].  The store is the sequence of        *)
(* entries in order (HostKeys._entries); save() writes it out line by line, so a     *)
(* saved file is the same sequence.                                                 *)
(*                                                                               *)
(* Actions: Load(F) (file F merged into the store), LoadAgain (the same file once    *)
(* more), Add(h, key), Delete(h).                                                   *)
(* FixIter   = FALSE: pinned load() removes names from the list it iterates over     *)
(* FixShadow = FALSE: pinned load() drops a name only if check() is true, so a line   *)
(*             shadowed by an earlier key of the same type is appended on every load *)
EXTENDS Naturals, Sequences, FiniteSets, TLC

CONSTANTS Hosts,        \* host names
          Salts,        \* salts used for hashed names (positive numbers); {} = no hashed names
          KeyTypes,     \* key type names
          KeyIds,       \* key identities per type
          MaxNames,     \* longest name list of a line
          MaxFileLen,   \* longest file (lines)
          MaxOps,       \* longest history explored
          KeepHist,     \* TRUE: remember the operations (generation for replay); FALSE: exhaustive checking
          FixIter, FixShadow

Plain(h)  == [h |-> h, salt |-> 0]
Names     == {[h |-> h, salt |-> s] : h \in Hosts, s \in Salts \cup {0}}
Keys      == {[kt |-> t, id |-> i] : t \in KeyTypes, i \in KeyIds}
NoKey     == [kt |-> "", id |-> 0]
Range(s)  == {s[i] : i \in 1..Len(s)}

(* ---- lookup (HostKeys._hostname_matches / lookup / check) ---- *)
\* an entry name matches a query when the texts are equal, or the entry name is the hash of the (plain) query
NameMatches(n, q)   == n = q \/ (n.salt # 0 /\ q.salt = 0 /\ n.h = q.h)
EntryMatches(e, q)  == \E i \in 1..Len(e.names) : NameMatches(e.names[i], q)
LookupEntries(st, q) == SelectSeq(st, LAMBDA e : EntryMatches(e, q))
OfType(es, t)       == SelectSeq(es, LAMBDA e : e.key.kt = t)
\* first entry per key type takes effect
LookupKey(st, q, t) == LET es == OfType(LookupEntries(st, q), t) IN IF es = <<>> THEN NoKey ELSE es[1].key
KeyTypeList(st, q)  == [i \in 1..Len(LookupEntries(st, q)) |-> LookupEntries(st, q)[i].key.kt]
Check(st, q, k)     == LookupKey(st, q, k.kt) = k
Listed(st, q, k)    == \E i \in 1..Len(st) : EntryMatches(st[i], q) /\ st[i].key = k

(* ---- load ---- *)
RECURSIVE RemoveFirst(_, _)
RemoveFirst(s, x) == IF s = <<>> THEN <<>> ELSE IF Head(s) = x THEN Tail(s) ELSE <<Head(s)>> \o RemoveFirst(Tail(s), x)
Drop(st, q, k, fs) == IF fs THEN Listed(st, q, k) ELSE Check(st, q, k)
\* pinned: `for h in entry.hostnames: if check(h, key): entry.hostnames.remove(h)` - the index walks the shrinking list
RECURSIVE ScanLive(_, _, _, _, _)
ScanLive(st, names, i, k, fs) ==
    IF i > Len(names) THEN names
    ELSE IF Drop(st, names[i], k, fs) THEN ScanLive(st, RemoveFirst(names, names[i]), i + 1, k, fs)
    ELSE ScanLive(st, names, i + 1, k, fs)
\* repaired: iterate over a copy
RECURSIVE ScanCopy(_, _, _, _, _)
ScanCopy(st, todo, names, k, fs) ==
    IF todo = <<>> THEN names
    ELSE ScanCopy(st, Tail(todo), IF Drop(st, Head(todo), k, fs) THEN RemoveFirst(names, Head(todo)) ELSE names, k, fs)
LoadLine(st, ln, fi, fs) ==
    LET rest == IF fi THEN ScanCopy(st, ln.names, ln.names, ln.key, fs) ELSE ScanLive(st, ln.names, 1, ln.key, fs)
    IN  IF rest = <<>> THEN st ELSE Append(st, [names |-> rest, key |-> ln.key])
RECURSIVE LoadFile(_, _, _, _)
LoadFile(st, F, fi, fs) == IF F = <<>> THEN st ELSE LoadFile(LoadLine(st, Head(F), fi, fs), Tail(F), fi, fs)

(* ---- add / delete ---- *)
\* add(): the first entry that lists the plain name verbatim and has the key's type gets the new key
AddKey(st, h, k) ==
    LET hit == {i \in 1..Len(st) : Plain(h) \in Range(st[i].names) /\ st[i].key.kt = k.kt}
    IN  IF hit = {} THEN Append(st, [names |-> <<Plain(h)>>, key |-> k])
        ELSE LET i == CHOOSE x \in hit : \A y \in hit : x <= y IN [st EXCEPT ![i].key = k]
\* del hostkeys[h]: the first matching entry goes (all of it)
DeleteHost(st, h) ==
    LET hit == {i \in 1..Len(st) : EntryMatches(st[i], Plain(h))}
    IN  IF hit = {} THEN st
        ELSE LET i == CHOOSE x \in hit : \A y \in hit : x <= y
             IN  SubSeq(st, 1, i - 1) \o SubSeq(st, i + 1, Len(st))

(* ---- observables ---- *)
MapOver(st, h, T) == [t \in T |-> LookupKey(st, Plain(h), t)]
LookupMap(st, h)  == MapOver(st, h, KeyTypes)
RECURSIVE Dedup(_)
Dedup(s) == IF s = <<>> THEN <<>> ELSE LET r == Dedup(SubSeq(s, 1, Len(s) - 1)) IN
                                        IF s[Len(s)] \in Range(r) THEN r ELSE Append(r, s[Len(s)])
RECURSIVE Flatten(_)
Flatten(ss) == IF ss = <<>> THEN <<>> ELSE Head(ss) \o Flatten(Tail(ss))
HostList(st)      == Dedup(Flatten([i \in 1..Len(st) |-> st[i].names]))
Obs(st)           == [maps  |-> [h \in Hosts |-> LookupMap(st, h)],
                      types |-> [h \in Hosts |-> KeyTypeList(st, Plain(h))],
                      hosts |-> HostList(st),
                      saved |-> st]
\* what merging file F into a store must do to the effective keys (first obtained wins, store first)
FirstInFile(F, h, t) == LookupKey(F, Plain(h), t)
MergeMaps(old, F, h, T) == [t \in T |-> IF old[t] # NoKey THEN old[t] ELSE FirstInFile(F, h, t)]
Merged(st, F, h)  == MergeMaps(LookupMap(st, h), F, h, KeyTypes)

(* ---- state machine ---- *)
VARIABLES store,   \* HostKeys._entries
          last,    \* name of the previous operation
          lastF,   \* the file merged by the previous step (<<>> if the previous step was no load)
          before,  \* the store before the previous step
          nops,    \* operations so far
          hist     \* the operations themselves (only when KeepHist: generation / replay)
vars == <<store, last, lastF, before, nops, hist>>

RECURSIVE SeqsUpTo(_, _)
SeqsUpTo(S, k) == IF k = 0 THEN {<<>>} ELSE LET p == SeqsUpTo(S, k - 1) IN p \cup {Append(x, y) : x \in p, y \in S}
NameLists == SeqsUpTo(Names, MaxNames) \ {<<>>}
Lines     == [names : NameLists, key : Keys]
Files     == SeqsUpTo(Lines, MaxFileLen) \ {<<>>}

Init == store = <<>> /\ last = "" /\ lastF = <<>> /\ before = <<>> /\ nops = 0 /\ hist = <<>>
Step(op, rec) == /\ last' = op /\ before' = store /\ nops' = nops + 1
                 /\ hist' = IF KeepHist THEN Append(hist, rec) ELSE hist
Load(F) == /\ store' = LoadFile(store, F, FixIter, FixShadow)
           /\ lastF' = F /\ Step("load", [op |-> "load", file |-> F])
LoadAgain == /\ lastF # <<>>
             /\ store' = LoadFile(store, lastF, FixIter, FixShadow)
             /\ lastF' = lastF /\ Step("reload", [op |-> "reload", file |-> lastF])
Add(h, k) == /\ store' = AddKey(store, h, k)
             /\ lastF' = <<>> /\ Step("add", [op |-> "add", host |-> h, key |-> k])
Delete(h) == /\ \E i \in 1..Len(store) : EntryMatches(store[i], Plain(h))
             /\ store' = DeleteHost(store, h)
             /\ lastF' = <<>> /\ Step("delete", [op |-> "delete", host |-> h])
Next == /\ nops < MaxOps
        /\ \/ \E F \in Files : Load(F)
           \/ LoadAgain
           \/ \E h \in Hosts, k \in Keys : Add(h, k)
           \/ \E h \in Hosts : Delete(h)
Spec == Init /\ [][Next]_vars

(* ---- properties (C41) ---- *)
LastOp == last
\* loading the same file again changes neither lookups, the reported key lists, nor the saved output
ReloadIdempotent == LastOp = "reload" => Obs(store) = Obs(before)
\* a load gives every (host, type) the key of the first entry that lists it: store first, then file order
LoadMerges       == LastOp \in {"load", "reload"} =>
                        \A h \in Hosts : LookupMap(store, h) = Merged(before, lastF, h)
\* saving and reloading (into a fresh store) yields identical lookups
SaveReloadAgrees == \A h \in Hosts : LookupMap(LoadFile(<<>>, store, FixIter, FixShadow), h) = LookupMap(store, h)
\* check() is true exactly for the effective key (definitional on the model; on the code it is the trace
\* spec's clause P_check_not_exactly_effective_key)
CheckExact       == \A h \in Hosts, k \in Keys : Check(store, Plain(h), k) <=> LookupMap(store, h)[k.kt] = k
\* one single-line print per history (ToString: TLC's pretty-printer would dominate the run)
Emit == PrintT(<<"CASE", ToString(<<hist, store>>)>>)
=============================================================================
